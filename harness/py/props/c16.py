"""C16 — minification preserves behaviour.
Model: coq/Model/C16_RemoveWs.v (removeWhitespace), C16_Lex.v (lexical structure, tokens, side condition),
C16_Alloc.v (newVariable over context stacks); theorems: coq/Props/C16.v.

Correspondence (every run, against the current tree):
 (1) generated Go programs (many same-scope variables past 26 / 118 / 702, shadowing, closures, keyword-named identifiers,
     string literals with quotes, backslashes and comment-like text, adjacent unary/binary minus, blocking functions) are
     built plain and with -m; both run under node: stdout, exit status and error line must be equal, `node --check` must pass.
     The same programs are compiled by the real build.Session inside the overlay harness; EVERY Decl code blob (main package
     and its dependencies) goes through the REAL Decl.minify. Direct oracle: an independent JS tokenizer (c16_lexer.py) must
     give the same token stream (strings included) and the same hints-before-token view for blob and minified blob.
     Model: remove_ws must equal the real output byte for byte, and the blob must satisfy well_lexed (hypothesis of the theorem).
 (2) synthetic token streams with adversarial spacing (`a - -b`, `x = - - y`, comments containing quotes, strings containing
     comment openers, hints inside, ...) -> real removeWhitespace vs remove_ws, same direct oracle on the reachable class;
     random byte soup (unterminated strings/comments, truncated hints, trailing slash) -> panics must agree too.
 (3) random context-stack histories -> real newRootCtx/nestedFunctionContext/newVariable vs the model; direct oracle: every
     returned name is new among the names visible from its context and is no ECMAScript reserved word.
"""
import json, os, re, sys
import common as C
import c16_lexer as L

ID = "C16"
PROPS_FILE = "Props/C16.v"
MODEL_TARGETS = ["Corr/C16_Eval.v"]
ALLOWED_AXIOMS = []
RULE = ("programs: generated Go (functions with 3..720 same-scope variables, nested blocks that shadow, closures capturing outer "
        "variables, identifiers that are JS keywords, string literals over quotes/backslashes/comment openers, x - -y and -(-x), "
        "channels/goroutines for flattened functions, >26 package-level names, optional final run-time panic), built plain and -m. "
        "blobs: every non-empty Decl code field of those builds (distinct by content). streams: 2..25 tokens from a JS-shaped "
        "vocabulary joined by random separators (whitespace, comments with quotes/stars, hints), non-trivial = at least one "
        "separator that must survive and one that must not; plus a fixed adversarial list and random byte soup. "
        "alloc: random enter/leave/alloc histories (depth<=5, keyword and colliding base names, both modes) plus fixed "
        "histories with 130/720/800 same-scope and 720 package-level names; non-trivial = at least one suffix or one skipped short name")
TRUSTED = ["models of removeWhitespace / newVariable / nestedFunctionContext copy / newRootCtx seeding written by hand "
           "(coq/Model/C16_*.v), tied by this correspondence",
           "encodeIdent (url.QueryEscape) is not modelled: names reach the model in encoded form",
           "esbuild's minification of the prelude and of included .inc.js files (WriteJS) is compared by running only",
           "harness/go/repo_overlay/compiler/export_c16_verif.go + verifharness/c16 (call the unexported originals)",
           "harness/py/c16_lexer.py: independent ECMAScript tokenizer used as the direct oracle; node as the JS engine",
           "the glue relation of C16_Lex.v over-approximates 'adjacent inside one ECMAScript token' (hand-written table)"]
ASSUMPTIONS = ["generated code stays inside the modelled lexicon: double-quoted strings only, /* */ comments only, no regex literals "
               "(checked on every Decl blob of every generated program: well_lexed must hold)",
               "base names given to newVariable never end in $<digits> (true for Go identifiers through encodeIdent and for the "
               "compiler's own temporaries); otherwise x, x, x$1 collide",
               "the compiler allocates names only in the innermost function context (a nested context is finished before its "
               "parent continues)",
               "string literals never contain a raw 0x08 byte (C14 encode_string_safe)"]

JS_RESERVED = ("await break case catch class const continue debugger default delete do else enum export extends false finally for "
               "function if import in instanceof new null return super switch this throw true try typeof var void while with yield "
               "implements interface let package private protected public static arguments eval").split()
H = lambda: os.path.join(C.BIN, "h_c16")


# ---------------------------------------------------------------- prepare

def extract_keywords():
    src = open(os.path.join(C.REPO, "compiler", "compiler.go")).read()
    m = re.search(r"keywords\s*:=\s*\[\]string\{(.*?)\}", src, re.S)
    if not m:
        return None
    return re.findall(r'"([^"]+)"', m.group(1))


def prepare(ctx):
    C.ensure_gopherjs()
    C.ensure_go_harness("c16")
    kws = extract_keywords()
    rc, out, err = C.sh2([H(), "keywords"])
    runtime = json.loads(out) if rc == 0 else None
    ctx.kw_source, ctx.kw_runtime = kws, runtime
    # the table the theorems are about is the one the running compiler has; the source extraction must agree (checked in correspond)
    table = runtime if runtime is not None else (kws or [])
    txt = ("(* generated from compiler/compiler.go by harness/py/props/c16.py - do not edit *)\n"
           "From Coq Require Import List NArith.\nImport ListNotations.\nLocal Open Scope N_scope.\n"
           "Definition reserved_keywords : list (list N) :=\n  [ " +
           ";\n    ".join("[" + ";".join(str(b) for b in k.encode()) + "]" for k in sorted(table)) + " ].\n")
    gen = os.path.join(C.COQ, "Gen", "C16_Keywords.v")
    C.write_if_changed(gen, txt)


# ---------------------------------------------------------------- helpers

def nlist(bs):
    return "[" + ";".join(str(b) for b in bs) + "]"


def coq_name(s):
    return nlist(s.encode())


def eval_cases(ctx, vcases, tag):
    """vcases: list of Coq `case` terms. Returns dict index -> code for the mismatching ones (None on evaluation failure)."""
    shards, cur, size, big_last = [], [], 0, False
    for i, v in enumerate(vcases):
        if cur and (size + len(v) > 60000 or len(cur) >= (130 if ctx.quick else 400) or len(v) > 20000 or big_last):
            shards.append(cur); cur, size = [], 0
        cur.append((i, v)); size += len(v); big_last = len(v) > 20000
    if cur:
        shards.append(cur)

    def run_shard(k):
        p = os.path.join(ctx.work, "cases_%s_%d.v" % (tag, k))
        with open(p, "w") as f:
            f.write("From Coq Require Import List NArith.\nFrom Verif Require Import Model.C16_RemoveWs Model.C16_Lex Model.C16_Alloc Corr.C16_Eval.\n"
                    "Import ListNotations.\nLocal Open Scope N_scope.\n")
            f.write("Definition cases : list case := [\n" + ";\n".join(v for _, v in shards[k]) + "].\n")
            f.write("Definition M := Eval vm_compute in (mismatches cases, count_well_lexed cases).\nPrint M.\n")
        rc, out = C.coq_run(p)
        m = re.search(r"M\s*=\s*\(\s*(\[[^\]]*\])\s*,\s*(\d+)", out.replace("\n", " "))
        if rc != 0 or not m:
            return k, None, 0, out[-800:]
        idxs = [int(x.replace("%N", "")) for x in re.findall(r"\d+(?:%N)?", m.group(1))]
        return k, idxs, int(m.group(2)), ""

    res, failed, nwl = {}, [], 0
    for k, idxs, wl, err in C.parallel_map(run_shard, range(len(shards))):
        if idxs is None:
            failed.append((k, err))
            continue
        nwl += wl
        for x in idxs:
            res[shards[k][x // 8][0]] = x % 8
    for k, err in list(failed):
        if "[timeout" in err or "Cannot allocate" in err or "Out of memory" in err:
            ctx.notes.append("Coq evaluation of %s shard %d skipped (infrastructure): %s" % (tag, k, err[-120:]))
            failed.remove((k, err))
    for k, err in failed:
        ctx.violation("model-eval-failed", "Coq evaluation of the model failed (%s shard %d)" % (tag, k), dict(shard=k, log=err), concrete=False)
    return res, nwl


def packed(b):
    """bytes as a Coq term over the constants b_0..b_255 of Corr/C16_Eval.v"""
    return "[" + ";".join("b_%d" % x for x in b) + "]"


def rw_case(b, out, panicked, require):
    return "CRw %s %s %s" % (packed(b), "None" if panicked else "(Some %s)" % packed(out), "true" if require else "false")


def real_rw(blobs):
    rc, out, err = C.sh2([H(), "rw"], inp=json.dumps([b.hex() for b in blobs]).encode(), timeout=600)
    if rc != 0:
        raise C.BuildError("c16 harness rw failed: " + err[-500:])
    return [(bytes.fromhex(r["out"]), r["panic"]) for r in json.loads(out)]


def oracle_blob(before, after):
    """the property predicate, evaluated without the model. Returns None or (signature, text)."""
    try:
        tb, hb = L.observe(before)
    except L.LexError as e:
        return ("input-outside-lexicon", "the un-minified code is outside the JS lexicon of the oracle: %s" % e)
    try:
        ta, ha = L.observe(after)
    except L.LexError as e:
        return ("rw-output-does-not-lex", "the minified code does not lex: %s" % e)
    if [t for t in tb if t[:1] == b'"'] != [t for t in ta if t[:1] == b'"']:
        return ("rw-string-literal-changed", "a string literal was altered by whitespace removal")
    if tb != ta:
        k = next((i for i, (x, y) in enumerate(zip(tb, ta)) if x != y), min(len(tb), len(ta)))
        return ("rw-token-stream-changed", "token stream changed at token %d: %r -> %r" % (k, b" ".join(tb[max(0, k - 2):k + 3]), b" ".join(ta[max(0, k - 2):k + 3])))
    if hb != ha:
        return ("rw-hints-changed", "the hint sequence / the token a hint precedes changed")
    return None


# ---------------------------------------------------------------- (1) programs

STRS = ['a"b', "x\\y", "/* c */", "// d", "it's", "*/ x /*", "a  b", "q\\\"r", "\t|", "é·", "-- ++", "end\\"]
KEYWORD_IDS = ["new", "class", "function", "delete", "typeof", "this", "let", "static", "arguments", "eval", "await", "async",
               "yield", "void", "with", "in_", "do_", "enum", "export", "super", "null", "undefined", "short", "native", "abstract"]


def go_str(s):
    return json.dumps(s, ensure_ascii=False)


def gen_body(r, P, depth, nvars, ind, outer, addr=True):
    """statements for one function body. `outer`: names of int variables in scope. Returns lines."""
    L_ = []
    tab = "\t" * ind
    mine = []
    scope = list(outer)

    def fresh(prefix="v"):
        P["k"] += 1
        return "%s%d" % (prefix, P["k"])

    def expr():
        c = r.random()
        a = r.choice(scope) if scope else "1"
        b = r.choice(scope) if scope else "2"
        if c < 0.2:
            return "%s - -%s" % (a, b)
        if c < 0.3:
            return "-(-%s)" % a
        if c < 0.4:
            return "%s - (-%s) + %d" % (a, b, r.randint(0, 9))
        if c < 0.5:
            return "-%s - -%s - -%d" % (a, b, r.randint(1, 9))
        if c < 0.6:
            return "%s*%d - %s" % (a, r.randint(2, 5), b)
        if c < 0.7:
            return "(%s + %s) %% 1000" % (a, b)
        if c < 0.8:
            return "%s ^ -%s" % (a, b)
        return "%s + %d" % (a, r.randint(0, 99))

    for _ in range(nvars):
        c = r.random()
        if c < 0.45:
            v = r.choice(KEYWORD_IDS) + "X" if False else (r.choice(KEYWORD_IDS) if r.random() < 0.15 else fresh())
            if v in scope:
                v = fresh()
            L_.append("%s%s := %s" % (tab, v, expr()))
            scope.append(v); mine.append(v)
        elif c < 0.55 and scope:
            v = r.choice(scope)                     # shadow in a nested block
            L_.append("%s{" % tab)
            L_.append("%s\t%s := %s" % (tab, v, expr()))
            L_.append("%s\tacc = acc - -%s" % (tab, v))
            L_.append("%s}" % tab)
        elif c < 0.65:
            s = fresh("s")
            L_.append("%s%s := %s" % (tab, s, go_str(r.choice(STRS) + r.choice(STRS))))
            L_.append("%sprintln(%s, len(%s))" % (tab, s, s))
        elif c < 0.75 and depth > 0:
            fn, p = fresh("fn"), fresh("p")
            L_.append("%s%s := func(%s int) int {" % (tab, fn, p))
            L_ += gen_body(r, P, depth - 1, r.randint(1, 4), ind + 1, scope + [p], addr)
            L_.append("%s\treturn acc - -%s" % (tab, p))
            L_.append("%s}" % tab)
            L_.append("%sacc += %s(%d)" % (tab, fn, r.randint(0, 9)))
        elif c < 0.79 and addr and mine:
            v = r.choice(mine)                      # address of a local (x$ptr names), used before and after another declaration
            w = fresh()
            L_.append("%suse(&%s)" % (tab, v))
            L_.append("%s%s := %s - -1" % (tab, w, v))
            L_.append("%suse(&%s)" % (tab, v))
            scope.append(w); mine.append(w)
        elif c < 0.81:
            fl = fresh("fl")                        # float subtraction of a negated operand is emitted without parentheses
            a = r.choice(scope) if scope else "2"
            L_.append("%s%s := float64(%s) * 0.5" % (tab, fl, a))
            L_.append("%s%s = %s - -%s" % (tab, fl, fl, fl))
            L_.append("%s%s -= -%s - -1.5" % (tab, fl, fl))
            L_.append("%sprintln(%s, %s - -2.5, -(-%s))" % (tab, fl, fl, fl))
        elif c < 0.83:
            i = fresh("i")
            L_.append("%sfor %s := 0; %s < %d; %s++ {" % (tab, i, i, r.randint(1, 3), i))
            v = r.choice(scope) if scope and r.random() < 0.5 else fresh()
            L_.append("%s\t%s := %s*2 - -%d" % (tab, v, i, r.randint(0, 5)))
            L_.append("%s\tacc += %s" % (tab, v))
            L_.append("%s}" % tab)
        elif c < 0.9:
            ch = fresh("c")
            a = r.choice(scope) if scope else "7"
            L_.append("%s%s := make(chan int)" % (tab, ch))
            L_.append("%sgo func() { %s <- %s - -1 }()" % (tab, ch, a))
            L_.append("%sacc += <-%s" % (tab, ch))
        else:
            a = r.choice(scope) if scope else "3"
            L_.append("%sif %s > %d {" % (tab, a, r.randint(-50, 50)))
            L_.append("%s\tacc -= -%s" % (tab, a))
            L_.append("%s} else {" % tab)
            L_.append("%s\tacc = -acc - -1" % tab)
            L_.append("%s}" % tab)
    for v in mine:
        L_.append("%sacc += %s %% 7" % (tab, v))
    return L_


def gen_program(r, idx, shape):
    """shape: 'small' | 'many-locals-N' | 'many-globals'"""
    P = {"k": 0}
    out = ["package main", ""]
    nglob = r.randint(1, 6) if shape != "many-globals" else r.randint(30, 60)
    for g in range(nglob):
        out.append("var g%d = %d" % (g, r.randint(-9, 99)))
    ntypes = r.randint(0, 3) if shape != "many-globals" else 12
    tnames = []
    for t in range(ntypes):
        tn = r.choice(["T%d" % t, "class%d" % t, "T%d" % t])
        tnames.append(tn)
        out.append("type %s struct{ a, b int }" % tn)
        out.append("func (t %s) sum() int { return t.a - -t.b }" % tn)
        out.append("func (t *%s) inc() { t.a = t.a - -1 }" % tn)
    out.append("")
    nfun = r.randint(1, 4) if shape != "many-globals" else r.randint(20, 40)
    fnames = []
    for f in range(nfun):
        fname = r.choice(["f%d" % f, "new%d" % f, "f%d" % f])
        fnames.append(fname)
        out.append("func %s(a, b int) int {" % fname)
        out.append("\tacc := a - -b")
        if shape.startswith("many-locals") and f == 0:
            n = int(shape.split("-")[-1])
            for i in range(n):
                out.append("\tw%d := %d - -a" % (i, i))
            for i in range(0, n, 10):
                out.append("\tacc += " + " + ".join("w%d" % j for j in range(i, min(n, i + 10))))
            out.append("\tclo := func(z int) int { q := z - -w0; return q + w%d }" % (n - 1))
            out.append("\tacc += clo(acc % 100)")
        out += gen_body(r, P, 2, r.randint(2, 9), 1, ["a", "b", "acc"] + ["g%d" % g for g in range(min(nglob, 3))])
        if tnames:
            tn = r.choice(tnames)
            out.append("\tt := %s{acc %% 10, b}" % tn)
            out.append("\tt.inc()")
            out.append("\tacc += t.sum()")
        out.append("\treturn acc % 100003")
        out.append("}")
        out.append("")
    ngen = r.randint(1, 3)
    for gidx in range(ngen):
        out.append("func gen%d[T any](t T, a, b int) (T, int) {" % gidx)
        out.append("\tacc := a - -b")
        # no address-of inside generic code: that class is the recorded finding minified-generic-instance-reuses-varptr-name
        out += gen_body(r, P, 1, r.randint(2, 7), 1, ["a", "b", "acc"], addr=False)
        out.append("\treturn t, acc % 100003")
        out.append("}")
        out.append("")
    out.append("func use(p *int) { *p = *p - -1 }")
    out.append("")
    out.append("func main() {")
    for gidx in range(ngen):
        for inst, arg in r.sample([("int", "7"), ("string", go_str(r.choice(STRS))), ("float64", "1.5"), ("[]int", "nil"), ("bool", "true")], r.randint(2, 3)):
            out.append("\t{")
            out.append("\t\t_, n := gen%d[%s](%s, %d, %d)" % (gidx, inst, arg, r.randint(-5, 20), r.randint(-5, 20)))
            out.append("\t\tprintln(n)")
            out.append("\t}")
    for f, fname in enumerate(fnames):
        out.append("\tprintln(%s(%d, %d))" % (fname, r.randint(-5, 20), r.randint(-5, 20)))
    out.append("\tprintln(%s)" % " + ".join("g%d" % g for g in range(nglob)))
    out.append("\tprintln(%s)" % go_str("".join(r.choice(STRS) for _ in range(3))))
    end = r.random()
    if end < 0.25:
        out.append("\tvar arr []int")
        out.append("\tprintln(arr[g0 - -1000])")
    elif end < 0.4:
        out.append("\tpanic(%s)" % go_str("boom " + r.choice(STRS)))
    elif end < 0.5:
        out.append("\tvar m map[string]int")
        out.append("\tm[\"k\"] = 1")
    out.append("}")
    return "\n".join(out) + "\n"



# a directed program for the recorded finding: a Go local spelled like a JS global the emitted code reads
GLOBAL_PROBE = """package main

func main() {
	console := 5
	println(console)
}
"""

VAR_LIST = re.compile(rb"\bvar ([A-Za-z0-9_$\xc2\xb7]+(?:, ?[A-Za-z0-9_$\xc2\xb7]+)+);")


def duplicate_locals(js):
    """direct oracle for name distinctness on compiled code: a `var a, b, c;` list of the package code with a repeated name"""
    start = js.find(b'$packages["')
    for m in VAR_LIST.finditer(js, max(start, 0)):
        names = [x.strip() for x in m.group(1).split(b",")]
        seen = set()
        for x in names:
            if x in seen:
                return (x.decode("latin-1"), m.group(0).decode("latin-1"))
            seen.add(x)
    return None


# directed program for the second recorded finding: two instantiations of a generic function that takes the address of a local
VARPTR_PROBE = """package main

func use(p *int) { *p = *p + 5 }

func g[T any](v T, n int) int {
\tx := n
\tuse(&x)
\ty := 3
\tuse(&x)
\treturn x + y - 3
}

func main() {
\tprintln(g[int](1, 3))
\tprintln(g[string]("a", 3))
}
"""


def run_summary(d, js):
    rc, out, err = C.run_node(os.path.join(d, js), cwd=d, timeout=300)
    lines = [l for l in err.split("\n") if re.match(r"^(\S*Error|panic|fatal error)\b", l)]
    return dict(rc=rc, stdout=out, err=lines[:3])


def programs(ctx):
    r = ctx.rng("programs")
    n = 6 if ctx.quick else 120
    shapes = ["many-locals-30", "many-locals-130", "many-locals-720", "many-globals"]
    if not ctx.quick:
        shapes += ["many-locals-%d" % k for k in (26, 27, 118, 119, 702, 703, 1500)] + ["many-globals"] * 6
    shapes = (shapes + ["small"] * n)[:n]
    progs = [gen_program(r, i, shapes[i]) for i in range(n)] + [GLOBAL_PROBE, VARPTR_PROBE]
    shapes = shapes + ["js-global-probe", "generic-varptr-probe"]
    n += 2
    env = C.goenv(); env["VERIF_REPO_DIR"] = C.REPO

    def one(i):
        src = progs[i]
        d = os.path.join(ctx.work, "p%d" % i)
        C.write_go_program(d, {"main.go": src}, module="verifc16")
        res = dict(i=i, problems=[], blobs=[])
        rc1, log1 = C.gopherjs_build(d, out="out.js", minify=False, timeout=600)
        rc2, log2 = C.gopherjs_build(d, out="out_m.js", minify=True, timeout=600)
        if rc1 == 124 or rc2 == 124 or rc1 != 0:
            res["skipped"] = "gopherjs build timed out / plain build failed (plain rc=%d, -m rc=%d): %s" % (rc1, rc2, (log1 + log2)[-300:])
            return res
        if rc2 != 0:
            res["problems"].append(("e2e-minified-build-fails", "the plain build succeeds but the -m build fails: %s" % log2[-600:], True))
            return res
        for js in ("out.js", "out_m.js"):
            rc, out = C.sh(["node", "--check", js], cwd=d, timeout=300)
            if rc == 124:
                res["skipped"] = "node --check timed out"
                return res
            if rc != 0:
                res["problems"].append(("e2e-syntax-error" if js == "out_m.js" else "e2e-plain-syntax-error",
                                        "node --check rejects %s: %s" % (js, out[-400:]), js == "out_m.js"))
        a, b = run_summary(d, "out.js"), run_summary(d, "out_m.js")
        res["plain"], res["min"] = a, b
        if a["rc"] == 124 or b["rc"] == 124:
            res["skipped"] = "node timed out"
            return res
        for js, tag in (("out.js", "plain"), ("out_m.js", "minified")):
            dup = duplicate_locals(open(os.path.join(d, js), "rb").read())
            if dup:
                if src == VARPTR_PROBE and tag == "minified":
                    res["problems"].append(("minified-generic-instance-reuses-varptr-name",
                                            "the -m build declares %s twice in one function of the second generic instance" % dup[0], True))
                else:
                    res["problems"].append(("e2e-duplicate-local-name", "the %s build declares the local %r twice in one var list (%s)" % (tag, dup[0], dup[1][:80]), True))
        if a != b:
            if src == VARPTR_PROBE:
                pass        # reported above through the duplicate declaration, with the recorded signature
            elif src == GLOBAL_PROBE:
                res["problems"].append(("plain-build-go-identifier-shadows-js-global",
                                        "a Go local named console breaks the plain build (%r) but not the -m build (%r)" % (a["err"][:1], b["stdout"][:20]), True))
            else:
                res["problems"].append(("e2e-output-differs", "plain and minified builds behave differently", True))
        # the same program through the real build.Session: every Decl blob and its real minify()
        rc, out, err = C.sh2([H(), "decls"], cwd=d, env=env, timeout=600)
        if rc != 0:
            res["skipped_blobs"] = "decls harness failed (rc=%d): %s" % (rc, err[-300:])
        else:
            res["blobs"] = json.loads(out)
        return res

    results = C.parallel_map(one, range(n), workers=8)
    ctx.log("programs built and run")
    seen, blobs = set(), []
    nident = 0
    for res in results:
        i = res["i"]
        for k in ("skipped", "skipped_blobs"):
            if res.get(k):
                ctx.notes.append("program %d (%s) skipped: %s" % (i, shapes[i], res[k]))
        if res.get("skipped"):
            continue
        ctx.count(["program", progs[i]], nontrivial=True)
        for sig, what, concrete in res["problems"]:
            ctx.violation(sig, what, dict(kind="program", source=progs[i], plain=res.get("plain"), minified=res.get("min")), concrete=concrete)
        for bl in res["blobs"]:
            key = bl["before"]
            if key in seen:
                continue
            seen.add(key)
            blobs.append((i, bl))
    if ctx.quick:
        dep = [x for x in blobs if x[1]["pkg"] != "verifc16"]
        keep = set(id(x) for x in r.sample(dep, min(30, len(dep))))
        blobs = [x for x in blobs if x[1]["pkg"] == "verifc16" or id(x) in keep]
    ctx.sample(dict(kind="program", shape=shapes[0], source_head=progs[0][:600], plain=results[0].get("plain")))
    ctx.cov["programs"] = n
    ctx.cov["program_shapes"] = {s: shapes.count(s) for s in sorted(set(shapes))}
    ctx.cov["programs_ending_in_panic"] = sum(1 for res in results if res.get("plain", {}).get("rc", 0) != 0)

    # direct oracle + model on every distinct blob
    vcases, meta = [], []
    nhints = 0
    for i, bl in blobs:
        before, after = bytes.fromhex(bl["before"]), bytes.fromhex(bl["after"])
        ctx.count(["blob", bl["before"]], nontrivial=before != after)
        bad = oracle_blob(before, after)
        if bad:
            ctx.violation("decl-" + bad[0], "Decl %s of package %s: %s" % (bl["decl"], bl["pkg"], bad[1]),
                          dict(kind="blob", before=bl["before"], after=bl["after"], pkg=bl["pkg"], decl=bl["decl"], source=progs[i]))
        nhints += before.count(b"\x08")
        vcases.append(rw_case(before, after, False, True))
        meta.append((i, bl))
    ctx.log("blob oracle done: %d blobs" % len(blobs))
    mism, nwl = eval_cases(ctx, vcases, "blobs")
    for k, code in sorted(mism.items()):
        i, bl = meta[k]
        rep = dict(kind="blob", before=bl["before"], after=bl["after"], pkg=bl["pkg"], decl=bl["decl"], model_code=code)
        if code == 2:
            ctx.violation("decl-blob-not-well-lexed", "a real Decl blob (%s, %s) is outside well_lexed: the hypothesis of remove_ws_tokens does not cover the generated code"
                          % (bl["pkg"], bl["decl"]), rep, concrete=False)
        else:
            ctx.violation("rw-model-mismatch", "remove_ws and the real removeWhitespace disagree on a Decl blob (%s, %s) [code %d]" % (bl["pkg"], bl["decl"], code), rep, concrete=False)
    ctx.cov["decl_blobs"] = len(blobs)
    ctx.cov["decl_blobs_well_lexed_in_model"] = nwl
    ctx.cov["decl_blob_bytes"] = sum(len(bl["before"]) // 2 for _, bl in blobs)
    ctx.cov["decl_blob_hint_bytes"] = nhints


# ---------------------------------------------------------------- (2) synthetic streams

IDENTS = [b"a", b"b", b"x1", b"$f", b"_r$1", b"this", b"return", b"var", b"typeof", b"new", b"in", b"instanceof", b"case", b"else",
          b"T\xc2\xb7m", b"$pkg", b"function", b"\xc2\xb7x", b"y\xc2\xb7", b"Z"]
NUMS = [b"0", b"1", b"42", b"1.5", b"1e+21", b"2e-7", b"0.25", b"4294967296"]
STRTOK = [b'""', b'"a"', b'"a\\"b"', b'"\\\\"', b'"/* c */"', b'"// d"', b'"  two  spaces "', b'"it\'s"', b'"x\\\\\\"y"', b'"*/"', b'"- -"', b'"\\b"']
PUNCTS = [p.encode() for p in ["-", "-", "-", "+", "--", "++", "=", "==", "===", "!", "!=", "(", ")", "{", "}", "[", "]", ";", ",", ".", "<", "<<", ">>>",
                               "&&", "||", "?", ":", "~", "*", "/", "%", "+=", "-=", ">", ">=", "=>", "&", "|", "^"]]
COMMENTS = [b"/* */", b"/**/", b"/* c */", b'/* " */', b"/* ' */", b"/* a * b / c */", b"/* // */", b"/* /* */", b"/* \\ */", b"/*-*/", b"/* if (x) { */"]


def needs_space(c):
    return (97 <= c <= 122) or (65 <= c <= 90) or (48 <= c <= 57) or c in (95, 36, 8)


OP_PAIRS = {(43, 43), (43, 61), (45, 45), (45, 61), (42, 42), (42, 61), (47, 61), (37, 61), (61, 61), (33, 61), (60, 60), (60, 61), (62, 62), (62, 61),
            (38, 38), (38, 61), (124, 124), (124, 61), (94, 61), (61, 62), (63, 63), (63, 61), (63, 46), (46, 46), (47, 42), (47, 47), (42, 47), (60, 33), (33, 45)}


def is_word(c):
    return (97 <= c <= 122) or (65 <= c <= 90) or (48 <= c <= 57) or c in (95, 36) or c >= 128


def may_glue(x, y):
    """generator-side copy of the character-pair table (only used to stay inside the reachable class; the oracle does not use it)"""
    return (is_word(x) and is_word(y)) or (48 <= x <= 57 and y == 46) or (x == 46 and 48 <= y <= 57) or (x, y) in OP_PAIRS


def gen_hint(r):
    ln = r.choice([0, 1, 2, 5, 5, 9, 40])
    return bytes([8, ln // 256, ln % 256]) + bytes(r.choice([0, 8, 10, 32, 34, 42, 45, 47, 92, 65, 255]) for _ in range(ln))


def junk(r, allow_hint=True):
    parts = []
    for _ in range(r.choice([0, 0, 1, 1, 2, 3])):
        c = r.random()
        if c < 0.6:
            parts.append(bytes([r.choice(b" \t\n")]) * r.choice([1, 1, 2]))
        elif c < 0.85 or not allow_hint:
            parts.append(r.choice(COMMENTS))
        else:
            parts.append(gen_hint(r))
    return b"".join(parts)


def gen_stream(r):
    ntok = r.randint(2, 25)
    toks = []
    while len(toks) < ntok:
        c = r.random()
        t = r.choice(IDENTS) if c < 0.35 else r.choice(NUMS) if c < 0.45 else r.choice(STRTOK) if c < 0.55 else r.choice(PUNCTS)
        toks.append(t)
    out = bytearray()
    kept = dropped = 0
    prev = None
    for t in toks:
        if prev is not None:
            m = L.merges(prev, t) or may_glue(prev[-1], t[0])
            if not m:
                j = junk(r)
                if prev[-1] == 47 and j:                  # `/` directly followed by a comment (or hint + comment) would read `//`
                    j = b" " + j
                out += j
                dropped += 1 if j else 0
            elif needs_space(prev[-1]) and needs_space(t[0]):
                if r.random() < 0.3:
                    out += junk(r) + bytes([r.choice(b" \t\n")]) + gen_hint(r) + junk(r)
                else:
                    out += junk(r) + bytes([r.choice(b" \t\n")])
                kept += 1
            elif prev[-1] == 45 and t[0] == 45:
                out += junk(r, allow_hint=False) + bytes([r.choice(b" \t\n")])
                kept += 1
            else:
                out += b" ;" + junk(r)          # cannot be separated safely: put a semicolon between them
                dropped += 1
        out += t
        prev = t
    if prev[-1:] == b"/" or prev[-1:] == b"-" or needs_space(prev[-1]):
        out += b";"
    out += r.choice([b"", b"\n", b" \n", b"\t"])
    return bytes(out), kept, dropped


FIXED = [  # (input, reachable from the code generator?)
    (b"a - -b;", True), (b"a- -b;", True), (b"a -  -b;", True), (b"a -\t-b;", True), (b"a - /*c*/ -b;", True), (b"x = - - y;", True),
    (b"a - - - b;", True), (b"x = -(-y << 24 >>> 24);", True), (b'x = "a\\"b" + "/* not */" + "// no";\n', True),
    (b'x = "\\\\";\ny = "\\\\\\"";\n', True), (b"return x;\n", True), (b"\t\t/* */ var $f, $c = false;\n", True),
    (b"case 0: /* if (x) { */ $s = 1; continue;\n", True), (b'/* " */ x = 1; /* \' */ y = "/*";\n', True),
    (b"\x08\x00\x02ab\t\treturn -x;\n", True), (b"k = \x08\x00\x03\"/*function k(x) {\n\t\tvar x;\n", True),
    (b"return \x08\x00\x00x;\n", True), (b"new\n\x08\x00\x01\x08\tT();", True), (b"x = a -\n\t\t-b;\n", True), (b"i in\to;", True),
    (b"a + +b;", False), (b"a + ++b;", False), (b"a - /*c*/-b;", False), (b"a - \x08\x00\x00-b;", False), (b"return /*c*/x;", False),
    (b"return/*c*/ x;", False), (b"a / *b;", False), (b"a = = b;", False), (b"x \xc2\xb7y;", False), (b"1 .toString();", False),
    (b"x = 'a  b';", False), (b"a < !--b;", False), (b"x /", False), (b"x ", False), (b"x -\n", False), (b'"abc', False), (b'"abc\\', False),
    (b"/* open", False), (b"/*", False), (b"/*a", False), (b"\x08\x00", False), (b"\x08\x00\x05ab", False), (b"", True), (b"\n", True), (b";\n", True),
]
SOUP = [32, 32, 9, 10, 34, 34, 92, 47, 47, 42, 42, 45, 45, 43, 8, 0, 1, 97, 98, 65, 48, 57, 36, 95, 40, 41, 59, 61, 39, 194, 183, 255]


def streams(ctx):
    r = ctx.rng("streams")
    n_valid = 800 if ctx.quick else 30000
    n_soup = 250 if ctx.quick else 8000
    cases = []
    for inp, reach in FIXED:
        cases.append(dict(b=inp, cls="fixed", reach=reach, kept=1, dropped=1))
    for _ in range(n_valid):
        b, kept, dropped = gen_stream(r)
        cases.append(dict(b=b, cls="valid", reach=True, kept=kept, dropped=dropped))
    for _ in range(n_soup):
        ln = r.choice([1, 2, 3, 4, 6, 9, 14, 20, 40])
        b = bytes(r.choice(SOUP) for _ in range(ln))
        if r.random() < 0.3:
            b = gen_stream(r)[0] + b
        cases.append(dict(b=b, cls="soup", reach=False, kept=0, dropped=0))
    outs = real_rw([c["b"] for c in cases])
    vcases = []
    dist = dict(valid=0, fixed=0, soup=0, impl_panics=0, changed=0, with_hints=0)
    for c, (out, pan) in zip(cases, outs):
        c["out"], c["panic"] = out, pan
        dist[c["cls"]] += 1
        dist["impl_panics"] += bool(pan)
        dist["changed"] += (not pan and out != c["b"])
        dist["with_hints"] += (8 in c["b"])
        ctx.count(["stream", c["b"].hex()], nontrivial=(c["kept"] > 0 and c["dropped"] > 0))
        if c["reach"]:
            rep = dict(kind="stream", input=c["b"].hex(), input_text=c["b"].decode("latin-1"), out=out.hex(), panic=pan, cls=c["cls"])
            if pan:
                ctx.violation("rw-panic-on-generated-code", "removeWhitespace panicked on a well-formed token stream: " + pan[:100], rep)
            else:
                bad = oracle_blob(c["b"], out)
                if bad:
                    ctx.violation(bad[0], bad[1], rep)
        vcases.append(rw_case(c["b"], out, bool(pan), c["cls"] == "valid" or (c["cls"] == "fixed" and c["reach"])))
    for c in cases[:2] + cases[len(FIXED):len(FIXED) + 2]:
        ctx.sample(dict(kind="stream", cls=c["cls"], input=c["b"].decode("latin-1"), out=c["out"].decode("latin-1")))
    mism, nwl = eval_cases(ctx, vcases, "streams")
    for k, code in sorted(mism.items()):
        c = cases[k]
        rep = dict(kind="stream", input=c["b"].hex(), input_text=c["b"].decode("latin-1"), out=c["out"].hex(), panic=c["panic"], cls=c["cls"], model_code=code)
        if code == 2:
            ctx.violation("stream-not-well-lexed", "a stream of the reachable class is outside well_lexed (generator and side condition disagree)", rep, concrete=False)
        else:
            ctx.violation("rw-model-mismatch", "remove_ws and the real removeWhitespace disagree on a stream [code %d]" % code, rep, concrete=False)
    dist["well_lexed_in_model"] = nwl
    ctx.cov["stream_distribution"] = dist


# ---------------------------------------------------------------- (3) newVariable

BASES = ["a", "b", "c", "x", "y", "A", "B", "_r", "_tuple", "_ptr", "new", "do", "if", "in", "class", "T", "main", "f", "aa", "AA", "for", "x1", "r24",
         "undefined", "var", "let", "int", "z", "Z", "_i"]
IDENT_RE = re.compile(r"^[A-Za-z_$·][A-Za-z0-9_$·]*$")


def gen_history(r, minify, big=None):
    ops = []
    if big:
        kind, n = big
        if kind == "locals":
            ops.append(dict(op="enter", name="f"))
            ops += [dict(op="alloc", name=r.choice(["v", "w%d" % i]), pkg=False) for i in range(n)]
            ops.append(dict(op="enter", name="f.func1"))
            ops += [dict(op="alloc", name="q", pkg=False) for _ in range(5)] + [dict(op="alloc", name="T", pkg=True)]
            ops += [dict(op="leave"), dict(op="alloc", name="v", pkg=False), dict(op="leave")]
        else:
            for i in range(n):
                ops.append(dict(op="alloc", name=r.choice(["T", "g%d" % i]), pkg=True))
                if i % 97 == 0:
                    ops += [dict(op="enter", name="h%d" % i), dict(op="alloc", name="T", pkg=True), dict(op="alloc", name="x", pkg=False), dict(op="leave")]
        return ops
    if r.random() < 0.2:
        # a generic function translated once per instantiation: same variables (ids) every time
        g = "gen%d" % r.randint(0, 2)
        body = []
        for k in range(r.randint(1, 5)):
            v = r.choice(["x", "y", "p", "v%d" % k])
            body.append(dict(op="alloc", name=v, pkg=False))
            if r.random() < 0.6:
                body.append(dict(op="ptr", id="%s.%d" % (g, k), name=v))
            if r.random() < 0.3:
                body.append(dict(op="alloc", name=r.choice(BASES), pkg=r.random() < 0.3))
            if r.random() < 0.3 and any(o["op"] == "ptr" for o in body):
                body.append(dict(r.choice([o for o in body if o["op"] == "ptr"])))
        for _ in range(r.randint(1, 3)):
            ops += [dict(op="enterg", name=g)] + [dict(o) for o in body] + [dict(op="leave")]
        ops.append(dict(op="alloc", name="z", pkg=False))
        return ops
    depth = 0
    for _ in range(r.choice([3, 6, 10, 20, 40, 70])):
        c = r.random()
        if c < 0.12 and depth < 5:
            ops.append(dict(op="enter", name=r.choice(BASES[:20]) if r.random() < 0.5 else "fn%d" % r.randint(0, 3))); depth += 1
        elif c < 0.22 and depth > 0:
            ops.append(dict(op="leave")); depth -= 1
        else:
            ops.append(dict(op="alloc", name=r.choice(BASES), pkg=r.random() < 0.3))
    return ops


def oracle_alloc(minify, ops, outs):
    """visibility recomputed from the implementation's own answers; returns None or (signature, text, op index)"""
    stack = [dict()]           # per frame: name -> how it became visible ("alloc" / "reuse")
    generic = [False]
    cache = {}
    for k, (o, v) in enumerate(zip(ops, outs)):
        if o["op"] == "leave":
            stack.pop(); generic.pop()
            continue
        if v.startswith("!"):
            return ("alloc-panicked", "newVariable panicked: " + v, k)
        if o["op"] == "ptr" and o["id"] in cache:
            # varPtrName for a variable that already has a pointer name: the same name, made visible in a generic instance
            if v != cache[o["id"]]:
                return ("varptr-name-not-stable", "varPtrName returned %r, earlier %r for the same variable" % (v, cache[o["id"]]), k)
            if generic[-1] and v not in stack[-1]:
                stack[-1][v] = "reuse"
            continue
        pkg = o["op"] in ("enter", "enterg") or (o["op"] == "alloc" and o["pkg"])
        if o["op"] in ("enter", "enterg"):
            stack.append(dict(stack[-1])); generic.append(o["op"] == "enterg")
        if o["op"] == "ptr":
            cache[o["id"]] = v
        if v in JS_RESERVED:
            return ("alloc-reserved-word", "newVariable returned the reserved word %r" % v, k)
        if not IDENT_RE.match(v):
            return ("alloc-not-an-identifier", "newVariable returned %r" % v, k)
        frames = stack if pkg else stack[-1:]
        hit = next((f for f in frames if v in f), None)
        if hit is not None:
            if hit[v] == "reuse" and minify:
                return ("minified-generic-instance-reuses-varptr-name",
                        "newVariable returned %r, already taken in this generic instance by a pointer name cached from an earlier instantiation" % v, k)
            return ("alloc-name-collision", "newVariable returned %r which is already visible in %s" % (v, "an enclosing context" if pkg else "this context"), k)
        for f in frames:
            f[v] = "alloc"
    return None


def allocs(ctx):
    r = ctx.rng("alloc")
    n = 120 if ctx.quick else 3000
    cases = []
    for minify in (False, True):
        cases.append(dict(minify=minify, ops=gen_history(r, minify, ("locals", 720 if (ctx.quick and minify) else 800))))
        cases.append(dict(minify=minify, ops=gen_history(r, minify, ("locals", 130))))
        cases.append(dict(minify=minify, ops=gen_history(r, minify, ("globals", 720 if not ctx.quick else 200))))
    for _ in range(n):
        minify = r.random() < 0.5
        cases.append(dict(minify=minify, ops=gen_history(r, minify)))
    # leave at root is not a compiler behaviour: drop such ops
    for c in cases:
        depth, ops = 0, []
        for o in c["ops"]:
            if o["op"] == "leave":
                if depth == 0:
                    continue
                depth -= 1
            elif o["op"] in ("enter", "enterg"):
                depth += 1
            ops.append(o)
        c["ops"] = ops
    rc, out, err = C.sh2([H(), "alloc"], inp=json.dumps(cases).encode(), timeout=600)
    if rc != 0:
        raise C.BuildError("c16 harness alloc failed: " + err[-500:])
    results = json.loads(out)
    vcases = []
    dist = dict(minify=0, suffixed=0, max_ops=0, max_depth=0, total_allocs=0, longest_short_name=0)
    for c, outs in zip(cases, results):
        c["outs"] = outs
        suff = any(re.search(r"\$\d+$", v) for v in outs)
        skipped = c["minify"] and any(len(v) >= 2 for o, v in zip(c["ops"], outs) if o["op"] != "leave")
        dist["with_generic_reuse"] = dist.get("with_generic_reuse", 0) + any(o["op"] == "ptr" for o in c["ops"])
        dist["minify"] += c["minify"]; dist["suffixed"] += suff
        dist["max_ops"] = max(dist["max_ops"], len(c["ops"]))
        dist["total_allocs"] += sum(1 for o in c["ops"] if o["op"] != "leave")
        if c["minify"]:
            dist["longest_short_name"] = max([dist["longest_short_name"]] + [len(v) for o, v in zip(c["ops"], outs) if o["op"] != "leave"])
        ctx.count(["alloc", c["minify"], c["ops"]], nontrivial=suff or skipped)
        bad = oracle_alloc(c["minify"], c["ops"], outs)
        if bad:
            ctx.violation(bad[0], bad[1] + " (op %d, minify=%s)" % (bad[2], c["minify"]),
                          dict(kind="alloc", minify=c["minify"], ops=c["ops"][:bad[2] + 1], impl=outs[:bad[2] + 1]))
        terms, cache, generic, mlocals = [], {}, [False], [set()]
        for o, v in zip(c["ops"], outs):
            if o["op"] in ("enter", "enterg"):
                terms.append("OEnter %s" % coq_name(o["name"].replace(".", "·")))
                generic.append(o["op"] == "enterg"); mlocals.append(set())
            elif o["op"] == "leave":
                terms.append("OLeave")
                generic.pop(); mlocals.pop()
            elif o["op"] == "ptr":
                if o["id"] not in cache:
                    cache[o["id"]] = v
                    terms.append("OAlloc %s false" % coq_name(o["name"] + "$24ptr"))      # encodeIdent("x$ptr")
                elif generic[-1]:
                    terms.append("OReuse %s" % coq_name(cache[o["id"]]))
                else:
                    terms.append(None)             # a plain function: the cached name is returned, nothing else happens
            else:
                terms.append("OAlloc %s %s" % (coq_name(o["name"]), "true" if o["pkg"] else "false"))
        obs = []
        for o, v, t in zip(c["ops"], outs, terms):
            if t is None:
                continue
            if o["op"] == "leave":
                obs.append("OL [%s]" % ";".join(coq_name(x) for x in v.split(",") if x))
            else:
                obs.append("ON %s" % coq_name(v))
        terms = [t for t in terms if t is not None]
        panicked = any(v.startswith("!") for v in outs)
        vcases.append("CAlloc %s [%s] %s" % ("true" if c["minify"] else "false", ";".join(terms), "None" if panicked else "(Some [%s])" % ";".join(obs)))
    ctx.sample(dict(kind="alloc", minify=cases[6]["minify"], ops=cases[6]["ops"][:12], impl=cases[6]["outs"][:12]))
    mism, _ = eval_cases(ctx, vcases, "alloc")
    for k, code in sorted(mism.items()):
        c = cases[k]
        ctx.violation("alloc-model-mismatch", "the newVariable model and the implementation disagree on a history (minify=%s, %d ops)" % (c["minify"], len(c["ops"])),
                      dict(kind="alloc", minify=c["minify"], ops=c["ops"][:200], impl=c["outs"][:200]), concrete=False)
    ctx.cov["alloc_distribution"] = dist


def keywords(ctx):
    src, run = getattr(ctx, "kw_source", None), getattr(ctx, "kw_runtime", None)
    ctx.cov["reserved_keywords"] = len(run or [])
    if src is None or run is None or sorted(set(src)) != sorted(run):
        ctx.violation("keyword-table-extraction", "the keyword list extracted from compiler/compiler.go differs from the run-time reservedKeywords table",
                      dict(kind="keywords", source=src, runtime=run), concrete=False)
    missing = [k for k in JS_RESERVED if run is not None and k not in run]
    if missing:
        ctx.violation("reserved-word-not-seeded", "ECMAScript reserved words missing from reservedKeywords: %s" % ", ".join(missing),
                      dict(kind="keywords", missing=missing, runtime=run), concrete=False)


def correspond(ctx):
    keywords(ctx)
    # the three parts are independent (own PRNG streams); run them side by side so that the few long
    # single evaluations (the 800-variable histories, the largest Decl blob) overlap with the rest
    from concurrent.futures import ThreadPoolExecutor
    parts = [("alloc", allocs), ("streams", streams), ("programs", programs)]

    def run(p):
        p[1](ctx)
        ctx.log(p[0] + " done")

    with ThreadPoolExecutor(max_workers=3) as ex:
        futs = [ex.submit(run, p) for p in parts]
        for f in futs:
            f.result()


def search(ctx, st):
    """a proof broke: the correspondence above already ran every oracle; a concrete violation there is the failing input"""
    return any(v["concrete"] for v in ctx.violations)


def replay(ctx, data):
    rp = data["replay"]
    kind = rp.get("kind")
    if kind in ("stream", "blob"):
        b = bytes.fromhex(rp.get("input") or rp.get("before"))
        out, pan = real_rw([b])[0]
        print("input :", b)
        print("real removeWhitespace now:", out, "panic:", pan)
        print("recorded:", bytes.fromhex(rp.get("out") or rp.get("after") or ""))
        try:
            print("tokens before:", L.observe(b)[0])
            print("tokens after :", L.observe(out)[0])
        except L.LexError as e:
            print("lex error:", e)
    elif kind == "alloc":
        rc, out, err = C.sh2([H(), "alloc"], inp=json.dumps([dict(minify=rp["minify"], ops=rp["ops"])]).encode())
        print("implementation now:", out.strip())
        print("recorded:", json.dumps(rp.get("impl")))
    elif kind == "program":
        d = os.path.join(ctx.work, "replay")
        C.write_go_program(d, {"main.go": rp["source"]}, module="verifc16")
        print(C.gopherjs_build(d, out="out.js", minify=False), C.gopherjs_build(d, out="out_m.js", minify=True))
        print("plain   :", json.dumps(run_summary(d, "out.js"))[:2000])
        print("minified:", json.dumps(run_summary(d, "out_m.js"))[:2000])
        print(C.sh(["node", "--check", "out_m.js"], cwd=d))
    else:
        print(json.dumps(data, indent=1))
    return 0


TECHNIQUE = ("Coq proof (induction over the element structure of a blob / over allocation histories) + differential correspondence with the real "
             "removeWhitespace, Decl.minify, newRootCtx, nestedFunctionContext and newVariable, + plain-vs-minified runs of generated programs")
LEVEL_TEXT = ("Machine-checked theorems over executable models: for every blob satisfying the decidable side condition well_lexed, removeWhitespace "
              "does not panic and the token stream (strings included, hints erased) is unchanged; string literals and the hint sequence with the "
              "element each hint precedes are unchanged for every blob; for every allocation history in both modes the names visible in any "
              "context are pairwise distinct and never an ECMAScript reserved word (reserved list regenerated from compiler.go on every run). "
              "The models are tied to the code on every run: byte-for-byte on every Decl blob of generated programs and on synthetic streams, "
              "name-for-name on random histories; well_lexed is checked on every real blob; plain and -m builds are run and compared.")
LEVEL_NOTE = ("Proofs are about hand-written models; the tie to /repo is differential. Tokens are maximal runs under a glue relation that "
              "over-approximates ECMAScript tokens (hand-written table). Behavioural equality of whole programs is checked by running, not proved. "
              "esbuild (prelude) not modelled. No axioms.")
