"""C17 — reproducible builds.  Model: coq/Model/C17_Order.v; theorems: coq/Props/C17.v.

Correspondence / oracles:
 (1) sort sites: random key lists (ties, prefixes, empty, high bytes, > 12 elements) are given to the REAL
     sources.Sources.Sort, sources.SortedSourcesSlice, Sources.UnresolvedImports, dce.Info.addDepName/getDeps (overlay
     harness c17) and to the Coq model; independently the property itself is evaluated: the result must be the
     sorted permutation AND must not change when the same input is presented in another order.
 (2) instance ids: generated multi-package generic programs are type-checked with the real sources.Sources pipeline
     and scanned with the real typeparams.Collector; the real Collector.propagate is called in prescribed orders
     (compared with the model's run_schedule on the scan table tabulated from the real code) and the real
     Collector.Finish is run K times from identical seeds: the id assignment must be the same every time.
 (3) whole builds: sha256 of out.js and out.js.map over fresh compiler processes x files re-created in another order
     x permutations of the file list on the command line x minify x a warm session (`gopherjs install ./cmd/a ./cmd/p`
     against `gopherjs install ./cmd/p`).  A difference is classified: only instance ids / order of instance blocks
     (known defect) or anything else (different signature).  The import order, closure parameter lists and
     `x = [x];` runs printed in out.js are checked to be sorted (importDecls, FuncLit, handleEscapingVars sites).
"""
import json, os, re, shutil, sys
from collections import Counter
import common as C
import c17_gen as G

ID = "C17"
PROPS_FILE = "Props/C17.v"
MODEL_TARGETS = ["Corr/C17_Eval.v"]
ALLOWED_AXIOMS = []
RULE = ("sort sites: key lists of 0..33 byte strings from a pool of file names / import paths (prefixes, empty, 0x00, 0xff, upper/lower, "
        "_test suffixes), with and without ties, each also presented permuted; non-trivial = at least 2 keys. "
        "programs: 1-3 leaf packages with generic funcs/types, 1-4 packages whose generic code instantiates them (0-4 of them "
        "cross-package), a main package of 2-5 files with init functions, closures capturing 2-5 loop variables, anonymous struct/func "
        "types, methods; plus fixed witnesses of the known defects. Each program: K runs of the real Collector.Finish, the real "
        "propagate under 4-8 prescribed orders, and 6 (quick) / 24 (thorough) whole builds grouped by configuration; "
        "distinct by program text.")
TRUSTED = ["models of Sources.Sort / SortedSourcesSlice / importDecls sort / UnresolvedImports / getDeps / InstanceSet / Collector.propagate / "
           "Collector.Finish written by hand (coq/Model/C17_Order.v), tied by this correspondence",
           "Go's sort.Slice / sort.Strings (pdqsort) return a sorted permutation (the model is the insertion sort they use for n <= 12); compared on every case",
           "what scanning one generic instance discovers (go/types + the visitor in collect.go) is tabulated from the real code, not modelled",
           "the translator as a whole is not modelled: `output = f(set of inputs)` is checked by hashing real builds, it is not a theorem",
           "harness/go/repo_overlay/compiler/verifharness/c17 + export_c17_verif.go files (typeparams, dce)"]
ASSUMPTIONS = ["file names inside one Sources, import paths of the session's sources and of a package's imports are pairwise distinct (map keys / file system names); checked on the explored builds",
               "go/types, go/parser and the Go runtime are deterministic apart from map iteration order"]

KNOWN_SIG = "instance-ids-depend-on-map-iteration-in-collector-finish"
WARM_SIG = "warm-session-reuses-archive-compiled-without-later-instances"


PRIVATE = {}     # private copies of the binaries: other checks may rebuild .work/bin/* from a newer /repo while this one runs


def prepare(ctx):
    C.ensure_go_harness("c17")
    C.ensure_gopherjs()
    d = os.path.join(ctx.work, "bin")
    os.makedirs(d, exist_ok=True)
    with C.Lock("gobuild"):
        for name in ("gopherjs", "h_c17"):
            shutil.copy2(os.path.join(C.BIN, name), os.path.join(d, name))
            PRIVATE[name] = os.path.join(d, name)


def binary(name):
    return PRIVATE.get(name) or os.path.join(C.BIN, name)


def call_harness(inp, timeout=900):
    rc, out, err = C.sh2([binary("h_c17")], inp=json.dumps(inp).encode(), timeout=timeout)
    if rc != 0:
        raise C.BuildError("c17 harness failed: " + err[-800:])
    return json.loads(out)


# ---------------------------------------------------------------- Coq term helpers

def cs(b):
    return "[" + ";".join(str(x) for x in b) + "]"


def clist(xs):
    return "[" + ";".join(xs) + "]"


def ckeyed(k, i):
    return "(%s,%d)" % (cs(k), i)


def cbool(b):
    return "true" if b else "false"


def eval_cases(ctx, vcases, tag):
    """evaluate Corr.C17_Eval.mismatches on the cases, sharded; returns list of global indices that mismatch, or raises"""
    shard = 150
    shards = [vcases[i:i + shard] for i in range(0, len(vcases), shard)]

    def run_shard(k):
        p = os.path.join(ctx.work, "cases_%s_%d.v" % (tag, k))
        with open(p, "w") as f:
            f.write("From Coq Require Import List NArith.\nFrom Verif Require Import Model.C17_Order Corr.C17_Eval.\nImport ListNotations.\nLocal Open Scope N_scope.\n")
            f.write("Definition cases : list case := [\n" + ";\n".join(shards[k]) + "].\n")
            f.write("Definition M := Eval vm_compute in mismatches cases.\nPrint M.\n")
        rc, out = C.coq_run(p)
        m = re.search(r"M\s*=\s*(\[[^\]]*\])", out.replace("\n", " "))
        if rc != 0 or not m:
            return k, None, out[-800:]
        return k, [int(x.replace("%N", "")) for x in re.findall(r"\d+(?:%N)?", m.group(1))], ""

    bad = []
    for k, idxs, err in C.parallel_map(run_shard, range(len(shards))):
        if idxs is None and ("[timeout after" in err or "Cannot allocate" in err or "Out of memory" in err):
            ctx.notes.append("skipped a shard of model evaluation (%s, infrastructure): %s" % (tag, err[-120:].replace("\n", " ")))
            continue
        if idxs is None:
            ctx.violation("model-eval-failed", "Coq evaluation of the model failed (%s)" % tag, dict(shard=k, log=err), concrete=False)
            continue
        bad += [k * shard + i for i in idxs]
    return bad


# ---------------------------------------------------------------- (1) sort sites

def spec_unquote(v):
    """strconv.Unquote on the generated domain (no backslashes, valid UTF-8 inside double quotes), else trim the double quotes"""
    if len(v) >= 2 and v[0] == v[-1]:
        mid = v[1:-1]
        if v[0] == 0x60 and b"`" not in mid:
            return mid.replace(b"\r", b"")
        if v[0] == 0x22 and b'"' not in mid and b"\n" not in mid and b"\\" not in mid:
            return mid
    return v.strip(b'"')


def spec_unresolved(skip, files):
    """the documented behaviour, written from the doc comment: set of imports minus skip minus *_test, sorted"""
    seen, out = set(skip), []
    for f in files:
        for v in f:
            p = spec_unquote(v)
            if p not in seen:
                if not p.endswith(b"_test"):
                    out.append(p)
                seen.add(p)
    return sorted(out)


def sort_sites(ctx):
    r = ctx.rng("sorts")
    n = 400 if ctx.quick else 6000
    base = [G.gen_sort_case(r) for _ in range(n)]
    twins = [G.permute_sort_case(r, c) for c in base]
    res = call_harness(dict(sorts=[{k: v for k, v in c.items() if k != "perm"} for c in base + twins], collectors=[]))["sorts"]
    vcases, vinfo = [], []
    dist = Counter()
    for i, c in enumerate(base):
        ra, rb = res[i], res[n + i]
        kind = c["kind"]
        dist[kind] += 1
        rep = dict(kind="sort", case=c, twin=twins[i], impl=ra, impl_twin=rb)
        if ra.get("panic") or rb.get("panic"):
            ctx.violation("sort-site-panicked", "a sort site panicked: %s" % (ra.get("panic") or rb.get("panic")), rep)
            continue
        if kind in ("files", "sources"):
            keys = [bytes.fromhex(k) for k in c["keys"]]
            ties = len(set(keys)) != len(keys)
            dist["ties"] += ties
            dist["over12"] += len(keys) > 12
            ctx.count(["sort", kind, c["keys"]], nontrivial=len(keys) >= 2)
            perm = ra.get("perm") or []
            got = [keys[j] for j in perm]
            want = sorted(keys, reverse=(kind == "files"))
            bad = None
            if sorted(perm) != list(range(len(keys))):
                bad = "result is not a permutation of the input"
            elif got != want:
                bad = "result is not sorted %s by key" % ("descending" if kind == "files" else "ascending")
            else:
                # order independence: the twin presents the same elements in another order
                tperm = twins[i]["perm"]                      # twin position -> base index
                got_twin = [tperm[j] for j in (rb.get("perm") or [])]  # base indices in output order
                if not ties and got_twin != perm:
                    bad = "the same elements in another input order are sorted differently"
                elif ties and [keys[j] for j in got_twin] != got:
                    bad = "the same keys in another input order give another key sequence"
            if bad:
                ctx.violation("sort-%s-%s" % (kind, re.sub(r"[^a-z]+", "-", bad[:36])), "%s (%s)" % (bad, kind), rep)
            exact = (not ties) or len(keys) <= 12
            vcases.append("C%s %s %s %s" % ("Files" if kind == "files" else "Sources", cbool(exact),
                                            clist(ckeyed(k, j) for j, k in enumerate(keys)), clist(ckeyed(keys[j], j) for j in perm)))
            vinfo.append(rep)
        else:
            out_a = [bytes.fromhex(x) for x in (ra.get("out") or [])]
            out_b = [bytes.fromhex(x) for x in (rb.get("out") or [])]
            if kind == "unresolved":
                files = [[bytes.fromhex(v) for v in f] for f in c["files"]]
                skip = [bytes.fromhex(v) for v in c["skip"]]
                want = spec_unresolved(skip, files)
                ctx.count(["sort", kind, c["files"], c["skip"]], nontrivial=sum(len(f) for f in files) >= 2)
                vcases.append("CUnres %s %s %s" % (clist(cs(s) for s in skip), clist(clist(cs(v) for v in f) for f in files), clist(cs(o) for o in out_a)))
            else:
                keys = [bytes.fromhex(k) for k in c["keys"]]
                want = sorted(keys) if kind == "strings" else sorted(set(k for k in keys if k))
                ctx.count(["sort", kind, c["keys"]], nontrivial=len(keys) >= 2)
                vcases.append("C%s %s %s" % ("Strings" if kind == "strings" else "Deps", clist(cs(k) for k in keys), clist(cs(o) for o in out_a)))
            vinfo.append(rep)
            bad = None
            if out_a != want:
                bad = "result is not the sorted set required by the specification"
            elif out_b != out_a:
                bad = "the same input in another order gives another result"
            if bad:
                ctx.violation("sort-%s-%s" % (kind, re.sub(r"[^a-z]+", "-", bad[:36])), "%s (%s)" % (bad, kind), rep)
        if i < 2:
            ctx.sample(dict(kind="sort", case=c, impl=ra))
    for gi in eval_cases(ctx, vcases, "sort"):
        ctx.violation("sort-model-mismatch", "model and real sort site disagree (correspondence C17/sort sites broken)",
                      dict(vinfo[gi], coq_case=vcases[gi][:2000], correspondence="Corr/C17_Eval.mismatches vs harness c17"), concrete=False)
    ctx.cov["sort_site_cases"] = dict(dist)
    ctx.cov["sort_cases_validated_against_model"] = len(vcases)


# ---------------------------------------------------------------- (2) instance ids

def py_run(seeds, scan, calls):
    """reference re-implementation of propagate (only used to CLASSIFY programs as racy, never as a verdict)"""
    m = {p: [list(v), 0] for p, v in seeds.items()}
    for p in calls:
        if p not in m:
            continue
        s = m[p]
        while s[1] < len(s[0]):
            i = s[0][s[1]]
            s[1] += 1
            for q, j in scan.get(i, []):
                t = m.setdefault(q, [[], 0])
                if j not in t[0]:
                    t[0].append(j)
    done = all(s[1] >= len(s[0]) for s in m.values())
    return {p: s[0] for p, s in m.items()}, done


def py_rounds(seeds, scan, order_fn, npk):
    m_calls = []
    for _ in range(64):
        res, done = py_run(seeds, scan, m_calls)
        if done:
            return res
        m_calls += order_fn(sorted(res.keys()))
    return res


def intkeys(d):
    return {int(k): v for k, v in (d or {}).items()}


def collector(ctx, progs):
    """returns list of per-program dict(racy=bool, ok=bool)"""
    r = ctx.rng("collector")
    K = 16 if ctx.quick else 64
    cases = []
    for p in progs:
        pk = G.harness_pkgs(p)
        paths = sorted(x["path"] for x in pk)
        scheds = [paths, paths[::-1]]
        for _ in range(2 if ctx.quick else 6):
            q = list(paths)
            r.shuffle(q)
            scheds.append(q)
        scheds.append([r.choice(paths) for _ in range(3 * len(paths))] + paths)   # repeats, then a full round
        # file order inside the packages is shuffled: Sources.Sort must undo it
        for x in pk:
            r.shuffle(x["files"])
        r.shuffle(pk)
        cases.append(dict(pkgs=pk, runs=K, schedules=scheds))
    chunks = [list(range(i, len(cases), C.NCPU)) for i in range(min(C.NCPU, len(cases)))]
    results = [None] * len(cases)

    def run_chunk(idxs):
        out = call_harness(dict(sorts=[], collectors=[cases[i] for i in idxs]))["collectors"]
        for i, o in zip(idxs, out):
            results[i] = o
    C.parallel_map(run_chunk, chunks)

    info, vcases, vinfo = [], [], []
    stats = Counter()
    for pi, (p, res) in enumerate(zip(progs, results)):
        if res.get("err"):
            ctx.violation("collector-harness-error", "harness could not process a generated program: " + res["err"][:300],
                          dict(kind="program", files=p["files"], error=res["err"]), concrete=False)
            info.append(dict(racy=False, ok=False))
            continue
        paths = res["pkgs"]
        npk = len(paths)
        seeds = intkeys(res["seeds"])
        scan = {int(k): [tuple(x) for x in v] for k, v in res["scan"].items()}
        names = {x["n"]: x["s"] for x in res["insts"]}
        ninst = len(res["insts"])
        fuel = 2 * ninst + 8
        # Sources.Sort inside the real pipeline: files of every package in descending name order
        for k, fo in intkeys(res["file_order"]).items():
            if len(set(fo)) != len(fo):      # hypothesis of C17_sort_canonical_files
                ctx.violation("file-names-not-distinct", "two files of %s have the same name: %r" % (paths[k], fo),
                              dict(kind="program", files=p["files"], file_order=fo), concrete=False)
            if fo != sorted(fo, reverse=True):
                ctx.violation("sources-sort-not-descending", "Sources.Sort left the files of %s as %r" % (paths[k], fo),
                              dict(kind="program", files=p["files"], file_order=fo))
        # classification by the reference implementation: do different call orders give different ids?
        ref = [py_rounds(seeds, scan, lambda ks: ks, npk), py_rounds(seeds, scan, lambda ks: ks[::-1], npk)]
        rr = ctx.rng("racy%d" % pi)
        for _ in range(6):
            ref.append(py_rounds(seeds, scan, lambda ks: rr.sample(ks, len(ks)), npk))
        racy = any(x != ref[0] for x in ref[1:])
        stats["racy_programs" if racy else "calm_programs"] += 1
        stats["instances"] += ninst
        # direct oracle: the real Finish from identical seeds, K times
        runs = [intkeys(x) for x in res["finish_runs"]]
        distinct = []
        for x in runs:
            if x not in distinct:
                distinct.append(x)
        ctx.count(["collector", p["files"]], nontrivial=ninst >= 4)
        deterministic = len(distinct) == 1
        if not deterministic:
            a, b = distinct[0], distinct[1]
            pk = next(k for k in sorted(set(a) | set(b)) if a.get(k) != b.get(k))
            what = ("Collector.Finish run twice on the same seeds numbers the instances of %s differently: %s vs %s (%d distinct numberings in %d runs)"
                    % (paths[pk], [names[n] for n in a.get(pk, [])][:6], [names[n] for n in b.get(pk, [])][:6], len(distinct), len(runs)))
            sig = KNOWN_SIG if racy else "finish-ids-differ-but-model-says-order-independent"
            ctx.violation(sig, what, dict(kind="collector", files=p["files"], package=paths[pk],
                                          ids_run_a={paths[k]: [names[n] for n in v] for k, v in a.items()},
                                          ids_run_b={paths[k]: [names[n] for n in v] for k, v in b.items()}))
            stats["programs_with_varying_finish"] += 1
        for x in runs:      # the SET of instances never depends on the order
            if {k: sorted(v) for k, v in x.items() if v} != {k: sorted(v) for k, v in runs[0].items() if v}:
                ctx.violation("finish-instance-sets-differ", "Collector.Finish collected different SETS of instances in two runs",
                              dict(kind="collector", files=p["files"]))
                break
        # model cases
        flat_seeds = clist("(%d,%d)" % (k, n) for k in sorted(seeds) for n in seeds[k])
        ctable = clist("(%d,%s)" % (i, clist("(%d,%d)" % x for x in scan[i])) for i in sorted(scan) if scan[i])
        allp = clist(str(k) for k in range(npk))

        def cobs(o):
            return clist("(%d,%s)" % (k, clist(str(n) for n in o.get(k, []))) for k in range(npk))
        for sr in res["sched_runs"]:
            vcases.append("CSched %d%%nat %s %s %s %s %s" % (fuel, flat_seeds, ctable, clist(str(x) for x in sr["calls"]), allp, cobs(intkeys(sr["result"]))))
            vinfo.append(dict(kind="collector-schedule", files=p["files"], calls=[paths[x] for x in sr["calls"]], impl=sr["result"]))
            stats["schedules"] += 1
            stats["schedules_complete"] += bool(sr["complete"])
        vcases.append("CFinish %s %d%%nat %s %s %s %s %s" % (cbool(True), fuel, clist(cs(x.encode()) for x in paths), flat_seeds, ctable, allp, cobs(runs[0])))
        vinfo.append(dict(kind="collector-finish", files=p["files"], exact=True, impl=res["finish_runs"][0]))
        stats["finish_compared_exactly"] += 1
        # the real propagate in ascending vs descending package order: shows the dependence deterministically
        sr = res["sched_runs"]
        if intkeys(sr[0]["result"]) != intkeys(sr[1]["result"]):
            stats["programs_where_real_propagate_order_changes_ids"] += 1
        info.append(dict(racy=racy, ok=True, deterministic=deterministic))
        if pi < 1:
            ctx.sample(dict(kind="collector", packages=paths, instances=ninst, racy=racy, finish_numberings=len(distinct)))
    for gi in eval_cases(ctx, vcases, "coll"):
        ctx.violation("collector-model-mismatch", "model and real Collector.propagate/Finish disagree (correspondence C17/instance ids broken)",
                      dict(vinfo[gi], coq_case=vcases[gi][:3000], correspondence="Corr/C17_Eval.mismatches vs typeparams.Collector"), concrete=False)
    ctx.cov["collector"] = dict(stats)
    ctx.cov["collector_cases_validated_against_model"] = len(vcases)
    return info


# ---------------------------------------------------------------- (3) whole builds

INST_KEY = re.compile(r"\[\d+( /\*.*?\*/)?\]")
DEF_RE = re.compile(r"^\s*([\w$.]+)\[(\d+) /\* (.*?) \*/\] = ")
USE_RE = re.compile(r"([\w$]+)\[(\d+) /\* (.*?) \*/\](?! = )")


def assignment(js):
    """the numbering of generic instances visible in a non-minified out.js: sorted (package, object, id, type arguments)"""
    out, pkg = [], None
    for line in js.split("\n"):
        if line.startswith("$packages["):
            m = re.match(r'^\$packages\["([^"]+)"\] = ', line)
            if m:
                pkg = m.group(1)
            continue
        m = DEF_RE.match(line)
        if m:
            out.append((pkg, m.group(1), int(m.group(2)), m.group(3)))
    return sorted(out)


def dangling_uses(js):
    """instance keys that are used but never defined with the same id and type arguments"""
    defs = set((o.split(".")[-1], n, t) for _, o, n, t in assignment(js))
    bad = []
    for m in USE_RE.finditer(js):
        k = (m.group(1), int(m.group(2)), m.group(3))
        if k not in defs and k not in bad:
            bad.append(k)
    return bad


def first_diff(a, b):
    """line number and the text around the first differing character"""
    n = min(len(a), len(b))
    i = next((k for k in range(n) if a[k] != b[k]), n)
    line = a.count("\n", 0, i) + 1
    lo = max(i - 100, a.rfind("\n", 0, i) + 1)
    return dict(line=line, offset=i, a=a[lo:i + 200].split("\n")[0], b=b[lo:i + 200].split("\n")[0])


def write_tree(d, files, order):
    for rel in order:
        p = os.path.join(d, rel)
        os.makedirs(os.path.dirname(p), exist_ok=True)
        with open(p, "w") as f:
            f.write(files[rel])


def clear_tree(d):
    for e in os.listdir(d):
        if e in ("go.mod",) or e.startswith("keep_"):
            continue
        p = os.path.join(d, e)
        shutil.rmtree(p) if os.path.isdir(p) else os.remove(p)


def gopherjs(args, cwd, env=None, timeout=1500):
    e = C.goenv()
    e.setdefault("GOMAXPROCS", "4")     # many compiler processes run side by side; 16 threads each only adds contention
    if env:
        e.update(env)
    return C.sh([binary("gopherjs")] + args, cwd=cwd, env=e, timeout=timeout)


def check_output_sort_sites(ctx, prog, js, icases, iinfo, stats):
    """import order (importDecls), closure parameter lists (FuncLit) and `x = [x];` runs (handleEscapingVars) in out.js"""
    for m in re.finditer(r'^\$packages\["([^"]+)"\] = \(function\(\) \{\n(.*?)^\}\)\(\);$', js, re.S | re.M):
        pkg, body = m.group(1), m.group(2)
        imps = re.findall(r'^\t[\w$]+ = \$packages\["([^"]+)"\];$', body, re.M)
        if len(imps) >= 1:
            stats["import_lists"] += 1
            b = [x.encode() for x in imps]
            if b != sorted(b) or len(set(b)) != len(b):
                ctx.violation("imports-not-sorted-in-output", "package %s imports %r: not strictly ascending by path" % (pkg, imps),
                              dict(kind="program", files=prog["files"], package=pkg, imports=imps))
            if pkg.startswith("w/") or len(icases) < 40:
                icases.append("CImports %s" % clist(ckeyed(x, j) for j, x in enumerate(b)))
                iinfo.append(dict(kind="imports", package=pkg, imports=imps, files=prog["files"]))
    for m in re.finditer(r"\(function\(([\w$, ]+)\) \{ return ", js):
        names = m.group(1).split(", ")
        stats["closure_param_lists"] += 1
        stats["closure_param_lists_ge2"] += len(names) >= 2
        b = [x.encode() for x in names]
        if b != sorted(b):
            ctx.violation("escaping-names-not-sorted-in-closure", "closure wrapper parameters %r are not sorted" % names,
                          dict(kind="program", files=prog["files"], names=names))
    run = []
    for line in js.split("\n") + [""]:
        m = re.match(r"^\s*([\w$]+) = \[\1\];$", line)
        if m:
            run.append(m.group(1).encode())
            continue
        if len(run) >= 1:
            stats["escaping_var_runs"] += 1
            stats["escaping_var_runs_ge2"] += len(run) >= 2
            if run != sorted(run):
                ctx.violation("escaping-vars-not-sorted", "`x = [x];` statements %r are not sorted" % run,
                              dict(kind="program", files=prog["files"], names=[x.decode() for x in run]))
        run = []


def build_program(ctx, pi, prog, info, plan):
    """plan: dict(plain=n, files=n, min=n, filesmin=n, warm=bool). Returns dict with groups of outputs."""
    d = os.path.join(ctx.work, "b%d" % pi)
    rr = ctx.rng("build%d" % pi)
    C.write_go_program(d, {}, module="w")
    rels = sorted(prog["files"])
    write_tree(d, prog["files"], rels)
    groups = {}        # group -> list of (label, js bytes, map bytes)
    errors = []

    def grab(group, label, jspath):
        try:
            js = open(jspath, "rb").read()
            mp = open(jspath + ".map", "rb").read()
        except OSError as e:
            errors.append("%s/%s: %s" % (group, label, e))
            return
        groups.setdefault(group, []).append((label, js, mp))

    def dir_build(group, label, minify):
        out = os.path.join(d, "keep_out_m.js" if minify else "keep_out.js")
        rc, log = gopherjs(["build", "-o", out] + (["-m"] if minify else []) + ["./cmd/p"], cwd=d)
        if rc != 0:
            errors.append("%s/%s: build failed: %s" % (group, label, log[-400:]))
            return
        grab(group, label, out)

    def recreate():
        clear_tree(d)
        order = list(rels)
        rr.shuffle(order)
        write_tree(d, prog["files"], order)

    for k in range(plan["plain"]):
        if k % 2 == 1:
            recreate()
        dir_build("dir", "fresh process %d%s" % (k, ", files re-created in another order" if k % 2 == 1 else ""), False)
    for k in range(plan["min"]):
        if k % 2 == 1:
            recreate()
        dir_build("dir-min", "fresh process %d%s" % (k, ", files re-created in another order" if k % 2 == 1 else ""), True)
    mf = list(prog["main_files"])
    for minify, group, n in ((False, "files", plan["files"]), (True, "files-min", plan["filesmin"])):
        for k in range(n):
            order = list(mf) if k == 0 else (list(reversed(mf)) if k == 1 else rr.sample(mf, len(mf)))
            out = os.path.join(d, "keep_outf_m.js" if minify else "keep_outf.js")
            rc, log = gopherjs(["build", "-o", out] + (["-m"] if minify else []) + order, cwd=os.path.join(d, "cmd", "p"))
            if rc != 0:
                errors.append("%s: build of %r failed: %s" % (group, order, log[-400:]))
                continue
            grab(group, "gopherjs build " + " ".join(order), out)
    warm = None
    if plan["warm"]:
        ba, bb = os.path.join(d, "keep_binA"), os.path.join(d, "keep_binB")
        rc1, log1 = gopherjs(["install", "./cmd/a", "./cmd/p"], cwd=d, env=dict(GOBIN=ba))
        rc2, log2 = gopherjs(["install", "./cmd/p"], cwd=d, env=dict(GOBIN=bb))
        if rc1 != 0 or rc2 != 0:
            errors.append("warm: install failed: %s %s" % (log1[-300:], log2[-300:]))
        else:
            grab("warm", "gopherjs install ./cmd/a ./cmd/p (p compiled second in the session)", os.path.join(ba, "p.js"))
            grab("warm", "gopherjs install ./cmd/p", os.path.join(bb, "p.js"))
            ra = C.run_node(os.path.join(ba, "p.js"), timeout=60)
            rb = C.run_node(os.path.join(bb, "p.js"), timeout=60)
            warm = dict(warm=dict(rc=ra[0], out=(ra[1] + ra[2])[-1500:]), cold=dict(rc=rb[0], out=(rb[1] + rb[2])[-1500:]))
    run0 = None
    if "dir" in groups:
        rc, o, e = C.run_node(os.path.join(d, "keep_out.js"), timeout=60)
        run0 = dict(rc=rc, out=(o + e)[-600:])
    shutil.rmtree(d, ignore_errors=True)
    return dict(groups=groups, errors=errors, warm=warm, run0=run0)


GROUP_SIG = {"dir": "output-differs-between-identical-directory-builds", "dir-min": "minified-output-differs-between-identical-directory-builds",
             "files": "output-depends-on-command-line-file-order", "files-min": "minified-output-depends-on-command-line-file-order"}


def builds(ctx, progs, info, plans):
    stats = Counter()
    icases, iinfo = [], []
    results = C.parallel_map(lambda i: build_program(ctx, i, progs[i], info[i], plans[i]), range(len(progs)))
    for pi, (prog, res) in enumerate(zip(progs, results)):
        racy = info[pi].get("racy", False)
        for e in res["errors"]:
            if "[timeout after" in e or "No such file" in e or "Errno" in e:
                # infrastructure (machine under load): never a verdict — skip the build and say so
                stats["builds_skipped_infrastructure"] += 1
                ctx.notes.append("skipped a build of program %d (infrastructure): %s" % (pi, e[:160].replace("\n", " ")))
                continue
            ctx.violation("program-build-failed", "gopherjs failed on a generated program: " + e[:300], dict(kind="program", files=prog["files"], error=e), concrete=False)
        if res["run0"] is not None:
            stats["programs_run_ok" if res["run0"]["rc"] == 0 else "programs_run_failed"] += 1
        for group, outs in res["groups"].items():
            stats["builds"] += len(outs)
            stats["builds_" + group] += len(outs)
            ctx.count(["build", group, prog["files"]], nontrivial=len(outs) >= 2)
            minified = group.endswith("min")
            base = outs[0]
            if group == "dir":
                check_output_sort_sites(ctx, prog, base[1].decode("utf-8", "replace"), icases, iinfo, stats)
            if group == "warm":
                continue
            texts = [js.decode("utf-8", "replace") for _, js, _ in outs]
            if not minified:
                dang = dangling_uses(texts[0])
                if dang:
                    ctx.violation("instance-used-but-not-defined", "out.js uses generic instances that are never defined: %r" % (dang[:4],),
                                  dict(kind="build", files=prog["files"], group=group, dangling=dang[:20]))
            assigns = [None if minified else assignment(t) for t in texts]
            reported = set()
            for k in range(1, len(outs)):
                label, js, mp = outs[k]
                if js == base[1] and mp == base[2]:
                    continue
                rep = dict(kind="build", files=prog["files"], main_files=prog["main_files"], group=group, build_a=base[0], build_b=label,
                           sha_js=[C.sha(base[1]), C.sha(js)], sha_map=[C.sha(base[2]), C.sha(mp)], racy_per_model=racy)
                if js == base[1]:
                    cls, sig = "map-only", "source-map-differs-while-js-is-identical"
                    what = "out.js.map differs between two builds with identical out.js (%s)" % group
                else:
                    rep["first_difference"] = fd = first_diff(texts[0], texts[k])
                    where = "(%s: %s | %s); line %d: %s <> %s" % (group, base[0], label, fd["line"], fd["a"][:80], fd["b"][:80])
                    if not minified and assigns[k] != assigns[0]:
                        da = [x for x in assigns[0] if x not in assigns[k]][:3]
                        db = [x for x in assigns[k] if x not in assigns[0]][:3]
                        rep["ids_a"], rep["ids_b"] = da, db
                        cls = "instance-ids"
                        sig = KNOWN_SIG if racy else "instance-ids-differ-in-output-but-model-says-order-independent"
                        what = "two builds of the same sources number the generic instances differently: %r vs %r %s" % (da[:2], db[:2], where)
                    elif minified and racy and not info[pi].get("deterministic", True):
                        cls, sig = "instance-ids", KNOWN_SIG
                        what = ("two minified builds of the same sources differ; the program's instance numbering depends on the order of propagate "
                                "calls and the real Collector.Finish was seen to vary on it " + where)
                    else:
                        cls, sig = "other", GROUP_SIG[group]
                        what = "two builds of the same sources with the SAME instance numbering differ " + where
                rep["classification"] = cls
                stats["builds_differing_" + cls] += 1
                if (sig, group) in reported:
                    continue
                reported.add((sig, group))
                ctx.violation(sig, what, rep)
        w = res["groups"].get("warm")
        if w and len(w) == 2:
            stats["warm_pairs"] += 1
            (la, ja, ma), (lb, jb, mb) = w
            ta, tb = ja.decode("utf-8", "replace"), jb.decode("utf-8", "replace")
            rn = res["warm"]
            dang = dangling_uses(ta)
            if rn and 124 in (rn["warm"]["rc"], rn["cold"]["rc"]):
                ctx.notes.append("skipped the run-time comparison of a warm pair (node timed out)")
                rn = None
            broken = bool(rn) and (rn["warm"]["rc"] != rn["cold"]["rc"] or rn["warm"]["out"] != rn["cold"]["out"])
            if ja != jb or ma != mb:
                fd = first_diff(ta, tb)
                rep = dict(kind="warm", files=prog["files"], build_warm=la, build_cold=lb, run=rn, first_difference=fd, dangling_in_warm=dang[:10])
                where = "; line %d: %s <> %s" % (fd["line"], fd["a"][:80], fd["b"][:80])
                if dang or broken:
                    ctx.violation(WARM_SIG, "cmd/p compiled after cmd/a in one session uses instances %r that the reused archive does not define%s%s"
                                  % (dang[:3], " and FAILS at run time (%s)" % rn["warm"]["out"].strip().split("\n")[-1][:120] if broken else "", where), rep)
                elif racy and assignment(ta) != assignment(tb) and not info[pi].get("deterministic", True):
                    stats["warm_pairs_differing_in_instance_ids"] += 1
                    ctx.violation(KNOWN_SIG, "two installs of cmd/p number the generic instances differently (two processes; not attributable to the warm session)" + where, rep)
                else:
                    ctx.violation("output-depends-on-packages-compiled-earlier-in-the-session",
                                  "cmd/p compiled after cmd/a in one session differs from cmd/p compiled alone" + where, rep)
            else:
                stats["warm_pairs_identical"] += 1
        if pi == 0:
            ctx.sample(dict(kind="build", shape=prog["shape"], groups={g: [C.sha(x[1])[:12] for x in o] for g, o in res["groups"].items()}))
    for gi in eval_cases(ctx, icases, "imp"):
        ctx.violation("imports-model-mismatch", "import order printed in out.js is not what the model's sort_imports gives",
                      dict(iinfo[gi], coq_case=icases[gi][:1500]), concrete=False)
    ctx.cov["builds"] = dict(stats)
    ctx.cov["import_lists_validated_against_model"] = len(icases)


def preludes(ctx):
    """the five prelude files through the real sourcemapx.Filter.WriteJS (esbuild), plain and minified, n times each"""
    n = 20 if ctx.quick else 300
    res = call_harness(dict(sorts=[], collectors=[], preludes=n)).get("preludes") or []
    for r in res:
        ctx.count(["prelude", r["name"], r["minify"]], nontrivial=True)
        if len(r["hashes"]) != 1:
            ctx.violation("prelude-transform-differs-between-identical-runs",
                          "%s (%s) came out of Filter.WriteJS in %d different forms in %d runs; at byte %d: %r <> %r"
                          % (r["name"], "minified" if r["minify"] else "plain", len(r["hashes"]), r["runs"], r.get("diff_at", -1),
                             (r.get("diff_a") or "")[60:120], (r.get("diff_b") or "")[60:120]),
                          dict(kind="prelude", result=r))
    ctx.cov["prelude_transforms"] = sum(r["runs"] for r in res)


def correspond(ctx):
    sort_sites(ctx)
    preludes(ctx)
    ctx.log("sort sites and preludes done")
    r = ctx.rng("programs")
    nprog = int(os.environ.get("VERIF_C17_PROGS", "0")) or (24 if ctx.quick else 100)   # override only for debugging the check
    progs = [G.witness_program(6), G.minimal_witness(), G.warm_witness()] + [G.gen_program(r, i) for i in range(nprog)]
    info = collector(ctx, progs)
    ctx.log("collector done")
    if ctx.quick:
        plans = [dict(plain=2, files=2, min=2, filesmin=0, warm=(i % 3 == 0)) for i in range(len(progs))]
        plans[0] = dict(plain=8, files=0, min=2, filesmin=0, warm=False)
        plans[1] = dict(plain=4, files=0, min=0, filesmin=0, warm=False)
    else:
        plans = [dict(plain=6, files=4, min=4, filesmin=2, warm=(i % 2 == 0)) for i in range(len(progs))]
        plans[0] = dict(plain=16, files=0, min=4, filesmin=0, warm=False)
        plans[1] = dict(plain=16, files=0, min=0, filesmin=0, warm=False)
    plans[2] = dict(plain=2, files=0, min=0, filesmin=0, warm=True)
    builds(ctx, progs, info, plans)
    ctx.log("builds done")


def replay(ctx, data):
    rp = data["replay"]
    kind = rp.get("kind")
    if kind == "sort":
        out = call_harness(dict(sorts=[{k: v for k, v in rp["case"].items() if k != "perm"}, {k: v for k, v in rp["twin"].items() if k != "perm"}], collectors=[]))
        print("implementation now:", json.dumps(out["sorts"]))
        print("recorded:", json.dumps([rp.get("impl"), rp.get("impl_twin")]))
    elif kind in ("collector", "collector-schedule", "collector-finish", "program", "imports"):
        prog = dict(files=rp["files"])
        pk = G.harness_pkgs(prog)
        paths = sorted(x["path"] for x in pk)
        out = call_harness(dict(sorts=[], collectors=[dict(pkgs=pk, runs=32, schedules=[paths, paths[::-1]])]))["collectors"][0]
        names = {x["n"]: x["s"] for x in out.get("insts", [])}
        seen = []
        for x in out.get("finish_runs", []):
            y = {out["pkgs"][int(k)]: [names[n] for n in v] for k, v in x.items()}
            if y not in seen:
                seen.append(y)
        print("distinct id assignments by the real Collector.Finish in 32 runs: %d" % len(seen))
        for y in seen[:4]:
            print(json.dumps(y, sort_keys=True))
        print("recorded:", json.dumps({k: v for k, v in rp.items() if k != "files"}, sort_keys=True)[:3000])
    elif kind in ("build", "warm"):
        d = os.path.join(ctx.work, "replay")
        C.write_go_program(d, rp["files"], module="w")
        if kind == "warm":
            gopherjs(["install", "./cmd/a", "./cmd/p"], cwd=d, env=dict(GOBIN=os.path.join(d, "binA")))
            gopherjs(["install", "./cmd/p"], cwd=d, env=dict(GOBIN=os.path.join(d, "binB")))
            for b in ("binA", "binB"):
                rc, o, e = C.run_node(os.path.join(d, b, "p.js"))
                print(b, C.sha(open(os.path.join(d, b, "p.js"), "rb").read())[:16], "node rc", rc, (o + e).strip()[-300:])
        else:
            hs = Counter()
            for k in range(16):
                rc, log = gopherjs(["build", "-o", "out.js"] + (["-m"] if rp.get("group", "").endswith("min") else []) + ["./cmd/p"], cwd=d)
                hs[C.sha(open(os.path.join(d, "out.js"), "rb").read())[:16] if rc == 0 else "build failed"] += 1
            print("16 builds now:", dict(hs))
        print("recorded:", json.dumps({k: v for k, v in rp.items() if k != "files"}, sort_keys=True)[:3000])
    else:
        print(json.dumps(data, indent=1)[:6000])
    return 0


TECHNIQUE = ("Coq proofs about an executable model of every sort site and of InstanceSet/Collector.propagate/Finish + differential "
             "correspondence with the real code (overlay harness) + sha256 of real builds over processes, file orders, minify and warm sessions")
LEVEL_TEXT = ("Machine-checked: each sort site returns THE canonical sorted permutation, independent of the order of its input, when the sort keys "
              "are pairwise distinct (file names, import paths) and unconditionally where whole strings are sorted (escaping-variable names, "
              "dependency names, unresolved imports); instance ids are the first-insertion positions; with package keys visited in sorted order "
              "the numbering does not depend on how the map is laid out (Collector.Finish as repaired). The real Finish is compared exactly with "
              "that model on every generated program.")
LEVEL_NOTE = ("Partial by nature: the compiler as a whole is not modelled, so `byte-identical output` is established only by hashing real builds of "
              "generated programs (~27 programs x 6-8 builds quick, ~100 x 16-18 thorough). Proofs are about the hand-written model, tied to /repo "
              "differentially on every run. No axioms.")
