"""C20 — build cache.  Model: coq/Model/C20_Cache.v; theorems: coq/Props/C20.v.

All real-code runs go through the overlay harness c20, which drives the REAL build/cache.BuildCache
(Store/Load/packageKey/cachedPath), the REAL sources.Sources serializer and the REAL compiler, with
the cache directory inside ctx.work (the process is started with XDG_CACHE_HOME pointing there; the
harness refuses to run when the package's own start-up code computed any other directory).

Streams (each: direct property oracle first, model comparison second):
 A histories   store / failing store / load / truncate / Store killed at a byte offset (RLIMIT_FSIZE ->
               SIGXFSZ), write error at a byte offset, os.Exit inside Cacheable.Write, nil cache, package
               under test — over a pool of configurations that differ from a base in exactly one field,
               timestamps around equality.  Oracle: a hit must be the last completed store for the same
               (configuration, import path), not older than the sources, never for the tested package.
               Model: Corr/C20_Eval.mismatches on the same operations (toy codec, real file names).
 B keys        adversarial configuration strings / import paths: real packageKey vs the model's key;
               oracle: configurations differing in exactly one key field get different keys and files.
 C damage      truncation at many/every offset and byte flips of stored files (toy payloads small,
               medium, large, and real Sources): Load must miss or return exactly the stored entry.
               Also validates the Section hypotheses of the theorems on the real codec
               (dec(enc)=Some, every proper prefix -> miss, one flipped byte -> miss or the unchanged entry).
 D sigkill     a child process storing in a loop is killed at random instants; then Load.
 E transparency generated import-free packages with every registered AST node kind: JavaScript and source
               map compiled from fresh Sources vs from Sources restored through the real cache.
"""
import json, os, re, sys
import common as C
import c20_gen as G

ID = "C20"
PROPS_FILE = "Props/C20.v"
MODEL_TARGETS = ["Corr/C20_Eval.v"]
ALLOWED_AXIOMS = []
RULE = ("histories: 8-16 operations over 3-6 configurations (base + one-field variants incl. TestedPackage, nil cache) x 2-3 import "
        "paths, payloads of 0-3 chunks, source times at build time -1ns/0/+1ns; crash offsets 0,1,mid,n-1,n,n+3 of the real file "
        "size; non-trivial = at least one completed store and one load; distinct by operation list. keys: configuration strings "
        "built from quotes/backslashes/%#v separators/path elements/control characters. damage: 64 offsets incl. first/last 16 "
        "(thorough: every offset) and random (position, xor-mask) flips per stored file. packages: random subsets of 10 code "
        "templates covering all registered AST node kinds except Bad*, 1-3 files, optional .inc.js")
TRUSTED = ["model of cache.go written by hand (coq/Model/C20_Cache.v), tied by this correspondence on every run",
           "Section hypotheses of the theorems (not axioms): H = SHA-256->file name has a fixed length and is injective on the keys "
           "that occur; enc/unzip/dec = gzip(gob) read with io.ReadAll: dec(enc t e) = Some(t,e), every proper prefix decodes to None, "
           "crc32_detects_single_byte_damage (one changed byte decodes to None or to the unchanged entry) — validated on every "
           "stored file of stream C, instantiated by the toy codec in Coq",
           "path.Join/path.Clean and strconv.Quote are modelled for ASCII strings and compared with the real packageKey (stream B)",
           "file system: flat name->bytes map; rename and byte-append are atomic steps; directories (MkdirAll) not modelled; "
           "os.CreateTemp's O_EXCL freshness not modelled (concurrent stores only through stream D)",
           "harness/go/repo_overlay/compiler/verifharness/c20 + build/cache/export_c20_verif.go",
           "build.go call sites (Session.LoadPackages): computation of SrcModTime (max over executable, imports, files), buildTime = "
           "time.Now(), and the discarding of the partially filled Sources of a failed Load — read, not modelled",
           "gzip, gob, SHA-256, go/parser, go/printer"]
ASSUMPTIONS = ["key_injective needs configuration strings and import paths that path.Clean leaves alone (no empty, '.' or '..' "
               "element): GOROOT=/a//b and /a/b share a key (C20_key_collision_unclean_example); real GOROOT/GOPATH values are clean",
               "the build cache is currently disabled by default in build.go (const disableDefaultCache = true): the property is about "
               "BuildCache as it would be used by Session.LoadPackages once re-enabled",
               "byte flips: C20_flipped_is_miss_or_same covers ONE changed byte under the named CRC-32 hypothesis; multi-byte damage is "
               "only explored (CRC-32 cannot exclude collisions)"]

HEX64 = re.compile(r"^[0-9a-f]{2}/[0-9a-f]{64}$")
NSHARD = 16


# ---------------------------------------------------------------- harness driver

def prepare(ctx):
    C.ensure_go_harness("c20")


_shard_counter = [0]


def run_h(ctx, histories, tag, timeout=1800):
    """run histories (lists of ops) through the harness, sharded over processes; results in order"""
    if not histories:
        return []
    h = os.path.join(C.BIN, "h_c20")
    n = min(NSHARD, len(histories))
    shards = [histories[i::n] for i in range(n)]

    def one(k):
        _shard_counter[0] += 1
        xdg = os.path.join(ctx.work, "c20scratch", "%s_%d" % (tag, k))
        os.makedirs(xdg, exist_ok=True)
        env = dict(C.goenv(), XDG_CACHE_HOME=xdg)
        env["HOME"] = os.path.join(ctx.work, "c20scratch", "home")
        rc, out, err = C.sh2([h], inp=json.dumps(dict(base="h", histories=[dict(ops=x) for x in shards[k]])).encode(), env=env, timeout=timeout)
        if rc in (6, 7):
            raise C.BuildError("c20 harness refuses to run (cache root outside the scratch directory): %s" % err[-300:])
        if rc != 0:
            # timeout, out of memory, killed ...: infrastructure, never a violation
            ctx.notes.append("c20 harness shard %s/%d skipped (rc %d): %s" % (tag, k, rc, err[-200:].replace("\n", " ")))
            return None
        try:
            return json.loads(out)
        except ValueError:
            ctx.notes.append("c20 harness shard %s/%d skipped (unreadable output)" % (tag, k))
            return None

    outs = C.parallel_map(one, range(n))
    res = [None] * len(histories)
    for k in range(n):
        if outs[k] is None:
            continue
        for j, r in enumerate(outs[k]):
            res[k + j * n] = r
    return res


# ---------------------------------------------------------------- Coq printing

def cq_bytes(s):
    if isinstance(s, str):
        s = s.encode("latin-1")
    if all(32 <= b <= 126 for b in s):
        return 's2b "%s"' % s.decode("latin-1").replace('"', '""')
    return "[" + ";".join(str(b) for b in s) + "]"


def cq_blist(xs):
    return "[" + "; ".join(cq_bytes(x) for x in xs) + "]"


def cq_cfg(c):
    if c.get("nil"):
        return "None"
    return "Some " + cq_cfg_rec(c)


def cq_cfg_rec(c):
    tags = "None" if c["tags"] is None else "Some " + cq_blist(c["tags"])
    return "{| goos := %s; goarch := %s; goroot := %s; gopath := %s; tags := %s; version := %s; tested := %s |}" % (
        cq_bytes(c["goos"]), cq_bytes(c["goarch"]), cq_bytes(c["goroot"]), cq_bytes(c["gopath"]), tags, cq_bytes(c["version"]), cq_bytes(c["tested"]))


def cq_chunks(hexes):
    return "[" + "; ".join("[" + ";".join(str(b) for b in bytes.fromhex(h)) + "]" for h in hexes) + "]"


def cq_time(t):
    return "(%d)%%Z" % (t[0] * 10 ** 9 + t[1])


PRELUDE = ("From Coq Require Import String Ascii.\nFrom Coq Require Import List NArith ZArith Bool.\n"
           "From Verif Require Import Model.C20_Cache Corr.C20_Eval.\nImport ListNotations.\nLocal Open Scope N_scope.\nLocal Open Scope string_scope.\n")


def coq_eval(ctx, name, body, what):
    """body defines M; returns the printed value text or None"""
    p = os.path.join(ctx.work, name + ".v")
    with open(p, "w") as f:
        f.write(PRELUDE + body + "\nPrint M.\n")
    rc, out = C.coq_run(p, timeout=3000)
    m = re.search(r"M\s*=\s*(.*?)\s*:\s*list", out.replace("\n", " "))
    if rc == 124 or "[timeout" in out or "Out of memory" in out or "Cannot allocate" in out:
        ctx.notes.append("Coq evaluation skipped (%s): timeout / resources" % what)
        return None
    if rc != 0 or not m:
        ctx.violation("model-eval-failed", "Coq evaluation of the model failed (%s)" % what, dict(file=name, log=out[-1500:]), concrete=False)
        return None
    return m.group(1)


# ---------------------------------------------------------------- stream A: histories

def toy_len(chunks):
    return 3 + (2 + 1 + sum(1 + len(c) // 2 for c in chunks)) + 8


def common_of(c):
    return (c["goos"], c["goarch"], c["goroot"], c["gopath"], None if c["tags"] is None else tuple(c["tags"]), c["version"])


def is_test(c, ip):
    return len(ip) > 0 and (ip == c["tested"] or ip == c["tested"] + "_test")


def gen_chunks(r):
    n = r.choice([0, 1, 1, 2, 2, 3])
    return [bytes(r.randrange(256) for _ in range(r.choice([0, 1, 2, 5, 12]))).hex() for _ in range(n)]


def gen_history(r, idx):
    base = G.base_cfg(r)
    ips = r.sample(G.IPS, r.choice([2, 3]))
    if r.random() < 0.5:
        a = r.choice(["a/b", "p", "github.com/x/y"])
        ips = [a, a + "_test"] + ips[:1]
    cfgs = [base]
    for f in r.sample(G.FIELDS, r.randint(1, 3)):
        cfgs.append(G.vary(r, base, f))
    if r.random() < 0.6:
        t = dict(base); t["tested"] = r.choice(ips + [x for x in ips if x.endswith("_test")] + [ips[0][:-5] if ips[0].endswith("_test") else ips[0]]); cfgs.append(t)
    if r.random() < 0.2:
        cfgs.append(dict(base, nil=True))
    T0 = [r.choice([0, 1, 1700000000, 1700000000, 2 ** 31, -5]), r.choice([0, 0, 1, 999999999, 500])]
    ops = []
    stored = []        # (ci, ii, t) of earlier stores, to aim loads at
    for _ in range(r.randint(8, 16)):
        k = r.random()
        ci, ii = r.randrange(len(cfgs)), r.randrange(len(ips))
        if stored and r.random() < 0.75:
            pci, pii, pt = r.choice(stored)
            ii = pii
            if r.random() < 0.6:
                ci = pci
        else:
            pt = T0
        t = list(r.choice([T0, pt, [T0[0] + r.randint(-2, 2), T0[1]]]))
        if k < 0.30:
            ops.append(dict(op="store", ci=ci, ii=ii, t=t, chunks=gen_chunks(r), fail_after=-1))
            stored.append((ci, ii, t))
        elif k < 0.36:
            ch = gen_chunks(r)
            ops.append(dict(op="store", ci=ci, ii=ii, t=t, chunks=ch, fail_after=r.randint(0, len(ch) + 1)))
        elif k < 0.66:
            dt = r.choice([0, 0, 1, -1, 1, -1, 10 ** 9, -10 ** 9, 2])
            ns = pt[0] * 10 ** 9 + pt[1] + dt
            ops.append(dict(op="load", ci=ci, ii=ii, t=[ns // 10 ** 9, ns % 10 ** 9]))
        elif k < 0.76:
            ops.append(dict(op="trunc", ci=ci, ii=ii, drop=r.choice([0, 1, 4, 7, 8, 9, 10, 20, 1000])))
        elif k < 0.92:
            ops.append(dict(op="crash", ci=ci, ii=ii, t=t, chunks=gen_chunks(r), mode=r.choice(["kill", "kill", "eio", "exit"]), sel=r.random(), after=r.randint(0, 5)))
            stored.append((ci, ii, t))
        elif k < 0.96:
            ops.append(dict(op="key", ci=ci, ii=ii))
        else:
            ops.append(dict(op="ls"))
    ops.append(dict(op="ls"))
    # make sure something interesting happens
    if not any(o["op"] == "load" for o in ops):
        ops.insert(-1, dict(op="load", ci=0, ii=0, t=T0))
    return dict(cfgs=cfgs, ips=ips, ops=ops)


def wire(h, o):
    """model-level op -> harness op"""
    d = dict(o)
    if "ci" in d:
        d["cfg"] = h["cfgs"][d.pop("ci")]
        d["ip"] = h["ips"][d.pop("ii")]
    d.pop("sel", None)
    return d


def histories(ctx):
    r = ctx.rng("histories")
    n = 160 if ctx.quick else 6000
    hs = [gen_history(r, i) for i in range(n)]
    # pass 1: real file size of every entry that a crash op is going to write
    probes, where = [], []
    for hi, h in enumerate(hs):
        for oi, o in enumerate(h["ops"]):
            if o["op"] == "crash":
                c = dict(h["cfgs"][o["ci"]], nil=False, tested="")
                probes.append([dict(op="store", cfg=c, ip="probe/p", t=o["t"], chunks=o["chunks"], fail_after=-1), dict(op="trunc", cfg=c, ip="probe/p", drop=0)])
                where.append((hi, oi))
    for (hi, oi), res in zip(where, run_h(ctx, probes, "probe")):
        o = hs[hi]["ops"][oi]
        if res is None or not res[1]["existed"]:
            hs[hi]["skip"] = True           # infrastructure: this history is not run
            o["complete"] = False
            o["limit"] = 0
            continue
        size = res[1]["size"]
        o["real_size"] = size
        nenc = 1 + len(o["chunks"])
        if o["mode"] in ("kill", "eio"):
            o["limit"] = [0, 1, size // 2, size - 1, size, size + 3][int(o["sel"] * 6)]
            o["complete"] = o["limit"] >= size
        else:
            o["complete"] = o["after"] > nenc
    # pass 2: the histories themselves
    wired = []
    for h in hs:
        ops = []
        for o in h["ops"]:
            ops.append(wire(h, o))
            if o["op"] in ("store", "crash", "trunc"):
                pass
        # the file names the real code uses for every (cfg, ip) pair of this history
        for ci, c in enumerate(h["cfgs"]):
            for ii, ip in enumerate(h["ips"]):
                if not c.get("nil"):
                    ops.append(dict(op="key", cfg=c, ip=ip))
        wired.append(ops)
    results = run_h(ctx, wired, "hist")
    ctx.log("histories: implementation done")

    dist = dict(ops={}, loads_hit=0, loads_miss=0, crashes_partial=0, crashes_complete=0, stores_ok=0, stores_refused=0,
                test_pkg_ops=0, nil_cache_ops=0, stale_loads=0, equal_time_loads=0)
    vcases = []
    skipped = 0
    for hi, (h, res) in enumerate(zip(hs, results)):
        if res is None or h.get("skip") or any(o["op"] == "crash" and x["err"] for o, x in zip(h["ops"], res)):
            skipped += 1
            vcases.append(None)
            continue
        nops = len(h["ops"])
        names = {}
        k = nops
        for ci, c in enumerate(h["cfgs"]):
            for ii, ip in enumerate(h["ips"]):
                if not c.get("nil"):
                    names[(ci, ii)] = res[k]["path"]
                    k += 1
        name_id = {}
        for p in names.values():
            name_id.setdefault(p, 1 + len(name_id))      # equal real names <-> equal ids
        # ---- direct oracle: reference bookkeeping of what the property allows
        entries = {}          # (common, ip) -> dict(t, chunks, damaged)
        temps_expected = 0
        mops = []
        bad = None
        for oi, (o, x) in enumerate(zip(h["ops"], res)):
            dist["ops"][o["op"]] = dist["ops"].get(o["op"], 0) + 1
            if x["panic"]:
                bad = ("cache-operation-panics", "%s panicked: %s" % (o["op"], x["panic"][:200]), oi)
                break
            c = h["cfgs"][o["ci"]] if "ci" in o else None
            ip = h["ips"][o["ii"]] if "ii" in o else None
            usable = c is not None and not c.get("nil") and not is_test(c, ip)
            if c is not None and c.get("nil"):
                dist["nil_cache_ops"] += 1
            elif c is not None and is_test(c, ip):
                dist["test_pkg_ops"] += 1
            ek = (common_of(c), ip) if c is not None else None
            if o["op"] == "store":
                failing = o["fail_after"] >= 0 and o["fail_after"] <= 1 + len(o["chunks"])
                if x["ok"] and not usable:
                    bad = ("store-accepted-for-test-package-or-nil-cache", "Store returned true for the package under test / a nil cache", oi)
                    break
                if x["ok"] and failing:
                    bad = ("store-reports-success-after-write-error", "Store returned true although Cacheable.Write failed", oi)
                    break
                if x["ok"]:
                    entries[ek] = dict(t=o["t"], chunks=o["chunks"], damaged=False)
                    dist["stores_ok"] += 1
                else:
                    dist["stores_refused"] += 1
                outcome = "Fail 0" if failing else "Done"
                mops.append("MStore %d %d %s %s (%s) (Some %s)" % (o["ci"], o["ii"], cq_time(o["t"]), cq_chunks(o["chunks"]), outcome, "true" if x["ok"] else "false"))
            elif o["op"] == "crash":
                complete = o["complete"]
                if usable and complete:
                    entries[ek] = dict(t=o["t"], chunks=o["chunks"], damaged=False)
                    dist["crashes_complete"] += 1
                elif usable:
                    dist["crashes_partial"] += 1
                    if o["mode"] in ("kill", "exit"):
                        temps_expected += 1
                nm = toy_len(o["chunks"])
                if complete:
                    outcome, obs = "Done", "(Some true)"
                elif o["mode"] == "kill":
                    outcome, obs = "CrashAfter %d" % (1 + min(o["limit"], nm - 1)), "None"
                elif o["mode"] == "eio":
                    outcome, obs = "Fail %d" % min(o["limit"], nm), "(Some false)"
                else:
                    outcome, obs = "CrashAfter 1", "None"
                if not usable:
                    obs = "(Some false)"   # refused before anything is written: the child exits normally with stored=false
                    if x["ok"]:
                        bad = ("store-accepted-for-test-package-or-nil-cache", "Store (child process) returned true for the package under test / a nil cache", oi)
                        break
                elif complete != bool(x["ok"]) and o["mode"] != "exit":
                    bad = ("store-result-wrong-after-write-limit", "Store with a file-size limit of %d bytes (file needs %d) returned %s; status %s" % (
                        o["limit"], o["real_size"], x["ok"], x["status"]), oi)
                    break
                mops.append("MStore %d %d %s %s (%s) %s" % (o["ci"], o["ii"], cq_time(o["t"]), cq_chunks(o["chunks"]), outcome, obs))
            elif o["op"] == "load":
                e = entries.get(ek) if usable else None
                tsrc = o["t"][0] * 10 ** 9 + o["t"][1]
                if e is not None:
                    tb = e["t"][0] * 10 ** 9 + e["t"][1]
                    if tsrc > tb:
                        dist["stale_loads"] += 1
                    if tsrc == tb:
                        dist["equal_time_loads"] += 1
                if x["hit"]:
                    dist["loads_hit"] += 1
                    if c.get("nil"):
                        bad = ("load-hit-with-nil-cache", "Load returned true on a nil cache", oi)
                    elif is_test(c, ip):
                        bad = ("load-hit-for-test-package", "Load returned an entry for the package under test", oi)
                    elif e is None:
                        bad = ("load-hit-other-config-or-package", "Load returned an entry although nothing was stored under this configuration and import path", oi)
                    elif x["chunks"] != e["chunks"]:
                        bad = ("load-hit-wrong-content", "Load returned %r, the last completed store for this key stored %r" % (x["chunks"], e["chunks"]), oi)
                    elif tsrc > e["t"][0] * 10 ** 9 + e["t"][1]:
                        bad = ("load-hit-stale", "Load returned an entry built at %r for sources modified at %r" % (e["t"], o["t"]), oi)
                    if bad:
                        break
                else:
                    dist["loads_miss"] += 1
                mops.append("MLoad %d %d %s %s" % (o["ci"], o["ii"], cq_time(o["t"]), ("(Some %s)" % cq_chunks(x["chunks"])) if x["hit"] else "None"))
            elif o["op"] == "trunc":
                if usable or (c is not None and not c.get("nil")):
                    e = entries.get(ek)
                    if e is not None and o["drop"] > 0:
                        e["damaged"] = True
                mops.append("MTrunc %d %d %d" % (o["ci"], o["ii"], o["drop"]))
            elif o["op"] == "key":
                if not c.get("nil"):
                    if x["is_test"] != is_test(c, ip):
                        bad = ("is-test-package-wrong", "isTestPackage(%r) with TestedPackage %r is %s" % (ip, c["tested"], x["is_test"]), oi)
                        break
                    mops.append("MKey %d %d (%s) %s" % (o["ci"], o["ii"], cq_bytes(x["key"]), "true" if x["is_test"] else "false"))
            elif o["op"] == "ls":
                finals = [f.split(":")[0] for f in x["files"] if HEX64.match(f.split(":")[0])]
                others = [f for f in x["files"] if not HEX64.match(f.split(":")[0])]
                allowed = set(names.values())
                if any(f not in allowed for f in finals):
                    bad = ("file-under-unknown-name", "a cache file exists under a name that no (configuration, import path) of the history maps to", oi)
                    break
                if any(len(os.path.basename(f.split(":")[0])) <= 64 for f in others):
                    bad = ("temp-file-name-not-longer-than-final", "a temporary file has a name that could be a final name: %r" % others, oi)
                    break
                if len(others) != temps_expected:
                    bad = ("temp-files-left-behind", "%d temporary files exist, %d Store calls were killed part-way (error paths must remove theirs)" % (len(others), temps_expected), oi)
                    break
                mops.append("MLs [%s] %d" % ("; ".join(str(name_id[f]) for f in finals), len(others)))
        if bad:
            ctx.violation(bad[0], bad[1], dict(kind="history", cfgs=h["cfgs"], ips=h["ips"], ops=h["ops"], failing_op=bad[2], impl=res[:nops]))
        nontrivial = any(o["op"] in ("store", "crash") for o in h["ops"]) and any(o["op"] == "load" for o in h["ops"])
        ctx.count(["history", h["cfgs"], h["ips"], [{k: v for k, v in o.items() if k not in ("sel",)} for o in h["ops"]]], nontrivial)
        if hi < 2:
            ctx.sample(dict(kind="history", cfgs=h["cfgs"][:2], ips=h["ips"], ops=h["ops"][:6], impl=[{k: v for k, v in x.items() if v not in ("", [], False, 0, None)} for x in res[:6]]))
        nm = "[" + "; ".join("(%d%%nat, %d%%nat, %d)" % (ci, ii, name_id[p]) for (ci, ii), p in sorted(names.items())) + "]"
        vcases.append("{| c_cfgs := [%s]; c_ips := %s; c_names := %s;\n   c_ops := [%s] |}" % (
            "; ".join(cq_cfg(c) for c in h["cfgs"]), cq_blist(h["ips"]), nm, ";\n     ".join(mops)))

    if skipped:
        ctx.notes.append("histories: %d of %d skipped (infrastructure)" % (skipped, len(hs)))
    dist["skipped"] = skipped
    live = [i for i, v in enumerate(vcases) if v is not None]
    vcases = [vcases[i] for i in live]
    shard = 13
    shards = [vcases[i:i + shard] for i in range(0, len(vcases), shard)]

    def run_shard(k):
        txt = coq_eval(ctx, "cases_h%d" % k, "Definition cases : list case := [\n" + ";\n".join(shards[k]) + "].\nDefinition M := Eval vm_compute in mismatches cases.", "histories shard %d" % k)
        if txt is None:
            return k, None
        return k, [(int(a), int(b)) for a, b in re.findall(r"\((\d+),\s*(\d+)\)", txt)]

    mism = 0
    for k, pairs in C.parallel_map(run_shard, range(len(shards))):
        for (i, opi) in pairs or []:
            gi = live[k * shard + i]
            mism += 1
            h = hs[gi]
            if not any(v["replay"].get("ops") == h["ops"] and v["replay"].get("cfgs") == h["cfgs"] for v in ctx.violations):
                ctx.violation("history-model-mismatch", "model and BuildCache disagree at operation %d of a history (correspondence C20/histories broken)" % opi,
                              dict(kind="history", cfgs=h["cfgs"], ips=h["ips"], ops=h["ops"], failing_op=opi, impl=results[gi][:len(h["ops"])],
                                   correspondence="Corr/C20_Eval.mismatches vs build/cache.BuildCache"), concrete=False)
    dist["model_mismatches"] = mism
    ctx.cov["history_distribution"] = dist
    ctx.cov["histories_validated_against_impl"] = len(vcases)


# ---------------------------------------------------------------- stream B: keys

def keys(ctx):
    r = ctx.rng("keys")
    n = 480 if ctx.quick else 20000
    cases = []
    for i in range(n):
        k = r.random()
        if k < 0.35:
            c = G.base_cfg(r)
            if r.random() < 0.4:
                c["tested"] = r.choice(G.IPS)
            ip = r.choice(G.IPS + [""])
        elif k < 0.5:
            # the package under test in all its spellings: own path with or without a _test suffix,
            # its external _test package, near misses
            c = G.base_cfg(r)
            base = r.choice(G.IPS + ["e2e_test", "x/integration_test", "_test", "t"])
            c["tested"] = base
            ip = r.choice([base, base + "_test", base[:-5] if base.endswith("_test") else base + "x", base + "_test_test", "x" + base, r.choice(G.IPS)])
        else:
            c, ip = G.nasty_cfg(r), G.nasty_ip(r)
        cases.append((c, ip))
    # pairs that differ in exactly one field, clean values
    pairs = []
    for i in range(160 if ctx.quick else 4000):
        c = G.base_cfg(r)
        f = r.choice(G.FIELDS + ["ip", "tested"])
        ip = r.choice(G.IPS)
        if f == "ip":
            pairs.append((c, ip, c, r.choice([x for x in G.IPS if x != ip]), f))
        else:
            pairs.append((c, ip, G.vary(r, c, f), ip, f))
    hist = [[dict(op="key", cfg=c, ip=ip)] for c, ip in cases] + [[dict(op="key", cfg=a, ip=ia), dict(op="key", cfg=b, ip=ib)] for a, ia, b, ib, f in pairs]
    res = run_h(ctx, hist, "keys")
    kc = []
    dist = dict(wf=0, not_wf=0, test=0, with_quote=0, with_dotdot=0)
    kidx = []
    for ci_, ((c, ip), x) in enumerate(zip(cases, res)):
        if x is None:
            continue
        x = x[0]
        kidx.append(ci_)
        if x["panic"]:
            kidx.pop()
            ctx.violation("key-derivation-panics", "packageKey panicked: " + x["panic"][:200], dict(kind="key", cfg=c, ip=ip))
            continue
        wf = x["key"] == "package/" + x["ck"] + ("/" + ip if ip else "")
        dist["wf" if wf else "not_wf"] += 1
        dist["test"] += x["is_test"]
        dist["with_quote"] += any('"' in (c[f] or "") for f in ("goos", "goarch", "goroot", "gopath", "version"))
        dist["with_dotdot"] += ".." in ip or ".." in c["goroot"]
        if x["is_test"] != is_test(c, ip):
            ctx.violation("is-test-package-wrong", "isTestPackage(%r) with TestedPackage %r is %s" % (ip, c["tested"], x["is_test"]), dict(kind="key", cfg=c, ip=ip, impl=x))
        ctx.count(["key", c, ip], nontrivial=True)
        kc.append("{| k_cfg := %s; k_ip := %s; k_key := %s; k_test := %s; k_wf := %s |}" % (
            cq_cfg_rec(c), cq_bytes(ip), cq_bytes(x["key"]), "true" if x["is_test"] else "false", "true" if wf else "false"))
    if res[len(cases) - 1] is not None:
        ctx.sample(dict(kind="key", cfg=cases[-1][0], ip=cases[-1][1], impl_key=res[len(cases) - 1][0]["key"]))
    # oracle on the one-field pairs
    per_field = {}
    for (a, ia, b, ib, f), x in zip(pairs, res[len(cases):]):
        if x is None or x[0]["panic"] or x[1]["panic"]:
            continue
        per_field[f] = per_field.get(f, 0) + 1
        same = x[0]["key"] == x[1]["key"] or x[0]["path"] == x[1]["path"]
        ctx.count(["keypair", a, ia, b, ib], nontrivial=True)
        if f == "tested":
            if not same:
                ctx.violation("key-depends-on-tested-package", "TestedPackage changes the key (it must only switch caching off for that package)", dict(kind="keypair", a=a, ip_a=ia, b=b, ip_b=ib, impl=x), concrete=False)
        elif same:
            ctx.violation("key-ignores-" + f, "two configurations that differ only in %s share the cache key / file" % f,
                          dict(kind="keypair", a=a, ip_a=ia, b=b, ip_b=ib, field=f, impl=[x[0]["key"], x[1]["key"]]))
    dist["one_field_pairs"] = per_field
    shard = 50
    shards = [kc[i:i + shard] for i in range(0, len(kc), shard)]

    def run_shard(k):
        txt = coq_eval(ctx, "cases_k%d" % k, "Definition cases : list kcase := [\n" + ";\n".join(shards[k]) + "].\nDefinition M := Eval vm_compute in kmismatches cases.", "keys shard %d" % k)
        return k, None if txt is None else [int(a) for a in re.findall(r"\d+", txt)]

    mism = 0
    for k, idxs in C.parallel_map(run_shard, range(len(shards))):
        for i in idxs or []:
            mism += 1
            c, ip = cases[kidx[k * shard + i]]
            ctx.violation("key-model-mismatch", "model key / wf / isTestPackage differs from the real packageKey (correspondence C20/keys broken)",
                          dict(kind="key", cfg=c, ip=ip, impl=res[kidx[k * shard + i]][0]), concrete=False)
    dist["model_mismatches"] = mism
    ctx.cov["key_distribution"] = dist
    ctx.cov["keys_validated_against_impl"] = len(kc)


# ---------------------------------------------------------------- stream C: damage

def damage(ctx):
    r = ctx.rng("damage")
    cfg = G.base_cfg(r)
    T = [1700000000, 5]
    ents = []
    nsmall, nmed, nbig, nsrc = (6, 3, 1, 4) if ctx.quick else (40, 12, 4, 24)
    for i in range(nsmall):
        ents.append(dict(kind="toy", chunks=gen_chunks(r) or ["00"], label="small"))
    for i in range(nmed):
        ents.append(dict(kind="toy", chunks=[bytes(r.choice(b"abcdefgh \n") for _ in range(r.randint(300, 3000))).hex(), "ff00"], label="medium"))
    for i in range(nbig):
        ents.append(dict(kind="toy", chunks=[bytes(r.randrange(256) for _ in range(r.randint(9000, 40000))).hex(), "01"], label="large"))
    for i in range(nsrc):
        files, js = G.gen_package(r, 900 + i)
        ents.append(dict(kind="src", src=files, js=js, label="sources"))
    nflips = 400 if ctx.quick else 6000
    jobs, meta = [], []
    for i, e in enumerate(ents):
        ip = "verif/dmg%d" % i
        st = dict(op="store", cfg=cfg, ip=ip, t=T, chunks=e["chunks"], fail_after=-1) if e["kind"] == "toy" else dict(op="store_src", cfg=cfg, ip=ip, t=T, src=e["src"], js=e["js"])
        # sizes and positions are resolved by the harness against the file it has just written
        if ctx.quick:
            tr = dict(op="sweep_trunc", cfg=cfg, ip=ip, t=T, kind=e["kind"], offsets=list(range(16)), drops=list(range(16)), fracs=[r.randrange(1000000) for _ in range(32)])
        else:
            tr = dict(op="sweep_trunc", cfg=cfg, ip=ip, t=T, kind=e["kind"], all=True)
        jobs.append([st, tr]); meta.append((i, "trunc"))
        if not ctx.quick and e["label"] in ("small", "medium"):
            jobs.append([st, dict(op="sweep_flip", cfg=cfg, ip=ip, t=T, kind=e["kind"], all=True, masks=[1, 128, r.randint(1, 255)])]); meta.append((i, "flip"))
        else:
            flips = [[r.randrange(1 << 30), r.choice([1, 2, 4, 8, 16, 32, 64, 128, 255, r.randint(1, 255)])] for _ in range(nflips)]
            for part in range(0, len(flips), 1000):
                jobs.append([st, dict(op="sweep_flip", cfg=cfg, ip=ip, t=T, kind=e["kind"], flips=flips[part:part + 1000])]); meta.append((i, "flip"))
    res = run_h(ctx, jobs, "dmg")
    dist = dict(files={}, trunc_probes=0, trunc_hit_although_truncated=0, flip_probes=0, flip_miss=0, flip_hit_same=0, flip_hit_different=0, panics=0,
                hypothesis_violations=0)
    reported = set()
    sizes = {}
    for (i, what), x in zip(meta, res):
        if x is None:
            continue
        e = ents[i]
        x = x[1]
        size = x["size"]
        sizes.setdefault(i, size)
        probes = x["ks"] if what == "trunc" else list(zip(x["ks"], x["xs"]))
        dist["files"][e["label"]] = dist["files"].get(e["label"], 0) + 1
        desc = dict(kind="damage", entry={k: v for k, v in e.items() if k in ("kind", "label")}, file_size=size, cfg=cfg, ip="verif/dmg%d" % i, t=T,
                    payload=(e.get("chunks") if e["kind"] == "toy" and size < 400 else None), src=e.get("src"))
        if not x["ok"]:
            ctx.violation("load-miss-after-completed-store", "the undamaged file does not load: " + x["err"][:200], dict(desc), concrete=False)
            continue
        cls = x["classes"]
        for p, cl in zip(probes, cls):
            if what == "trunc":
                dist["trunc_probes"] += 1
                ctx.count(["trunc", i, p], nontrivial=True)
                drop = size - p
                if cl == "d":
                    key = "truncated-file-hit-with-partial-or-different-content"
                    if key not in reported:
                        reported.add(key)
                        ctx.violation(key, "file of %d bytes cut to %d bytes: Load returned an entry that differs from the stored one" % (size, p), dict(desc, keep=p, impl_class=cl))
                elif cl == "p":
                    dist["panics"] += 1
                    if "truncated-file-load-panics" not in reported:
                        reported.add("truncated-file-load-panics")
                        ctx.violation("truncated-file-load-panics", "file of %d bytes cut to %d bytes: Load panicked: %s" % (size, p, x["panics"][:1]), dict(desc, keep=p))
                else:
                    # the property and the hypothesis of C20_corruption_is_miss: every proper prefix is a miss
                    predicted = "s" if drop == 0 else "m"
                    if cl == "s" and 0 < drop:
                        dist["trunc_hit_although_truncated"] += 1
                        if "truncated-file-still-hit" not in reported:
                            reported.add("truncated-file-still-hit")
                            ctx.violation("truncated-file-still-hit", "file of %d bytes cut to %d bytes: Load still returned true (a truncated file must be a miss)" % (size, p), dict(desc, keep=p, impl_class=cl))
                    elif cl != predicted:
                        dist["hypothesis_violations"] += 1
                        if "truncation-slack-mismatch" not in reported:
                            reported.add("truncation-slack-mismatch")
                            ctx.violation("truncation-slack-mismatch", "file of %d bytes cut to %d: Load %s, the model's codec hypotheses predict %s" % (
                                size, p, "hit" if cl == "s" else "missed", "hit" if predicted == "s" else "miss"), dict(desc, keep=p), concrete=False)
            else:
                dist["flip_probes"] += 1
                ctx.count(["flip", i, p], nontrivial=True)
                if cl == "m":
                    dist["flip_miss"] += 1
                elif cl == "s":
                    dist["flip_hit_same"] += 1
                elif cl == "d":
                    dist["flip_hit_different"] += 1
                    key = "corrupt-flip-hit-different-content"
                    if (key, e["kind"]) not in reported:
                        reported.add((key, e["kind"]))
                        ctx.violation(key, "byte %d of a %d-byte cache file xor %d: Load returned true with content different from what was stored (%s payload)" % (p[0], size, p[1], e["label"]), dict(desc, flip=p, impl_class=cl))
                elif cl == "p":
                    dist["panics"] += 1
                    key = "corrupt-flip-load-panics"
                    if (key, e["kind"]) not in reported:
                        reported.add((key, e["kind"]))
                        ctx.violation(key, "byte %d of a %d-byte cache file xor %d: Load panicked: %s" % (p[0], size, p[1], x["panics"][:1]), dict(desc, flip=p))
    ctx.cov["damage_distribution"] = dist
    ctx.sample(dict(kind="damage", files=len(ents), sizes=[sizes[k] for k in sorted(sizes)][:12]))


# ---------------------------------------------------------------- stream D: SIGKILL at random instants

def sigkill(ctx):
    r = ctx.rng("sigkill")
    n = 48 if ctx.quick else 800
    cfg = G.base_cfg(r)
    T = [1700000000, 0]
    hist, meta = [], []
    for i in range(n):
        a = [bytes(r.randrange(256) for _ in range(r.choice([10, 2000, 60000]))).hex()]
        b = [bytes(r.randrange(256) for _ in range(r.choice([10, 2000, 60000]))).hex(), "aa"]
        prior = r.random() < 0.5
        p = gen_chunks(r)
        ops = []
        if prior:
            ops.append(dict(op="store", cfg=cfg, ip="k/p", t=T, chunks=p, fail_after=-1))
        ops += [dict(op="crash", cfg=cfg, ip="k/p", t=T, mode="sigkill", chunks=a, chunks2=b, after=r.choice([0, 0, 1, 2, 3, 5]), micros=r.choice([0, 20, 100, 300, 1000, 3000, r.randint(0, 5000)])),
                dict(op="load", cfg=cfg, ip="k/p", t=T), dict(op="ls")]
        hist.append(ops)
        meta.append((prior, p, a, b))
    res = run_h(ctx, hist, "kill")
    dist = dict(miss=0, prior=0, a=0, b=0, temp_left=0, stores_before_kill=0)
    for (prior, p, a, b), ops, x in zip(meta, hist, res):
        if x is None or x[-3]["err"]:
            continue
        ld, ls, cr = x[-2], x[-1], x[-3]
        dist["stores_before_kill"] += cr["stores"]
        others = [f for f in ls["files"] if not HEX64.match(f.split(":")[0])]
        dist["temp_left"] += len(others)
        ctx.count(["sigkill", ops[-3]["micros"], ops[-3]["after"], prior, len(a[0]), len(b[0])], nontrivial=True)
        rep = dict(kind="sigkill", ops=[{k: (v if k not in ("chunks", "chunks2") else [c[:40] for c in v]) for k, v in o.items()} for o in ops], impl=dict(load_hit=ld["hit"], files=ls["files"], stores=cr["stores"]))
        if ld["panic"]:
            ctx.violation("load-panics-after-kill", "Load panicked after Store was killed: " + ld["panic"][:200], rep)
        elif not ld["hit"]:
            dist["miss"] += 1
            if prior or cr["stores"] > 0:
                ctx.violation("kill-loses-completed-entry", "Store was killed; a completed entry existed before, Load now misses", rep)
        elif ld["chunks"] == a:
            dist["a"] += 1
        elif ld["chunks"] == b:
            dist["b"] += 1
        elif prior and ld["chunks"] == p:
            dist["prior"] += 1
            if cr["stores"] > 0:
                ctx.violation("kill-resurrects-older-entry", "after completed stores the entry from before them is returned", rep)
        else:
            ctx.violation("kill-leaves-partial-entry", "Store was killed; Load returns something that no completed Store wrote", rep)
        if len(others) > 1 or any(len(os.path.basename(f.split(":")[0])) <= 64 for f in others):
            ctx.violation("temp-files-left-behind", "more than one temporary file after one killed process: %r" % others, rep)
    ctx.cov["sigkill_distribution"] = dist


# ---------------------------------------------------------------- stream E: transparency

REGISTERED = None


def registered_kinds():
    """node kinds registered with gob in the CURRENT serializer.go"""
    txt = open(os.path.join(C.REPO, "compiler", "sources", "serializer.go")).read()
    return sorted(set(re.findall(r"gob\.Register\(&ast\.(\w+)\{\}\)", txt)))


DETACHED_LINKNAME = """package p

import _ "unsafe"

//go:linkname ext verif/other.Impl

func ext() int

func Use() int { return ext() }
"""


def transparency(ctx):
    r = ctx.rng("packages")
    n = 48 if ctx.quick else 700
    cfg = G.base_cfg(r)
    T = [1700000000, 0]
    pk = [G.gen_package(r, i) for i in range(n)]
    hist = [[dict(op="compile", cfg=cfg, ip="verif/p%d" % i, t=T, src=f, js=js, minify=(i % 2 == 1))] for i, (f, js) in enumerate(pk)]
    # a go:linkname directive that is not a doc comment (fixed in 17d01ef; kept as a regression case)
    hist.append([dict(op="compile", cfg=cfg, ip="verif/detached", t=T, src=[dict(name="a.go", text=DETACHED_LINKNAME)], js=[], minify=False)])
    res = run_h(ctx, hist, "pkgs")
    kinds = set()
    dist = dict(js_bytes=0, cache_file_bytes=0, minified=0, packages=0, with_detached_comments=0)
    for i, (ops, x) in enumerate(zip(hist, res)):
        if x is None:
            continue
        o, x = ops[0], x[0]
        rep = dict(kind="package", ip=o["ip"], src=o["src"], js=o["js"], minify=o["minify"], cfg=cfg, t=T,
                   impl={k: x[k] for k in ("ok", "err", "same_js", "same_map", "same_print", "same_meta", "same_comments", "same_after", "diff", "panic")})
        ctx.count(["package", o["src"], o["js"], o["minify"]], nontrivial=True)
        if x["panic"] or not x["ok"]:
            gen_bug = x["err"].startswith(("parse:", "compile fresh:"))
            ctx.violation("generated-package-does-not-compile" if gen_bug else "restored-package-does-not-compile",
                          "package: %s %s" % (x["err"][:300], x["panic"][:200]), rep, concrete=not gen_bug)
            continue
        kinds |= set(x["kinds"])
        dist["packages"] += 1
        dist["js_bytes"] += x["js_len"]
        dist["cache_file_bytes"] += x["file_size"]
        dist["minified"] += o["minify"]
        dist["with_detached_comments"] += any("free-floating" in f["text"] or "\n\nfunc ext" in f["text"] for f in o["src"])
        if not x["same_js"] or not x["same_map"]:
            ctx.violation("transparency-js-differs",
                          "JavaScript compiled from the Sources restored from the cache differs from the JavaScript compiled from the parsed package (%s)" % x["diff"][:200], rep)
        elif not x["same_print"] or not x["same_meta"]:
            ctx.violation("transparency-ast-differs", "restored Sources differ from the parsed ones (code, node positions, import path, dir or .inc.js files): " + x["diff"][:200], rep)
        elif not x["same_after"]:
            ctx.violation("transparency-store-changes-original", "compiling the original Sources after Store gives different JavaScript: " + x["diff"][:200], rep)
        elif not x["same_comments"]:
            ctx.violation("transparency-comments-differ", "the comment groups (File.Comments) of the restored Sources differ from the parsed ones (directives such as go:linkname live there)", rep)
    ctx.sample(dict(kind="package", files=[f["name"] for f in pk[0][0]], first_lines=pk[0][0][0]["text"][:300]))
    want = [k for k in registered_kinds() if not k.startswith("Bad")]
    missing = [k for k in want if k not in kinds]
    dist["registered_kinds"] = len(want)
    dist["registered_kinds_not_generated"] = missing
    if missing:
        ctx.violation("generator-misses-node-kinds", "node kinds registered in serializer.go that no generated package contains: %r" % missing, dict(missing=missing), concrete=False)
    ctx.cov["package_distribution"] = dist


# ---------------------------------------------------------------- driver

def correspond(ctx):
    for name, fn in (("histories", histories), ("keys", keys), ("damage", damage), ("sigkill", sigkill), ("transparency", transparency)):
        fn(ctx)
        ctx.log(name + " done")


def replay(ctx, data):
    rp = data["replay"]
    kind = rp.get("kind")
    if kind == "history":
        h = dict(cfgs=rp["cfgs"], ips=rp["ips"], ops=rp["ops"])
        res = run_h(ctx, [[wire(h, o) for o in rp["ops"]]], "replay")[0]
        for o, x, y in zip(rp["ops"], res, rp.get("impl", [])):
            print(json.dumps(o), "\n   now:     ", json.dumps({k: v for k, v in x.items() if v not in ("", [], False, 0, None)}),
                  "\n   recorded:", json.dumps({k: v for k, v in y.items() if v not in ("", [], False, 0, None)}))
        print("failing operation index:", rp.get("failing_op"))
    elif kind in ("key", "keypair"):
        ops = [dict(op="key", cfg=rp["cfg"], ip=rp["ip"])] if kind == "key" else [dict(op="key", cfg=rp["a"], ip=rp["ip_a"]), dict(op="key", cfg=rp["b"], ip=rp["ip_b"])]
        for x in run_h(ctx, [ops], "replay")[0]:
            print(json.dumps(dict(key=x["key"], path=x["path"], is_test=x["is_test"])))
        print("recorded:", json.dumps(rp.get("impl")))
    elif kind == "damage":
        st = dict(op="store", cfg=rp["cfg"], ip=rp["ip"], t=rp["t"], chunks=rp["payload"], fail_after=-1) if rp.get("payload") is not None else \
             dict(op="store_src", cfg=rp["cfg"], ip=rp["ip"], t=rp["t"], src=rp["src"], js=[])
        if rp.get("payload") is None and not rp.get("src"):
            print("payload too large to be recorded; re-run the check with the recorded seed")
            return 0
        k = rp["entry"]["kind"]
        probe = dict(op="sweep_flip", cfg=rp["cfg"], ip=rp["ip"], t=rp["t"], kind=k, flips=[rp["flip"]]) if "flip" in rp else \
                dict(op="sweep_trunc", cfg=rp["cfg"], ip=rp["ip"], t=rp["t"], kind=k, offsets=[rp["keep"]])
        x = run_h(ctx, [[st, probe]], "replay")[0][1]
        print("file size", x["size"], "class now (m miss, s stored entry, d different entry, p panic):", x["classes"], "recorded:", rp.get("impl_class"))
    elif kind == "package":
        x = run_h(ctx, [[dict(op="compile", cfg=rp["cfg"], ip=rp["ip"], t=rp["t"], src=rp["src"], js=rp["js"], minify=rp["minify"], mode="dump")]], "replay")[0][0]
        print(x["content"])
        print(json.dumps({k: x[k] for k in ("ok", "err", "same_js", "same_map", "same_print", "same_meta", "same_comments", "same_after", "diff")}, indent=1))
    else:
        print(json.dumps(data, indent=1))
    return 0


TECHNIQUE = ("Coq proof (induction over histories of stores, crashes at every file-system step and byte offset, truncations, deletions; "
             "parser-free injectivity proof of the key format) + differential correspondence with the real BuildCache, serializer and compiler")
LEVEL_TEXT = ("Machine-checked theorems over an executable model of build/cache/cache.go: a Load that returns an entry returns what the last "
              "completed Store for the same key stored, not older than the sources, over every history of stores, crashes, truncations and "
              "deletions; the key is injective in (GOOS, GOARCH, GOROOT, GOPATH, BuildTags, Version, import path) for Clean-stable strings; a "
              "crash at any step leaves every final file untouched or publishes the complete entry; every truncated file is a miss; a file "
              "with one changed byte is a miss or the unchanged entry; the tested package is never stored or loaded. gzip/gob/SHA-256 are "
              "Section hypotheses, instantiated by a toy codec and validated on the real codec at every run. Transparency at the statement's "
              "level (JavaScript from restored vs fresh Sources, byte for byte, with source map) is checked on generated packages.")
LEVEL_NOTE = ("Proof is about the hand-written model; the tie to /repo is differential. The two defects found by this check (gzip checksum "
              "never verified; free-floating comments lost by the serializer) are fixed in /repo (c802f28, 17d01ef) and the model follows "
              "the repaired code. The cache is disabled by default in build.go today.")
