"""C11 — Go <-> JavaScript conversions.  Model: coq/Model/C11_JsMapping.v; theorems: coq/Props/C11.v.

Correspondence (every run, on the CURRENT tree):
 (1) conversions: generated (Go type, Go value) and (Go type, JS value) pairs — boundary numbers per kind, code points at
     the encoding boundaries, random Unicode strings incl. invalid UTF-8 / lone surrogates, composites nested to depth 3 —
     are run through the REAL $externalize / $internalize of compiler/prelude (node, prelude loader, type objects made by
     the real $sliceType/$mapType/$structType/...), forth and back (same type and interface{}).  Every observed
     conversion is (a) checked against a direct oracle written from the js package documentation table and the
     Unicode / Go rules (harness/py/c11_lib.py, independent of the model) and (b) replayed on the Coq model.
 (2) functions: wrapper identity ($externalizeWrapper cache), argument/result conversion of exposed functions, JS
     functions as Go funcs, $block guard — real prelude vs model.
 (3) compiled programs: generated self-checking Go programs using every js.Object accessor, js.MakeFunc, func values,
     js-tagged struct fields, js.MakeWrapper, with JS-side probes through eval; expected values are literals computed
     by the oracle; observations are also replayed on the model (compiled_internalize / externalize); callback guard witness.
"""
import json, os, re, sys
import common as C
import c11_lib as L

ID = "C11"
PROPS_FILE = "Props/C11.v"
MODEL_TARGETS = ["Corr/C11_Eval.v"]
ALLOWED_AXIOMS = []
RULE = ("conversions: per basic kind the range limits / powers of two / +-0 NaN Inf denormals, 25 code points at the UTF-8/UTF-16 "
        "encoding boundaries, random strings (75% valid UTF-8, else truncated / overlong / surrogate / random bytes; JS side 70% "
        "well-formed UTF-16, else lone or swapped surrogates), random types to depth 3 (slices, arrays, string-keyed maps, "
        "structs with exported/unexported/*js.Object first fields, pointers to structs, interface{} with dynamic types) with "
        "values incl. nil; JS values plausible for the type (88%) or arbitrary. non-trivial = not a bare ASCII string / small "
        "int; distinct by (op, type, value). programs: generated accessor tables, Set/Get/Index/Call/Invoke/New probes, "
        "exposed functions, tagged struct fields, wrapper identity, callback guard; every js.Object method receiver goes through a "
        "counting function (each must be evaluated exactly once)")
TRUSTED = ["model of $externalize/$internalize/$decodeRune/$encodeRune/$flatten64/64-bit constructors/fc.internalize written by hand "
           "(coq/Model/C11_JsMapping.v), tied by this correspondence",
           "parseInt on numbers below 1e21 "
           "(modelled as truncation), typed-array element coercions, Object.keys — checked on every generated number, not proved",
           "harness/js/c11_driver.js (value transport to/from the real prelude), harness/py/c11_lib.py (oracle from js/js.go's table)",
           "time.Time/Date, DOM Node, cyclic object graphs, MakeWrapper/MakeFullWrapper property enumeration: not modelled"]
ASSUMPTIONS = ["Go values satisfy their type's invariants (ints in range of their kind, float32 values float32-representable, "
               "slices backed by the native array of their element kind — the slice constructor enforces it)",
               "JS objects passed in are plain data objects without __internal_object__ and without getters"]
TECHNIQUE = "Coq proofs over an executable model of jsmapping.js + differential correspondence with the real prelude (node) and compiled programs"
LEVEL_TEXT = ("Machine-checked theorems over a hand-written model of $externalize/$internalize (repaired code, /repo 0509738): UTF-8 -> UTF-16 "
              "-> UTF-8 identity for all valid strings (decode(encode r) = r for every scalar value by reducing the bit operations to div/mod "
              "arithmetic, lifted to strings by induction), UTF-16 -> UTF-8 -> UTF-16 identity for well-formed input, EVERY JS string converts "
              "like utf16.Decode + UTF-8 (unpaired surrogates -> U+FFFD), U+FFFD degradation for invalid UTF-8, integer round trips per kind "
              "over the full range, 64-bit round trip below 2^53, float round trip for every number incl. -0/NaN/Inf, the interface{} table, "
              "typed nil <-> null round trip for slices, maps, pointers and interface{}, wrapper-cache idempotence and injectivity, callback "
              "guard.  The model is tied to /repo on every run by replaying generated conversions on the real prelude and on the model, and "
              "by compiled programs (which also count that every js.Object method receiver is evaluated exactly once).")
LEVEL_NOTE = ("Proofs are about the model; the tie is differential. Not modelled: time.Time, DOM nodes, cycles, wrappers' property "
              "enumeration, numbers >= 1e21 through parseInt, float32 rounding of non-representable values (model abstains, counted).")

DRIVER = os.path.join(C.JS, "c11_driver.js")
KNOWN_SIGS = {"internalize-float-negative-zero-sign-lost", "roundtrip-nil-map-becomes-empty-map",
              "roundtrip-nil-struct-pointer-typeerror", "internalize-string-unpaired-high-surrogate"}


def prepare(ctx):
    C.ensure_gopherjs()


def kind_of(T):
    return T if isinstance(T, str) else T[0]


SKIPPED = []        # infrastructure skips (timeouts): reported in ctx.notes, never as violations


def run_driver(cases, timeout=600):
    rc, out, err = C.sh2(["node", "--stack-size=4000", DRIVER], inp=json.dumps(dict(repo=C.REPO, cases=cases)).encode(), timeout=timeout)
    if rc == 124:
        SKIPPED.append("node driver timed out on a shard of %d cases (skipped)" % len(cases))
        return [dict(skipped=1) for _ in cases]
    if rc != 0:
        raise C.BuildError("c11 node driver failed (prelude does not load?): " + err[-800:])
    return json.loads(out)


def run_driver_sharded(cases, shard=1500):
    shards = [cases[i:i + shard] for i in range(0, len(cases), shard)]
    res = C.parallel_map(run_driver, shards)
    return [r for rs in res for r in rs]


# ---------------------------------------------------------------- case generation

def boundary_cases(r):
    cases = []
    for T in L.BASIC:
        if T == "bool":
            vals = [{"b": True}, {"b": False}]
        elif T in ("int64", "uint64"):
            lo, hi = L.INT_RANGE[T]
            vals = [L.mk64(T, z) for z in L.BOUNDARY_INTS + [lo, hi, lo + 1, hi - 1] if lo <= z <= hi]
        elif T == "string":
            vals = [{"s": L.utf8_encode([cp])} for cp in L.BOUNDARY_CODEPOINTS] + \
                   [{"s": L.utf8_encode([cp, 0x41])} for cp in L.BOUNDARY_CODEPOINTS] + \
                   [{"s": [0xED, 0xA0, 0x80]}, {"s": [0xED, 0xBF, 0xBF]}, {"s": [0xF4, 0x90, 0x80, 0x80]}, {"s": [0xC0, 0x80]},
                    {"s": [0xE0, 0x80, 0x80]}, {"s": [0xF0, 0x80, 0x80, 0x80]}, {"s": [0xFF]}, {"s": [0xE2, 0x82]}, {"s": []}]
        elif T in ("float32", "float64"):
            fs = [f for f in L.BOUNDARY_FLOATS if T == "float64" or L.is_f32(f)] + [float(z) for z in L.BOUNDARY_INTS if abs(z) <= 2**53]
            fs = [f for f in fs if T == "float64" or L.is_f32(f)]
            vals = [{"n": L.num_of_float(f)} for f in fs]
        else:
            lo, hi = L.INT_RANGE[T]
            vals = [{"n": "i%d" % z} for z in sorted(set([z for z in L.BOUNDARY_INTS if lo <= z <= hi] + [lo, hi, lo + 1, hi - 1]))]
        for v in vals:
            cases.append(dict(op="ext", t=T, v=v))
            cases.append(dict(op="ext", t=["slice", T], v={"sl": [v]}))
        # JS -> Go: every boundary number / special value into every kind
        js_vals = [{"n": L.num_of_float(float(z))} for z in L.BOUNDARY_INTS] + [{"n": L.num_of_float(f)} for f in L.BOUNDARY_FLOATS] + \
                  [None, {"u": 1}, {"b": True}, {"b": False}, {"s": []}, {"s": [0x41]}]
        for j in js_vals:
            cases.append(dict(op="int", t=T, j=j))
    for cp in L.BOUNDARY_CODEPOINTS + [0xD800, 0xDBFF, 0xDC00, 0xDFFF]:
        for us in ([cp] if cp < 0x10000 else L.utf16_encode([cp])), ([0x41] + ([cp] if cp < 0x10000 else L.utf16_encode([cp])) + [0x42]):
            cases.append(dict(op="int", t="string", j={"s": us}))
            cases.append(dict(op="int", t="iface", j={"s": us}))
    for us in ([0xD800, 0xD800, 0xDC00], [0xDBFF, 0xE000], [0xD800, 0x41], [0xDC00, 0xD800], [0xD83D], [0xD83D, 0xDE00, 0xD83D]):
        cases.append(dict(op="int", t="string", j={"s": us}))
    # nil / null rows
    for T in (["slice", "int"], ["slice", "string"], ["map", "int"], ["ptr", ["struct", [["A", True, "int"]]]], "iface",
              ["struct", [["M", True, ["map", "string"]], ["P", True, ["ptr", ["struct", [["A", True, "int"]]]]], ["S", True, ["slice", "uint8"]]]]):
        if T == "iface":
            v = {"i": None}
        elif T[0] == "slice":
            v = {"sl": None}
        elif T[0] == "map":
            v = {"m": None}
        elif T[0] == "ptr":
            v = {"p": None}
        else:
            v = {"st": [{"m": None}, {"p": None}, {"sl": None}]}
        cases.append(dict(op="ext", t=T, v=v))
        cases.append(dict(op="int", t=T, j=None))
        cases.append(dict(op="int", t=T, j={"u": 1}))
    return cases


def random_cases(r, n_str, n_comp):
    cases = []
    for _ in range(n_str // 2):
        cases.append(dict(op="ext", t="string", v={"s": L.gen_go_string(r)}))
    for _ in range(n_str - n_str // 2):
        cases.append(dict(op="int", t=r.choice(["string", "string", "iface"]), j={"s": L.gen_js_string(r)}))
    for _ in range(n_comp):
        T = L.gen_type(r, 3)
        cases.append(dict(op="ext", t=T, v=L.gen_go(r, T, 3)))
    for _ in range(n_comp):
        T = L.gen_type(r, 3)
        cases.append(dict(op="int", t=T, j=L.gen_js_for_type(r, T, 3)))
    for _ in range(n_comp // 3):
        cases.append(dict(op="int", t="iface", j=L.gen_js(r, 3)))
    return cases


def nontrivial(c):
    if c["op"] == "ext":
        v = c["v"]
        if "s" in v:
            return any(b >= 0x80 for b in v["s"])
        return True
    j = c["j"]
    if j is not None and "s" in j:
        return any(u >= 0x80 for u in j["s"])
    return True


def js_has_unpaired_high(J):
    if J is None or not isinstance(J, dict):
        return False
    if "s" in J:
        return L.has_unpaired_high(J["s"])
    if "a" in J:
        return any(js_has_unpaired_high(x) for x in J["a"])
    if "o" in J:
        return any(L.has_unpaired_high(k) or js_has_unpaired_high(v) for k, v in J["o"])
    return False


# ---------------------------------------------------------------- direct oracle on one driver result

def oracle_ext(ctx, c, res, stats):
    T, V = c["t"], c["v"]
    k = kind_of(T)
    rep = dict(kind="conversion", case=c, impl=res)
    try:
        exp_js = L.doc_ext(T, V)
    except L.NotDocumented:
        exp_js = "undocumented"
    js = res["js"]
    if exp_js != "undocumented":
        stats["oracle_ext"] += 1
        if "ok" not in js or L.canon(js["ok"]) != L.canon(exp_js):
            ctx.violation("ext-%s-not-as-documented" % k, "externalizing a %s gives %s, the documentation table says %s" % (
                k, json.dumps(js)[:200], json.dumps(exp_js)[:200]), dict(rep, expected_js=exp_js))
            return
    if "ok" not in js:
        return
    if L.representable(T, V):
        stats["oracle_roundtrip"] += 1
        back = res["back"]
        if "ok" not in back:
            if back.get("throw") == "EJsTypeError" and L.has_nil_struct_ptr(T, V):
                sig = "roundtrip-nil-struct-pointer-typeerror"
            else:
                sig = "roundtrip-%s-throws" % k
            ctx.violation(sig, "Go -> JS -> Go of a representable %s value throws %s instead of returning it" % (k, back.get("throw")),
                          dict(rep, expected_back=V))
        else:
            d = L.compare(V, back["ok"])
            if d is not None:
                sigs = d or ["roundtrip-%s-not-identity" % k]
                for sig in sigs:
                    ctx.violation(sig, "Go -> JS -> Go of a representable %s value is not the identity: %s -> %s -> %s" % (
                        k, json.dumps(V)[:160], json.dumps(js["ok"])[:160], json.dumps(back["ok"])[:160]), dict(rep, expected_back=V))
    if exp_js != "undocumented":
        try:
            exp_any = L.doc_int_any(exp_js)
        except L.NotDocumented:
            return
        stats["oracle_table"] += 1
        a = res["any"]
        if "ok" not in a:
            ctx.violation("interface-%s-throws" % k, "reading the externalized %s back as interface{} throws %s" % (k, a.get("throw")),
                          dict(rep, expected_any=exp_any))
            return
        d = L.compare(exp_any, a["ok"])
        if d is not None:
            if not d and js_has_unpaired_high(exp_js):
                d = ["internalize-string-unpaired-high-surrogate"]
            for sig in (d or ["interface-%s-not-as-documented" % k]):
                ctx.violation(sig, "%s -> JS -> interface{} is %s, the documentation table says %s" % (
                    k, json.dumps(a["ok"])[:200], json.dumps(exp_any)[:200]), dict(rep, expected_any=exp_any))


def oracle_int(ctx, c, res, stats):
    T, J = c["t"], c["j"]
    k = kind_of(T)
    rep = dict(kind="conversion", case=c, impl=res)
    try:
        exp = L.doc_int(T, J)
    except L.NotDocumented:
        return
    stats["oracle_int"] += 1
    g = res["go"]
    if "ok" not in g:
        if g.get("throw") == "EJsTypeError" and json.dumps(J).find("null") >= 0 and json.dumps(T).find('"ptr"') >= 0:
            sig = "roundtrip-nil-struct-pointer-typeerror"
        else:
            sig = "internalize-%s-throws" % k
        ctx.violation(sig, "JS -> Go (%s) throws %s; expected %s" % (k, g.get("throw"), json.dumps(exp)[:200]), dict(rep, expected_go=exp))
        return
    d = L.compare(exp, g["ok"])
    if d is not None:
        if not d and js_has_unpaired_high(J):
            d = ["internalize-string-unpaired-high-surrogate"]
        for sig in (d or ["internalize-%s-not-as-documented" % k]):
            ctx.violation(sig, "JS -> Go (%s): %s becomes %s, expected %s" % (k, json.dumps(J)[:160], json.dumps(g["ok"])[:160], json.dumps(exp)[:160]),
                          dict(rep, expected_go=exp))
        return
    # JS -> Go -> JS is the identity on well-formed strings
    if T == "string" and J is not None and "s" in J and L.utf16_wellformed(J["s"]):
        stats["oracle_utf16_roundtrip"] += 1
        f = res.get("fwd", {})
        if f.get("ok") != J:
            ctx.violation("utf16-roundtrip-not-identity", "well-formed UTF-16 %s comes back as %s" % (J["s"][:20], json.dumps(f)[:120]), rep)


# ---------------------------------------------------------------- model evaluation

PRELUDE_V = ("From Coq Require Import List ZArith.\nFrom Verif Require Import Model.C11_JsMapping Corr.C11_Eval.\n"
             "Import ListNotations.\nLocal Open Scope Z_scope.\n")


def model_cases_of(c, res):
    """the individual conversions observed in one driver result, as (label, coq term)"""
    out = []

    def add(label, mk):
        try:
            out.append((label, mk(), None))
        except L.Weird as w:
            out.append((label, None, str(w)))
    if c["op"] == "ext":
        T, V = c["t"], c["v"]
        add("js", lambda: "CExt %s %s %s" % (L.coq_type(T), L.coq_go(V), L.coq_res(res["js"], L.coq_js)))
        if "ok" in res["js"]:
            j = res["js"]["ok"]
            add("back", lambda: "CInt %s %s %s" % (L.coq_type(T), L.coq_js(j), L.coq_res(res["back"], L.coq_go)))
            add("any", lambda: "CInt TIface %s %s" % (L.coq_js(j), L.coq_res(res["any"], L.coq_go)))
    elif c["op"] == "int":
        T, J = c["t"], c["j"]
        add("go", lambda: "CInt %s %s %s" % (L.coq_type(T), L.coq_js(J), L.coq_res(res["go"], L.coq_go)))
        if "ok" in res["go"] and "fwd" in res:
            g = res["go"]["ok"]
            add("fwd", lambda: "CFwd %s %s %s %s" % (L.coq_type(T), L.coq_js(J), L.coq_go(g), L.coq_res(res["fwd"], L.coq_js)))
    elif c["op"] == "acc":
        add("acc", lambda: "CAcc %s %s %s" % (L.coq_type(c["t"]), L.coq_js(c["j"]), L.coq_res(res, L.coq_go)))
    return out


def eval_model(ctx, items, tag):
    """items: list of (origin, label, term). Returns (mismatch origins, abstain count)."""
    shards, cur, size = [], [], 0
    for it in items:
        cur.append(it)
        size += len(it[2])
        if len(cur) >= 1600 or size > 500000:
            shards.append(cur); cur, size = [], 0
    if cur:
        shards.append(cur)

    def run(k):
        p = os.path.join(ctx.work, "cases_%s_%d.v" % (tag, k))
        with open(p, "w") as f:
            f.write(PRELUDE_V)
            f.write("Definition cases : list case := [\n" + ";\n".join(it[2] for it in shards[k]) + "].\n")
            f.write("Definition V := Eval vm_compute in verdicts cases.\nPrint V.\n")
        rc, out = C.coq_run(p)
        if rc == 124:
            SKIPPED.append("Coq evaluation of a model shard timed out (skipped %d cases)" % len(shards[k]))
            return k, [3] * len(shards[k]), ""       # 3 = skipped (infrastructure), neither agreement nor abstention
        m = re.search(r"V\s*=\s*\[([^\]]*)\]", out.replace("\n", " "))
        if rc != 0 or not m:
            return k, None, out[-1200:]
        vs = [int(x) for x in re.findall(r"-?\d+", m.group(1))]
        if len(vs) != len(shards[k]):
            return k, None, "verdict count %d != %d" % (len(vs), len(shards[k]))
        return k, vs, ""

    mism, abst = [], 0
    for k, vs, err in C.parallel_map(run, range(len(shards))):
        if vs is None:
            ctx.violation("model-eval-failed", "Coq evaluation of the model failed", dict(shard=k, log=err), concrete=False)
            continue
        for it, v in zip(shards[k], vs):
            if v == 1:
                mism.append(it)
            elif v == 2:
                abst += 1
    return mism, abst


def conversions(ctx):
    r = ctx.rng("conversions")
    cases = boundary_cases(r)
    n_boundary = len(cases)
    scale = float(os.environ.get("C11_SCALE", "1"))
    cases += random_cases(r, int(scale * (10000 if ctx.quick else 100000)), int(scale * (2000 if ctx.quick else 20000)))
    ctx.log("conversion cases: %d" % len(cases))
    results = run_driver_sharded(cases)
    ctx.log("driver done")
    stats = dict(oracle_ext=0, oracle_roundtrip=0, oracle_table=0, oracle_int=0, oracle_utf16_roundtrip=0)
    items, kinds, maxdepth, conversions_n, outside = [], {}, 0, 0, []
    for idx, (c, res) in enumerate(zip(cases, results)):
        if "skipped" in res:
            continue
        if "driver_error" in res:
            ctx.violation("driver-error", "the node driver failed on a case: " + res["driver_error"][:300], dict(kind="conversion", case=c), concrete=False)
            continue
        ctx.count([c["op"], c["t"], c.get("v", c.get("j"))], nontrivial=nontrivial(c))
        kk = c["op"] + ":" + kind_of(c["t"])
        kinds[kk] = kinds.get(kk, 0) + 1
        if kind_of(c["t"]) not in L.BASIC:
            maxdepth = max(maxdepth, L.depth_of(c.get("v", c.get("j"))))
        if c["op"] == "ext":
            oracle_ext(ctx, c, res, stats)
            if res.get("shared") is False and isinstance(c["t"], list) and c["t"][0] == "slice" and L.isnat(c["t"][1]) \
                    and c["v"]["sl"]:
                ctx.violation("typed-array-not-shared", "a numeric slice is not passed as a view of its backing array", dict(kind="conversion", case=c, impl=res))
        else:
            oracle_int(ctx, c, res, stats)
        # quick tier: the direct oracle sees every random string, the model replays the boundary strings and a fixed 20% of the random ones
        if ctx.quick and idx >= n_boundary and c["t"] == "string" and idx % 10 >= 2:
            continue
        for label, term, weird in model_cases_of(c, res):
            conversions_n += 1
            if term is None:
                outside.append((idx, label, weird))
            else:
                items.append((idx, label, term))
        if idx % 2500 == 7:
            ctx.sample(dict(case=c, impl=res))
    ctx.log("oracle done, %d conversions to replay on the model" % len(items))
    mism, abst = eval_model(ctx, items, "conv")
    seen = set()
    for idx, label, term in mism:
        if idx in seen:
            continue
        seen.add(idx)
        c = cases[idx]
        ctx.violation("model-mismatch-%s-%s" % (c["op"], kind_of(c["t"])),
                      "model and real prelude disagree on a conversion (%s of %s; correspondence C11/%s broken)" % (
                          label, kind_of(c["t"]), "externalize" if label in ("js", "fwd") else "internalize"),
                      dict(kind="conversion", case=c, impl=results[idx], step=label, coq_case=term[:3000]), concrete=False)
    ctx.cov["conversion_cases"] = len(cases)
    ctx.cov["conversions_replayed_on_model"] = len(items)
    ctx.cov["model_abstained"] = abst
    ctx.cov["observations_outside_model_value_space"] = len(outside)
    if len(outside) > 0.03 * max(1, conversions_n):
        idx, label, weird = outside[0]
        ctx.violation("value-outside-model", "%d observed values are outside the model's value space, e.g. (%s) %s" % (len(outside), label, weird),
                      dict(kind="conversion", case=cases[idx], impl=results[idx]), concrete=False)
    ctx.cov["model_mismatches"] = len(mism)
    ctx.cov["oracle_checks"] = stats
    ctx.cov["cases_by_op_and_kind"] = kinds
    ctx.cov["max_nesting_depth"] = maxdepth
    if items and abst > 0.3 * len(items):
        ctx.violation("model-abstains-too-often", "the model abstained on %d of %d conversions" % (abst, len(items)), {}, concrete=False)



# ---------------------------------------------------------------- functions, wrapper cache, guard (real prelude vs model)

GUARD_TEXT = "cannot block in JavaScript callback, fix by wrapping code in goroutine"


def functions(ctx):
    r = ctx.rng("functions")
    n = 60 if ctx.quick else max(60, int(600 * float(os.environ.get("C11_SCALE", "1"))))
    cases = []
    for i in range(n):
        nf = r.randint(1, 4)
        seq = [r.choice([-1] + list(range(nf))) if r.random() < 0.9 else 0 for _ in range(r.randint(1, 10))]
        pt = r.choice(["float64", "int", "int8", "uint16", "string", "bool", "int64", "iface", ["slice", "int"], ["map", "string"],
                       ["struct", [["A", True, "int"], ["B", True, "string"]]]])
        rt = r.choice(["float64", "int", "string", "bool", "uint64", "iface", ["slice", "string"], ["map", "float64"],
                       ["struct", [["Name", True, "string"], ["X1", True, ["slice", "uint8"]]]]])
        cases.append(dict(op="func", n=nf, pt=pt, rt=rt, ret=L.gen_go(r, rt, 2), seq=seq, arg=L.gen_js_for_type(r, pt, 2)))
    for i in range(n):
        # a JS function as a variadic Go func, called with a spread of a slice that is (mostly) a sub-slice with non-zero offset
        vt = r.choice(["iface", "iface", "int", "string", "float64", "uint8", "bool"])
        fixed = [[t, L.gen_go(r, t, 1)] for t in r.sample(["string", "int", "bool"], r.choice([0, 0, 1, 2]))]
        mk = lambda: L.gen_go(r, vt, 2)
        cases.append(dict(op="jsfunc", f=r.randint(1, 9), vt=vt, fixed=fixed, args=[mk() for _ in range(r.randint(0, 4))],
                          pre=[mk() for _ in range(r.choice([0, 1, 1, 2, 3]))], post=[mk() for _ in range(r.choice([0, 0, 1, 2]))]))
    cases.append(dict(op="block"))
    results = run_driver_sharded(cases, shard=200)
    items, seqs = [], []
    for idx, (c, res) in enumerate(zip(cases, results)):
        rep = dict(kind="function", case=c, impl=res)
        if "skipped" in res:
            continue
        if "driver_error" in res:
            ctx.violation("driver-error", "the node driver failed on a case: " + res["driver_error"][:300], rep, concrete=False)
            continue
        ctx.count([c], nontrivial=True)
        if c["op"] == "func":
            # property, evaluated directly: same Go function <=> same JS function; nil func <=> null
            want, seen = [], {}
            for k in c["seq"]:
                if k < 0:
                    want.append(None)
                else:
                    seen.setdefault(k, len(seen))
                    want.append(seen[k])
            if res["ids"] != want:
                ctx.violation("wrapper-identity", "externalizing Go functions %r gives JS function identities %r, expected %r" % (c["seq"], res["ids"], want), rep)
            if not (res["viaIface"] and res["direct"]):
                ctx.violation("wrapper-identity-paths", "the same Go function externalizes to different JS functions through interface{} / $externalizeFunction", rep)
            seqs.append((idx, c["seq"], res["ids"]))
            # argument and result conversion of the exposed function
            if res["result"] is not None and "ok" in res["result"] and len(res["calls"]) == 1:
                try:
                    exp = L.doc_int(c["pt"], c["arg"])
                    d = L.compare(exp, res["calls"][0])
                    if d is not None:
                        if not d and js_has_unpaired_high(c["arg"]):
                            d = ["internalize-string-unpaired-high-surrogate"]
                        for sig in (d or ["exposed-function-argument-not-converted"]):
                            ctx.violation(sig, "an exposed Go function receives %s for the JS argument %s, expected %s" % (
                                json.dumps(res["calls"][0])[:150], json.dumps(c["arg"])[:150], json.dumps(exp)[:150]), rep)
                except L.NotDocumented:
                    pass
                try:
                    exp = L.doc_ext(c["rt"], c["ret"])
                    if L.canon(exp) != L.canon(res["result"]["ok"]):
                        ctx.violation("exposed-function-result-not-converted", "an exposed Go function's result %s arrives as %s, expected %s" % (
                            json.dumps(c["ret"])[:150], json.dumps(res["result"]["ok"])[:150], json.dumps(exp)[:150]), rep)
                except L.NotDocumented:
                    pass
                try:
                    items.append((idx, "arg", "CInt %s %s (Ok %s)" % (L.coq_type(c["pt"]), L.coq_js(c["arg"]), L.coq_go(res["calls"][0]))))
                    items.append((idx, "result", "CExt %s %s (Ok %s)" % (L.coq_type(c["rt"]), L.coq_go(c["ret"]), L.coq_js(res["result"]["ok"]))))
                except L.Weird:
                    pass
        elif c["op"] == "jsfunc":
            if res["fn"] != c["f"]:
                ctx.violation("js-function-as-go-func", "calling the Go func made from JS function %d called %r" % (c["f"], res["fn"]), rep)
            sent = [(t, v) for t, v in c["fixed"]] + [(c["vt"], a) for a in c["args"]]
            if len(res["args"]) != len(sent):
                ctx.violation("js-function-argument-count", "a JS function called through its Go func with %d arguments (spread of a slice at offset %d) receives %d" % (
                    len(sent), len(c["pre"]), len(res["args"])), rep)
            for (t, a), got in zip(sent, res["args"]):
                try:
                    exp = L.doc_ext(t, a)
                    if L.canon(exp) != L.canon(got):
                        ctx.violation("js-function-argument-not-converted", "Go argument %s (spread of a slice at offset %d) arrives in JS as %s, expected %s" % (
                            json.dumps(a)[:150], len(c["pre"]), json.dumps(got)[:150], json.dumps(exp)[:150]), rep)
                        break
                except L.NotDocumented:
                    pass
                try:
                    items.append((idx, "jsarg", "CExt %s %s (Ok %s)" % (L.coq_type(t), L.coq_go(a), L.coq_js(got))))
                except L.Weird:
                    pass
        else:
            ok = res["thrown"] == "runtime error: " + GUARD_TEXT and res["before"] == res["after"] and res["thrown2"] is None and res["asleep2"] is True
            if not ok:
                ctx.violation("callback-guard", "$block outside a goroutine must throw %r and leave the scheduler state unchanged; inside one it must put it to sleep: %s" % (
                    GUARD_TEXT, json.dumps(res)), rep)
            ctx.cov["guard_observed"] = res
    mism, abst = eval_model(ctx, items, "fn")
    for idx, label, term in mism:
        ctx.violation("model-mismatch-function-%s" % label, "model and real prelude disagree on the %s conversion of an exposed function" % label,
                      dict(kind="function", case=cases[idx], impl=results[idx], coq_case=term[:2000]), concrete=False)
    # wrapper cache and guard on the model
    p = os.path.join(ctx.work, "cases_wrappers.v")
    with open(p, "w") as f:
        f.write(PRELUDE_V)
        f.write("Definition seqs : list (list (option Z) * list jsval) := [\n" + ";\n".join(
            "([%s],[%s])" % (";".join("None" if k < 0 else "(Some %d)" % (100 + k) for k in seq),
                             ";".join("JNull" if i is None else "(JFun %d)" % i for i in ids)) for _, seq, ids in seqs) + "].\n")
        f.write("Definition W := Eval vm_compute in map (fun c => if list_eqb jsval_eqb (run_externalize_functions {| wrappers := []; next_js := 0 |} (fst c)) (snd c) then 0 else 1) seqs.\nPrint W.\n")
        f.write("Definition B := Eval vm_compute in (match block {| cur := None; asleep := [7]; queue := [8] |} with GuardError s => (match cur s with None => 0 | _ => 1 end, asleep s, queue s) | Blocked _ => (2, [], []) end, "
                "match block {| cur := Some 5; asleep := []; queue := [] |} with Blocked s => asleep s | GuardError _ => [] end).\nPrint B.\n")
    rc, out = C.coq_run(p)
    if rc == 124:
        SKIPPED.append("Coq evaluation of the wrapper-cache model timed out (skipped)")
        return
    flat = out.replace("\n", " ")
    m = re.search(r"W\s*=\s*\[([^\]]*)\]", flat)
    mb = re.search(r"B\s*=\s*\(0,\s*\[7\],\s*\[8\],\s*\[5\]\)", flat)
    if rc != 0 or not m or not mb:
        ctx.violation("model-eval-failed", "Coq evaluation of the wrapper-cache / guard model failed or disagrees", dict(log=out[-1500:]), concrete=False)
    else:
        vs = [int(x) for x in re.findall(r"\d+", m.group(1))]
        for (idx, seq, ids), v in zip(seqs, vs):
            if v != 0:
                ctx.violation("model-mismatch-wrapper-cache", "model and $externalizeFunction disagree on wrapper identities for %r" % seq,
                              dict(kind="function", case=cases[idx], impl=results[idx]), concrete=False)
    ctx.cov["function_cases"] = len(cases)
    ctx.cov["function_conversions_replayed_on_model"] = len(items)


# ---------------------------------------------------------------- compiled programs

ACCESSORS = ["Int", "Int64", "Uint64", "Float", "Bool", "String", "Interface", "Length"]
ACC_TYPE = {"Int": "int", "Int64": "int64", "Uint64": "uint64", "Float": "float64", "Bool": "bool", "String": "string", "Interface": "iface"}
SET_PATHS = ["set", "setdyn", "setindex", "call", "calldyn", "invoke", "new", "callspread", "invokespread"]
EXPOSED = ["float64", "int", "uint8", "int16", "string", "bool", "int64", "uint64"]
TAG_FIELDS = [("S", "s", "string"), ("N", "n", "int"), ("F", "f", "float64"), ("B", "b", "bool"), ("I64", "i64", "int64"),
              ("U8", "u8", "uint8"), ("I16", "i16", "int16"), ("U32", "u32", "uint32"), ("F32", "f32", "float32")]


def go_printable_type(T):
    """types whose values the program generator can write as Go source"""
    if isinstance(T, str):
        return T not in ("ifacem", "funcany", "jsobj", "iface")
    if T[0] == "struct":
        return all(f[0] != "Object" and go_printable_type(f[2]) for f in T[1]) and len(T[1]) > 0
    if T[0] == "array":
        return go_printable_type(T[2])
    return go_printable_type(T[1])


def observe_src(acc, expr):
    """Go expression (string) printing the observation of accessor acc on *js.Object expression expr"""
    return {"Int": "itoa(uint32(%s.Int()))", "Int64": "i64s(uint64(%s.Int64()))", "Uint64": "i64s(%s.Uint64())", "Float": "fbits(%s.Float())",
            "Bool": "b01(%s.Bool())", "String": "hexs(%s.String())", "Interface": "ifaceTag(%s.Interface())", "Length": "itoa(uint32(%s.Length()))"}[acc] % expr


def typed_observe_src(T, expr):
    return {"float64": "fbits(%s)", "float32": "fbits(float64(%s))", "int": "itoa(uint32(%s))", "uint8": "itoa(uint32(%s))", "int16": "itoa(uint32(%s))",
            "uint32": "itoa(uint32(%s))", "string": "hexs(%s)", "bool": "b01(%s)", "int64": "i64s(uint64(%s))", "uint64": "i64s(%s)"}[T] % expr


def parse_obs(T, text):
    """observation text -> G value"""
    if T in ("int", "uint8", "int16", "uint32"):
        v = int(text)
        lo, hi = L.INT_RANGE[T]
        if v > hi:
            v -= 2**32
        return {"n": "i%d" % v}
    if T in ("int64", "uint64"):
        h, l = [int(x) for x in text.split(":")]
        if T == "int64" and h >= 2**31:
            h -= 2**32
        return {"h": h, "l": l}
    if T in ("float64", "float32"):
        h, l = [int(x) for x in text.split(":")]
        return {"n": L.num_from_bits(h, l)}
    if T == "bool":
        return {"b": text == "1"}
    if T == "string":
        return {"s": list(bytes.fromhex(text[1:]))}
    raise ValueError(T)


def parse_iface_tag(text):
    """ifaceTag output -> (G value or None when only the type is known, type)"""
    if text == "nil":
        return {"i": None}, None
    k, _, rest = text.partition(":")
    if k in ("bool", "float64", "string"):
        return {"i": {"t": k, "v": parse_obs(k, rest)}}, k
    if k == "func":
        return None, "funcany"
    if k == "*js.Object":
        return None, "jsobj"
    if k == "[]interface {}":
        return None, ["slice", "iface"]
    if k == "map[string]interface {}":
        return None, ["map", "iface"]
    if k.startswith("[]"):
        return None, ["slice", k[2:]]
    return None, "other"


METH_DECLS = """
type Meth struct {
	*js.Object
	N   int                                      `js:"n"`
	Inc func(by int) int                         `js:"inc"`
	Who func() string                            `js:"who"`
	Add func(xs ...int) int                      `js:"add"`
	Cat func(sep string, parts ...string) string `js:"cat"`
}

type OuterM struct {
	Meth
	extra int
}

func applyInt(f func(int) int, x int) int        { return f(x) }
func applyStr(f func() string) string            { return f() }
func applyVar(f func(...int) int, xs []int) int { return f(xs...) }
"""
METH_FACTORY = ("(function(n, tag){ return {n: n, tag: tag, inc: function(by){ this.n += by; return this.n; }, "
                "who: function(){ return this.tag + ':' + this.n; }, "
                "add: function(){ var s = this.n; for (var i = 0; i < arguments.length; i++) s += arguments[i]; return s; }, "
                "cat: function(sep){ return this.tag + Array.prototype.slice.call(arguments, 1).join(sep); } }; })")


def gen_program(r, pidx, quick):
    nA, nB, nC, nD = (40, 30, 24, 6) if quick else (60, 45, 36, 8)
    nM, nV = (4, 8) if quick else (6, 12)
    lines = ["package main", "", 'import (', '\t"math"', '', '\t"github.com/gopherjs/gopherjs/js"', ')', "", "var _ = math.Pi", L.GO_HELPERS]
    meta = dict(A=[], B=[], C=[], D=[], M=[], V=[])
    body = ['\tev(%s)' % L.go_src_lit(" ".join(L.JS_PROBE.split()))]
    # A: accessors on JS values
    for i in range(nA):
        acc = r.choice(ACCESSORS)
        if acc == "Length":
            J = r.choice([{"a": [L.gen_js(r, 0) for _ in range(r.randint(0, 5))]}, {"s": L.gen_js_string(r)},
                          {"ta": "Uint8Array", "v": ["i%d" % r.randint(0, 255) for _ in range(r.randint(0, 4))]}])
        elif acc == "Interface":
            J = L.gen_js(r, 2)
        else:
            J = L.gen_js_for_type(r, ACC_TYPE[acc], 1) if r.random() < 0.7 else L.gen_js(r, 1)
        meta["A"].append(dict(acc=acc, j=J))
        body.append('\tprintln("A", %d, %s)' % (i, observe_src(acc, "ev(%s)" % L.go_src_lit("(" + L.js_src(J) + ")"))))
    # B: Go values through every setter / call path, probed on the JS side
    body.append('\to := js.Global.Get("Object").New()')
    body.append('\tarr := js.Global.Get("Array").New(3)')
    body.append('\tholder := js.Global.Get("__holder")')
    body.append('\tidf := js.Global.Get("__id")')
    body.append('\tctor := js.Global.Get("__Ctor")')
    body.append('\tdyn := "p" + itoa(7)')
    body.append('\tdynid := "i" + "d"')
    n_rc = [0]
    body.append('\t_, _, _, _, _, _, _ = o, arr, holder, idf, ctor, dyn, dynid')
    for i in range(nB):
        while True:
            T = L.gen_type(r, 2) if r.random() < 0.7 else r.choice(L.BASIC)
            if go_printable_type(T):
                break
        V = L.gen_go(r, T, 2)
        path = r.choice(SET_PATHS)
        src = L.go_value_src(T, V)
        if path in ("callspread", "invokespread"):
            # a []interface{} spread: every element is externalized as interface{}
            V = {"sl": [{"i": {"t": T, "v": V}}]}
            T = ["slice", "iface"]
            src = "[]interface{}{%s}" % src
        meta["B"].append(dict(path=path, t=T, v=V))
        pr = {"set": 'rc(o).Set("q", %s); println("B", %d, ser(rc(o).Get("q")))',
              "setdyn": 'rc(o).Set(dyn, %s); println("B", %d, ser(rc(o).Get(dyn)))',
              "setindex": 'rc(arr).SetIndex(1, %s); println("B", %d, ser(rc(arr).Index(1)))',
              "call": 'println("B", %d, ser(rc(holder).Call("id", %s)))',
              "calldyn": 'println("B", %d, ser(rc(holder).Call(dynid, %s)))',
              "invoke": 'println("B", %d, ser(rc(idf).Invoke(%s)))',
              "new": 'println("B", %d, rc(rc(ctor).New(%s).Get("s")).String())',
              "callspread": 'println("B", %d, ser(rc(holder).Call("id", %s...)))',
              "invokespread": 'println("B", %d, ser(rc(idf).Invoke(%s...)))'}[path]
        n_rc[0] += pr.count("rc(")
        if path in ("set", "setdyn", "setindex"):
            body.append("\t" + pr % (src, i))
        else:
            body.append("\t" + pr % (i, src))
    # C: exposed Go functions receive converted arguments and return converted results
    for T in EXPOSED:
        obs_src = "fbits(float64(x))" if T in ("int", "uint8", "int16") else typed_observe_src(T, "x")
        body.append('\tjs.Global.Set("gf_%s", func(x %s) %s { println("C", cidx, %s); return x })' % (T, T, T, obs_src))
    lines.append("var cidx = 0")
    for i in range(nC):
        T = r.choice(EXPOSED)
        J = L.gen_js_for_type(r, T, 1)
        meta["C"].append(dict(t=T, j=J))
        body.append('\tcidx = %d; println("R", %d, ser(ev(%s)))' % (i, i, L.go_src_lit("gf_%s(%s)" % (T, L.js_src(J)))))
    # D: struct wrapping *js.Object with js-tagged fields
    lines.append("type Tagged struct {\n\t*js.Object\n" + "".join('\t%s %s `js:"%s"`\n' % (f, t, tag) for f, tag, t in TAG_FIELDS) + "}")
    for i in range(nD):
        body.append('\t{ t := &Tagged{Object: js.Global.Get("Object").New()}')
        wr, rd = [], []
        for f, tag, t in TAG_FIELDS:
            V = L.gen_go(r, t)
            wr.append(dict(tag=tag, t=t, v=V))
            body.append("\t  t.%s = %s" % (f, L.go_value_src(t, V)))
        body.append('\t  println("DW", %d, ser(t.Object))' % i)
        obj = []
        for f, tag, t in TAG_FIELDS:
            J = L.gen_js_for_type(r, t, 1)
            rd.append(dict(tag=tag, t=t, j=J))
            obj.append([[ord(c) for c in tag], J])
        body.append('\t  t.Object = ev(%s)' % L.go_src_lit("(" + L.js_src({"o": obj}) + ")"))
        for k, (f, tag, t) in enumerate(TAG_FIELDS):
            body.append('\t  println("DR", %d, %d, %s)' % (i, k, typed_observe_src(t, "t." + f)))
        body.append("\t}")
        meta["D"].append(dict(write=wr, read=rd))
    # M: js-tagged FUNC fields (JS methods using `this`) called in place, as values, passed along, through a promoted field;
    #    variadic ones with spreads of sub-slices; V: a JS function read through Interface() called with sub-slice spreads
    lines.append(METH_DECLS)
    body.append('\tmk := ev(%s)' % L.go_src_lit(METH_FACTORY))
    body.append('\tshow := ev(%s).Interface().(func(...interface{}) *js.Object)' % L.go_src_lit("(function(){ return __ser(Array.prototype.slice.call(arguments)); })"))
    n_extra_ev = 2
    mi = 0
    for k in range(nM):
        n0 = r.randint(0, 50)
        tag = "".join(r.choice("abcxyzQR") for _ in range(r.randint(1, 4)))
        xs = [r.randint(0, 900) for _ in range(r.randint(2, 6))]
        ws = ["".join(r.choice("pqrstuv") for _ in range(r.randint(1, 3))) for _ in range(r.randint(2, 5))]
        body.append('\t{ m := &Meth{Object: mk.Invoke(%d, "%s")}; o := &OuterM{Meth: Meth{Object: m.Object}}; xs := []int{%s}; ws := []string{%s}; _, _, _, _ = m, o, xs, ws' % (
            n0, tag, ", ".join(map(str, xs)), ", ".join('"%s"' % w for w in ws)))
        n = n0
        for _ in range(r.randint(6, 10)):
            recv = r.choice(["m", "o"])
            op = r.choice(["inc", "inc", "who", "add", "add", "cat", "n"])
            use = r.choice(["inplace", "value", "passed"])
            mode = op + "-" + use + ("-promoted" if recv == "o" else "")
            if op == "inc":
                by = r.randint(1, 30)
                n += by
                expr = {"inplace": "%s.Inc(%d)" % (recv, by), "value": "func() int { f := %s.Inc; return f(%d) }()" % (recv, by),
                        "passed": "applyInt(%s.Inc, %d)" % (recv, by)}[use]
                body.append('\t  println("M", %d, itoa(uint32(%s)))' % (mi, expr)); want = str(n)
            elif op == "who":
                expr = {"inplace": "%s.Who()" % recv, "value": "func() string { f := %s.Who; return f() }()" % recv, "passed": "applyStr(%s.Who)" % recv}[use]
                body.append('\t  println("M", %d, hexs(%s))' % (mi, expr)); want = "x" + ("%s:%d" % (tag, n)).encode().hex()
            elif op == "add":
                lo = r.randint(0, len(xs)); hi = r.randint(lo, len(xs))
                spread = r.random() < 0.7
                args, tot = ("xs[%d:%d]..." % (lo, hi), sum(xs[lo:hi])) if spread else (", ".join(map(str, xs[lo:hi])), sum(xs[lo:hi]))
                if use == "inplace" and spread:
                    mode = "add-inplace-spread" + ("-promoted" if recv == "o" else "")
                expr = {"inplace": "%s.Add(%s)" % (recv, args), "value": "func() int { f := %s.Add; return f(%s) }()" % (recv, args),
                        "passed": "applyVar(%s.Add, xs[%d:%d])" % (recv, lo, hi)}[use]
                body.append('\t  println("M", %d, itoa(uint32(%s)))' % (mi, expr)); want = str(n + tot)
            elif op == "cat":
                lo = r.randint(0, len(ws)); hi = r.randint(lo, len(ws))
                expr = "func() string { f := %s.Cat; return f(\"-\", ws[%d:%d]...) }()" % (recv, lo, hi)
                mode = "cat-value" + ("-promoted" if recv == "o" else "")
                body.append('\t  println("M", %d, hexs(%s))' % (mi, expr)); want = "x" + (tag + "-".join(ws[lo:hi])).encode().hex()
            else:
                body.append('\t  println("M", %d, itoa(uint32(%s.N)))' % (mi, recv)); want = str(n); mode = "n-read" + ("-promoted" if recv == "o" else "")
            meta["M"].append(dict(mode=mode, want=want))
            mi += 1
        body.append("\t}")
    for k in range(nV):
        vals = [L.gen_go(r, "iface", 1) for _ in range(r.randint(2, 6))]
        vals = [v if (v["i"] is None or go_printable_type(v["i"]["t"])) else {"i": None} for v in vals]
        lo = r.randint(0, len(vals)); hi = r.randint(lo, len(vals))
        body.append('\t{ vs := []interface{}{%s}; println("V", %d, show(vs[%d:%d]...).String()) }' % (
            ", ".join(L.go_value_src("iface", v) for v in vals), k, lo, hi))
        meta["V"].append(dict(vals=vals[lo:hi], lo=lo))
    # receivers with other accessors, and the evaluation counts
    body.append('\trc(o).Set("gone", 1); rc(o).Delete("gone"); println("X", b01(rc(o).Get("gone") == js.Undefined), rc(arr).Length(), b01(rc(rc(o).Get("nothing")).Bool()))')
    n_rc[0] += 6
    meta["n_ev"] = 1 + nA + nC + nD + n_extra_ev    # probe installation, one eval per A / C / D case, the M / V factories
    meta["n_rc"] = n_rc[0]
    body.append('\tprintln("N", nev, nrc)')
    lines.append("func main() {\n" + "\n".join(body) + "\n}")
    return "\n".join(lines) + "\n", meta


FINDING_EXPECT = {"negzero-interface": ("-Infinity", "internalize-float-negative-zero-sign-lost"),
                  "negzero-param": ("-Infinity", "internalize-float-negative-zero-sign-lost"),
                  "negzero-accessor": ("-Infinity", None),
                  "high-surrogate": ("4 239 191 189", "internalize-string-unpaired-high-surrogate"),
                  "nil-map": ("true", "roundtrip-nil-map-becomes-empty-map"),
                  "nil-ptr": ("true", "roundtrip-nil-struct-pointer-typeerror")}
FIXED_CHECKS = ["same-func-same-wrapper", "diff-func-diff-wrapper", "wrapper-converts", "closures-distinct", "nil-func-null", "makefunc-this-args",
                "wrapper-method", "wrapper-unexported-hidden", "wrapper-internal-object", "delete", "undefined-global", "null-is-nil", "keys",
                "js-error", "tag-set", "tag-func-call", "tag-read"]


def fixed_program(ctx):
    import c11_fixed
    src = c11_fixed.SOURCE
    d = os.path.join(ctx.work, "fixed")
    C.write_go_program(d, {"main.go": src}, module="verifc11")
    for minify in (False, True):
        rep = dict(kind="program", source=src, minify=minify)
        rc, log = C.gopherjs_build(d, minify=minify, timeout=900)
        if rc == 124 or "[timeout" in log:
            SKIPPED.append("gopherjs build of the fixed program timed out (skipped)")
            continue
        if rc != 0:
            ctx.violation("program-build-failed", "gopherjs build failed on the fixed witness program", dict(rep, log=log[-800:]), concrete=False)
            return
        rc, out, err = C.run_node(os.path.join(d, "out.js"), cwd=d, timeout=600)
        if rc == 124:
            SKIPPED.append("the fixed program timed out in node (skipped)")
            continue
        lines = (out + "\n" + err).split("\n")
        got = {}
        for l in lines:
            p = l.split(" ")
            if p[0] == "E" and len(p) == 3:
                got["E:" + p[1]] = p[2]
            elif p[0] == "F":
                got["F:" + p[1]] = " ".join(p[2:])
            elif p[0] in ("G", "G2"):
                got[p[0]] = " ".join(p[1:])
        for name in FIXED_CHECKS:
            ctx.count(["fixed", name, minify])
            if got.get("E:" + name) != "ok":
                ctx.violation("program-" + name, "self-checking program: check %r reports %r (exit %d)" % (name, got.get("E:" + name), rc), dict(rep, output=(out + err)[-1500:]))
        for name, (want, sig) in FINDING_EXPECT.items():
            ctx.count(["finding", name, minify])
            if got.get("F:" + name) != want:
                ctx.violation(sig or ("program-" + name), "compiled program, %s: observed %r, the property requires %r" % (name, got.get("F:" + name), want),
                              dict(rep, witness=name, observed=got.get("F:" + name), required=want))
        ctx.count(["guard", minify])
        if got.get("G") != "runtime error: " + GUARD_TEXT or got.get("G2") != "42":
            ctx.violation("callback-guard-program", "a JS callback calling a blocking Go function must fail with the documented error and leave the scheduler usable; got %r / %r" % (
                got.get("G"), got.get("G2")), dict(rep, output=(out + err)[-1500:]))
    ctx.cov["fixed_program_checks"] = 2 * (len(FIXED_CHECKS) + len(FINDING_EXPECT) + 1)


def check_program(ctx, pidx, src, meta, items, stats):
    d = os.path.join(ctx.work, "prog%d" % pidx)
    C.write_go_program(d, {"main.go": src}, module="verifc11")
    minify = pidx % 3 == 2
    rep = dict(kind="program", source=src, minify=minify)
    rc, log = C.gopherjs_build(d, minify=minify, timeout=900)
    if rc == 124 or "[timeout" in log:
        SKIPPED.append("gopherjs build of generated program %d timed out (skipped)" % pidx)
        return
    if rc != 0:
        ctx.violation("program-build-failed", "gopherjs build failed on a generated program", dict(rep, log=log[-1200:]), concrete=False)
        return
    rc, out, err = C.run_node(os.path.join(d, "out.js"), cwd=d, timeout=600)
    if rc == 124:
        SKIPPED.append("generated program %d timed out in node (skipped)" % pidx)
        return
    obs = {}
    for l in (out + "\n" + err).split("\n"):
        p = l.split(" ")
        if p[0] == "N" and len(p) == 3:
            obs["N"] = (p[1], p[2])
        elif p[0] == "X":
            obs["X"] = " ".join(p[1:])
        elif p[0] in ("A", "B", "C", "R", "DW", "M", "V") and len(p) >= 3:
            obs[(p[0], int(p[1]))] = " ".join(p[2:])
        elif p[0] == "DR" and len(p) >= 4:
            obs[("DR", int(p[1]), int(p[2]))] = p[3]
    if rc != 0:
        ctx.violation("program-crashed", "a generated program exited with status %d: %s" % (rc, err[-300:]), dict(rep, output=(out + err)[-1500:]), concrete=False)
        return

    def viol(sig, what, extra):
        ctx.violation(sig, what, dict(rep, **extra))

    def check_int(T, J, G, where, acc_path):
        """oracle + model for a JS -> Go observation"""
        stats["program_observations"] += 1
        try:
            if acc_path and T in ("float64", "float32"):
                exp = L.doc_int(T, J)                       # $parseFloat keeps -0: same expectation, no finding
            else:
                exp = L.doc_int(T, J)
            d_ = L.compare(exp, G)
            if d_ is not None:
                if not d_ and js_has_unpaired_high(J):
                    d_ = ["internalize-string-unpaired-high-surrogate"]
                for sig in (d_ or ["program-%s-%s-not-as-documented" % (re.sub(r"^([A-Z])\d+", r"\1", where).replace("/", "-"), T if isinstance(T, str) else T[0])]):
                    viol(sig, "compiled program (%s): JS %s read as %s gives %s, expected %s" % (where, json.dumps(J)[:120], T, json.dumps(G)[:120], json.dumps(exp)[:120]),
                         dict(j=J, got=G, expected=exp))
        except L.NotDocumented:
            pass
        try:
            items.append(((pidx, where), "prog", "%s %s %s (Ok %s)" % ("CAcc" if acc_path else "CInt", L.coq_type(T), L.coq_js(J), L.coq_go(G))))
        except L.Weird:
            pass

    def check_ext(T, V, Jtext, where):
        stats["program_observations"] += 1
        try:
            J = json.loads(Jtext)
        except ValueError:
            viol("program-probe-unreadable", "JS-side probe output unreadable in %s: %r" % (where, Jtext[:100]), {})
            return
        try:
            exp = L.doc_ext(T, V)
            if L.canon(exp) != L.canon(J):
                viol("program-%s-%s-not-as-documented" % (re.sub(r"^([A-Z])\d+", r"\1", where).replace("/", "-"), T if isinstance(T, str) else T[0]),
                     "compiled program (%s): Go %s arrives in JS as %s, expected %s" % (where, json.dumps(V)[:120], json.dumps(J)[:120], json.dumps(exp)[:120]),
                     dict(t=T, v=V, got=J, expected=exp))
        except L.NotDocumented:
            pass
        try:
            items.append(((pidx, where), "prog", "CExt %s %s (Ok %s)" % (L.coq_type(T), L.coq_go(V), L.coq_js(J))))
        except L.Weird:
            pass

    ctx.count(["receivers", pidx])
    if obs.get("N") != (str(meta["n_ev"]), str(meta["n_rc"])):
        viol("program-receiver-evaluation-count", "receiver expressions of js.Object methods were evaluated %r times, the program text evaluates them %r times "
             "(each receiver must be evaluated exactly once)" % (obs.get("N"), (meta["n_ev"], meta["n_rc"])), dict(output=(out + err)[-600:]))
    if obs.get("X") != "1 3 0":
        viol("program-delete-length", "Delete / Length / Bool on counted receivers give %r, expected '1 3 0'" % (obs.get("X"),), {})
    for i, a in enumerate(meta["A"]):
        text = obs.get(("A", i))
        ctx.count(["A", a])
        if text is None:
            viol("program-observation-missing", "no output for accessor case A %d (%s)" % (i, a["acc"]), dict(case=a, output=(out + err)[-800:]))
            continue
        acc, J = a["acc"], a["j"]
        if acc == "Length":
            n = len(J.get("a", J.get("s", J.get("v", []))))
            stats["program_observations"] += 1
            if int(text) != n:
                viol("program-length", "Length() of %s is %s" % (json.dumps(J)[:100], text), dict(case=a))
        elif acc == "Bool":
            stats["program_observations"] += 1
            if (text == "1") != L.js_truthy(J):
                viol("program-bool", "Bool() of %s is %s" % (json.dumps(J)[:100], text), dict(case=a))
            items.append(((pidx, "A%d" % i), "prog", "CAcc (TB KBool) %s (Ok (GBool %s))" % (L.coq_js(J), "true" if text == "1" else "false")))
        elif acc == "Interface":
            G, ty = parse_iface_tag(text)
            if G is not None:
                check_int("iface", J, G, "A%d/Interface" % i, False)
            else:
                stats["program_observations"] += 1
                try:
                    exp = L.doc_int_any(J)
                    et = exp["i"]["t"] if exp["i"] else None
                    if et != ty:
                        viol("program-interface-type", "Interface() of %s has Go type %s, the table says %s" % (json.dumps(J)[:100], ty, et), dict(case=a))
                except L.NotDocumented:
                    pass
        else:
            check_int(ACC_TYPE[acc], J, parse_obs(ACC_TYPE[acc], text), "A%d/%s" % (i, acc), True)
    for i, b in enumerate(meta["B"]):
        text = obs.get(("B", i))
        ctx.count(["B", b])
        if text is None:
            viol("program-observation-missing", "no output for setter case B %d (%s)" % (i, b["path"]), dict(case=b, output=(out + err)[-800:]))
            continue
        if b["path"] in ("callspread", "invokespread"):
            # the spread slice arrives as the argument list: the probe sees its single element
            check_ext(b["v"]["sl"][0]["i"]["t"], b["v"]["sl"][0]["i"]["v"], text, "B%d/%s" % (i, b["path"]))
        else:
            check_ext(b["t"], b["v"], text, "B%d/%s" % (i, b["path"]))
    for i, c in enumerate(meta["C"]):
        ctx.count(["C", c])
        t1, t2 = obs.get(("C", i)), obs.get(("R", i))
        if t1 is None or t2 is None:
            viol("program-observation-missing", "no output for exposed-function case C %d" % i, dict(case=c, output=(out + err)[-800:]))
            continue
        G = parse_obs("float64" if c["t"] in ("int", "uint8", "int16") else c["t"], t1)
        check_int(c["t"], c["j"], G, "C%d/param" % i, False)
        try:
            # the printed parameter is lossy outside the documented domain (an int holding NaN prints as 0)
            if L.compare(L.doc_int(c["t"], c["j"]), G) is None:
                check_ext(c["t"], G, t2, "C%d/result" % i)
        except L.NotDocumented:
            pass
    for i, mc in enumerate(meta["M"]):
        ctx.count(["M", pidx, i, mc])
        stats["program_observations"] += 1
        got = obs.get(("M", i))
        if got is None:
            viol("program-observation-missing", "no output for tagged-func-field case M %d (%s)" % (i, mc["mode"]), dict(case=mc, output=(out + err)[-800:]))
            break
        if got != mc["want"]:
            if mc["mode"].startswith("add-inplace-spread"):
                sig = "program-tagged-variadic-field-inplace-spread"
            else:
                sig = "program-tagged-func-field-" + mc["mode"]
            viol(sig, "js-tagged func field used as %s: the JS method (which uses `this`) returned %s, expected %s" % (mc["mode"], got, mc["want"]), dict(case=mc))
            if not mc["mode"].startswith("add-inplace-spread"):
                break           # the JS object's state is off from here on
    for i, vc in enumerate(meta["V"]):
        ctx.count(["V", pidx, i, vc])
        text = obs.get(("V", i))
        if text is None:
            viol("program-observation-missing", "no output for variadic spread case V %d" % i, dict(case=vc, output=(out + err)[-800:]))
            continue
        check_ext(["slice", "iface"], {"sl": vc["vals"]}, json.dumps({"a": json.loads(text)["a"]}) if text.startswith("{") else text, "V%d/spread-offset" % i)
    for i, dcase in enumerate(meta["D"]):
        ctx.count(["D", dcase])
        tw = obs.get(("DW", i))
        if tw is None:
            viol("program-observation-missing", "no output for tagged-struct case D %d" % i, dict(output=(out + err)[-800:]))
            continue
        try:
            got = {tuple(k): v for k, v in json.loads(tw)["o"]}
        except (ValueError, KeyError, TypeError):
            viol("program-probe-unreadable", "JS-side probe output unreadable in D%d" % i, {})
            continue
        for w in dcase["write"]:
            j = got.get(tuple(ord(ch) for ch in w["tag"]))
            check_ext(w["t"], w["v"], json.dumps(j), "D%d/write-%s" % (i, w["tag"]))
        for k, rd in enumerate(dcase["read"]):
            text = obs.get(("DR", i, k))
            if text is None:
                viol("program-observation-missing", "no output for tagged-field read D %d.%d" % (i, k), {})
                continue
            check_int(rd["t"], rd["j"], parse_obs(rd["t"], text), "D%d/read-%s" % (i, rd["tag"]), True)


def programs(ctx):
    fixed_program(ctx)
    ctx.log("fixed program done")
    r = ctx.rng("programs")
    n = 12 if ctx.quick else max(3, int(60 * float(os.environ.get("C11_SCALE", "1"))))
    progs = [gen_program(r, i, ctx.quick) for i in range(n)]
    items, stats = [], dict(program_observations=0)
    all_items = [[] for _ in range(n)]

    def one(i):
        check_program(ctx, i, progs[i][0], progs[i][1], all_items[i], stats)
        return i
    C.parallel_map(one, range(n))
    for l in all_items:
        items += l
    mism, abst = eval_model(ctx, items, "prog")
    for (pidx, where), label, term in mism:
        ctx.violation("model-mismatch-program", "model and compiled program disagree at %s (correspondence C11/%s broken)" % (
            where, "compiled_internalize" if term.startswith("CAcc") else "externalize/internalize"),
                      dict(kind="program", source=progs[pidx][0], where=where, coq_case=term[:2000]), concrete=False)
    ctx.sample(dict(kind="program", source=progs[0][0][:3000]))
    ctx.cov["programs"] = n + 2
    ctx.cov["program_observations"] = stats["program_observations"]
    ctx.cov["program_observations_replayed_on_model"] = len(items)
    ctx.cov["program_model_abstained"] = abst


def correspond(ctx):
    del SKIPPED[:]
    try:
        correspond1(ctx)
    finally:
        ctx.notes.extend(SKIPPED)


def correspond1(ctx):
    conversions(ctx)
    ctx.log("conversions done")
    functions(ctx)
    ctx.log("functions done")
    programs(ctx)
    ctx.log("programs done")


def replay(ctx, data):
    rp = data["replay"]
    if rp.get("kind") == "conversion":
        res = run_driver([rp["case"]])
        print("case:", json.dumps(rp["case"]))
        print("implementation now:", json.dumps(res[0]))
        print("recorded:", json.dumps(rp.get("impl")))
        for k in ("expected_js", "expected_back", "expected_any", "expected_go"):
            if k in rp:
                print(k + ":", json.dumps(rp[k]))
    elif rp.get("kind") == "function":
        print("case:", json.dumps(rp["case"]))
        print("implementation now:", json.dumps(run_driver([rp["case"]])[0]))
        print("recorded:", json.dumps(rp.get("impl")))
    elif rp.get("kind") == "program":
        d = os.path.join(ctx.work, "replay")
        C.write_go_program(d, {"main.go": rp["source"]}, module="verifc11")
        rc, log = C.gopherjs_build(d, minify=rp.get("minify", False))
        print(log)
        rc, out, err = C.run_node(os.path.join(d, "out.js"), cwd=d)
        print(out, err)
        for k in ("witness", "observed", "required", "where", "got", "expected"):
            if k in rp:
                print(k + ":", json.dumps(rp[k]))
    else:
        print(json.dumps(data, indent=1))
    return 0
