"""C14 — strings are byte sequences with Go's UTF-8 behaviour.
Model: coq/Model/C14_Utf8.v, coq/Model/C14_Literal.v; theorems: coq/Props/C14.v.

Correspondence (every run, against C.REPO's current tree):
 (1) the REAL prelude ($decodeRune at every position, $stringToRunes, $runesToString, $stringToBytes,
     $encodeRune, $bytesToString, $copyString, $substring) loaded in node by harness/js/c14_driver.js, on
     ALL byte strings of length <= 3 (thorough: <= 4) over the 26-byte boundary alphabet, random longer
     strings, rune values at the encoding boundaries +-1, all index pairs on strings of length <= 6;
 (2) the REAL compiler.encodeString (overlay export, harness h_c14) on all single bytes, all pairs over an
     escape alphabet and random constants; the emitted literal is then evaluated by node (V8);
 (3) generated table programs compiled by the real compiler and run in node, against `go run` of the
     same source (range, indexing, slicing, conversions, string(rune), string(int64), comparison, map
     keys, switch, copy/append, literals in several spellings);
 (4) phase 4: a table program with one function per string operator / conversion is compiled by the real
     compiler (harness/py/c14_gen.py); its emitted `return <expr>;` templates are parsed into coq/Gen/
     C14_Templates.v (Proofs/C14_P4_Tie.v proves them equal to the templates of the theorems) and the very
     same compiled functions are called in node (harness/js/c14_ops_driver.js) on generated operands; results
     vs a from-scratch Python oracle (concrete) and vs the Coq evaluator Model/C14_Ops.jeval (correspondence).
For every input first the property's own predicate is evaluated (native Go's answer for the same input /
the constant itself for literals) -> concrete violation; then the Coq model is evaluated on exactly the
same inputs and compared with the implementation -> correspondence.
"""
import itertools, json, os, re
import common as C
import c14_gen

ID = "C14"
PROPS_FILE = "Props/C14.v"
MODEL_TARGETS = ["Corr/C14_Eval.v", "Corr/C14_OpsEval.v"]
ALLOWED_AXIOMS = []
RULE = ("strings: every byte string of length <= 3 (thorough <= 4) over the boundary alphabet "
        "{00,7F,80,8F,90,9F,A0,BF,C0,C1,C2,DF,E0,E1,EC,ED,EE,EF,F0,F1,F3,F4,F5,F7,F8,FF}, decoded at EVERY position, "
        "plus random strings of 5..40 bytes mixing valid runes, truncations, overlongs, surrogates and raw bytes; "
        "runes: 14 encoding boundaries +-1, int32/uint32 extremes, random; slicing: every (lo,hi) in [-1,len+2]^2 and the "
        "low-only form on one string per length 0..6; literals: all 256 single bytes, all pairs over a 26-byte escape "
        "alphabet, random constants; programs: tables of strings (always incl. %-verbs, $-patterns, comment/template markers) spelled as \\x / quoted / raw / octal / concatenated "
        "literals, used in initialisers AND as operands of if / else-if / switch-case / tagless-switch / for conditions against run-time copies. "
        "operators (phase 4): all pairs of strings of length <= 2 over {00,61,80,FF} plus random longer pairs sharing prefixes, under + == != < <= > >= "
        "(also on a named string type); len/[]byte/[]rune of each; every index in [-2,len+1] and slice pair; string(b) on windows with every offset/"
        "capacity and lengths 10000/10001/20001 with zero and non-zero offset; string([]rune) windows, string(rune), string(int64) incl. high words; "
        "string switch on all pool strings and clause constants (+NUL); map[string]int scripts of set/get/delete over keys containing '$', NUL, "
        "invalid UTF-8; each call runs the function the real compiler emitted, is judged by a from-scratch Python oracle, then by the Coq model. "
        "non-trivial = string contains a byte >= 0x80 (or an escape for literals); distinct by input")
TRUSTED = ["hand-written model of prelude.js:188-360 and utils.go encodeString (coq/Model/C14_*.v), tied by this correspondence",
           "native Go 1.23 (utf8, conversions, slicing) as the reference of the specification side in the check; the Coq "
           "specification itself is written from Unicode Table 3-6/3-7",
           "V8 as the reader of string literals (the model js_unescape covers exactly the escapes encodeString emits)",
           "harness/js/c14_driver.js, harness/go/repo_overlay/compiler/verifharness/c14, export_c14_verif.go",
           "JS int32 bit operations modelled by N operations (operands are code units < 2^16 or checked runes <= 0x10FFFF)",
           "ECMA-262 semantics of the JS operators used by the emitted string templates (IsLessThan on Strings, ===, +, .length, charCodeAt, "
           "Map get/set/delete with SameValueZero on strings) as modelled in coq/Model/C14_Ops.v (js_str_lt, units_eqb, map_get/map_set)",
           "harness/py/c14_gen.py (table program, JS expression parser -> Model/C14_Ops.jx, regexes for $String.keyFor, the $bytesToString chunk "
           "and the emitted switch chain) and harness/js/c14_ops_driver.js (calls the compiled functions published through js.InternalObject)",
           "copy(b, s) / append(b, s...) / x += y / map delete / len(map) are exercised in the operator correspondence but have no theorem through "
           "the emitted template"]
ASSUMPTIONS = ["Go strings are JS strings whose code units are all < 256 (established by encodeString, $bytesToString, "
               "$encodeRune: proved for those three; other producers such as js.Object.String() are out of scope)",
               "string constants reach the output only through encodeString (utils.go)",
               "operands of the operator templates are of the shapes the Go type checker guarantees (strings, ints, []byte/[]rune slices, int64 pairs, "
               "map[string]int); jeval returns Stuck on anything else",
               "the byte slice theorems assume the backing array holds bytes (< 256: guaranteed by Uint8Array) and offset + length <= len(array) (slice invariant)"]

ALPH26 = [0x00, 0x7F, 0x80, 0x8F, 0x90, 0x9F, 0xA0, 0xBF, 0xC0, 0xC1, 0xC2, 0xDF, 0xE0, 0xE1, 0xEC, 0xED, 0xEE, 0xEF,
          0xF0, 0xF1, 0xF3, 0xF4, 0xF5, 0xF7, 0xF8, 0xFF]
BOUNDARY_RUNES = [0, 0x7F, 0x80, 0x7FF, 0x800, 0xD7FF, 0xD800, 0xDFFF, 0xE000, 0xFFFD, 0xFFFF, 0x10000, 0x10FFFF, 0x110000]
ESC_ALPH = [0, 7, 8, 9, 10, 11, 12, 13, 0x1F, 0x20, 0x22, 0x24, 0x25, 0x27, 0x2F, 0x3C, 0x5C, 0x60, 0x62, 0x78, 0x7E, 0x7F, 0x80, 0xC8, 0xE2, 0xFF]


GEN = {}


def prepare(ctx):
    C.ensure_gopherjs()
    C.ensure_go_harness("c14")
    # phase 4: compile the string-operator table program with the real compiler and regenerate coq/Gen/C14_Templates.v
    GEN.clear()
    GEN.update(c14_gen.generate(ctx.work, C.REPO))
    for n in GEN["notes"][:10]:
        ctx.log("gen note: " + n)


# ---------------------------------------------------------------- helpers

def nn(x):
    """an N constant: named byte constants of Corr/C14_Eval.v (much cheaper for Coq to read than numerals)"""
    x = int(x)
    return "b%d" % x if 0 <= x < 256 else "RE" if x == 65533 else str(x)


def nl(xs):
    return "[" + ";".join(nn(x) for x in xs) + "]"


def pairs(ps):
    return "[" + ";".join("E1" if (a, b) == (65533, 1) else "(%s,%s)" % (nn(a), nn(b)) for a, b in ps) + "]"


def zl(xs):
    return "[" + ";".join(("(%d)" % x) if x < 0 else str(x) for x in xs) + "]%Z"


def zs(x):
    return "(%d)%%Z" % x


class Skip(Exception):
    """an infrastructure failure (timeout): the affected cases are skipped and noted, never reported"""


def go_ref(req):
    rc, out, err = C.sh2([os.path.join(C.BIN, "h_c14")], inp=json.dumps(req).encode(), timeout=1200)
    if rc == 124:
        raise Skip("native Go reference harness timed out")
    if rc != 0:
        raise C.BuildError("c14 go harness failed: " + err[-600:])
    return json.loads(out)


def node_run(ctx, req, tag):
    p = os.path.join(ctx.work, "req_%s.json" % tag)
    with open(p, "w") as f:
        json.dump(req, f)
    rc, out, err = C.sh2(["node", "--stack-size=4000", os.path.join(C.JS, "c14_driver.js"), C.REPO, p], timeout=1200)
    if rc == 124:
        raise Skip("node prelude driver timed out")
    if rc != 0:
        raise C.BuildError("c14 node driver failed (prelude does not load or a function threw): " + err[-800:])
    return json.loads(out)


def lead_class(bs, pos):
    b = bs[pos]
    n = len(bs) - pos
    if b < 0x80: c, need = "ascii", 1
    elif b < 0xC0: c, need = "continuation", 1
    elif b < 0xC2: c, need = "c0c1", 1
    elif b < 0xE0: c, need = "2byte", 2
    elif b == 0xE0: c, need = "e0", 3
    elif b == 0xED: c, need = "ed", 3
    elif b < 0xF0: c, need = "3byte", 3
    elif b == 0xF0: c, need = "f0", 4
    elif b == 0xF4: c, need = "f4", 4
    elif b < 0xF5: c, need = "4byte", 4
    else: c, need = "f5plus", 1
    return c + ("-truncated" if n < need else "")


def threw(ctx, im, what, replay):
    """a prelude function raised an exception on a valid input: concrete violation (Go defines a result for it)"""
    if isinstance(im, dict) and "error" in im and set(im) == {"error"}:
        if sum(1 for v in ctx.violations if v["signature"] == "prelude-threw-" + what) < 3:
            ctx.violation("prelude-threw-" + what, "the prelude raised %r on an input for which Go defines a result" % im["error"], dict(replay, impl=im))
        return True
    return False


class Model:
    """collects Coq cases, evaluates them in shards, reports mismatches"""

    def __init__(self, ctx, tag="cases", imports="Model.C14_Utf8 Model.C14_Literal Corr.C14_Eval", typ="case", fn="mismatches", cov="", floor=20000):
        self.ctx = ctx
        self.floor = floor
        self.cases = []      # (coq text, description dict)
        self.tag, self.imports, self.typ, self.fn, self.covp = tag, imports, typ, fn, cov

    def add(self, text, desc):
        self.cases.append((text, desc))

    def run(self):
        ctx = self.ctx
        shards, cur, size = [], [], 0
        total = sum(len(t) for t, _ in self.cases)
        # one shard per core when possible: reading a case costs ~1 ms, starting coqc + loading ZArith 1-2 s
        lim = max(self.floor, min(400000, total // C.NCPU + 1))
        for i, (t, _) in enumerate(self.cases):
            if cur and (size + len(t) > lim or len(cur) >= 6000):
                shards.append(cur); cur, size = [], 0
            cur.append(i); size += len(t)
        if cur:
            shards.append(cur)

        def run_shard(k):
            p = os.path.join(ctx.work, "%s_%d.v" % (self.tag, k))
            with open(p, "w") as f:
                f.write("From Coq Require Import List NArith ZArith.\nFrom Verif Require Import %s.\n"
                        "Import ListNotations.\nLocal Open Scope N_scope.\n" % self.imports)
                f.write("Definition cases : list %s := [\n" % self.typ + ";\n".join(self.cases[i][0] for i in shards[k]) + "].\n")
                f.write("Definition M := Eval vm_compute in %s cases.\nPrint M.\n" % self.fn)
            rc, out = C.coq_run(p)
            m = re.search(r"M\s*=\s*(\[[^\]]*\])", out.replace("\n", " "))
            if rc != 0 or not m:
                return k, None, out[-800:]
            return k, [int(x.replace("%N", "")) for x in re.findall(r"\d+(?:%N)?", m.group(1))], ""

        mism = 0
        for k, idxs, err in C.parallel_map(run_shard, range(len(shards))):
            if idxs is None:
                if "[timeout after" in err:
                    ctx.notes.append("model shard %s %d skipped: coqc timed out (infrastructure)" % (self.tag, k))
                else:
                    ctx.violation("model-eval-failed" + ("-" + self.covp.strip("_") if self.covp else ""), "Coq evaluation of the model failed", dict(shard=k, log=err), concrete=False)
                continue
            for i in idxs:
                mism += 1
                text, desc = self.cases[shards[k][i]]
                ctx.violation("model-mismatch-" + desc.get("kind", "?"),
                              "model and implementation disagree (correspondence Corr/C14_Eval.case_ok broken) on " + desc.get("kind", "?"),
                              dict(desc, coq_case=text[:2000]), concrete=False)
        ctx.cov[self.covp + "model_cases_evaluated"] = len(self.cases)
        ctx.cov[self.covp + "model_mismatches"] = mism


# ---------------------------------------------------------------- (1) prelude

def gen_random_string(r):
    out = []
    n = r.randint(1, 10)
    for _ in range(n):
        k = r.random()
        if k < 0.35:
            cp = r.choice([r.randint(0, 0x7F), r.randint(0x80, 0x7FF), r.randint(0x800, 0xFFFF), r.randint(0x10000, 0x10FFFF)] + BOUNDARY_RUNES[:-1])
            if 0xD800 <= cp <= 0xDFFF:
                out += [0xED, 0xA0 + ((cp >> 6) & 0x1F), 0x80 + (cp & 0x3F)]      # CESU-style surrogate: invalid
            else:
                out += list(chr(cp).encode("utf-8"))
        elif k < 0.5:
            cp = r.choice([r.randint(0x80, 0x7FF), r.randint(0x800, 0xFFFF), r.randint(0x10000, 0x10FFFF)])
            e = list(chr(cp).encode("utf-8")) if not 0xD800 <= cp <= 0xDFFF else [0xE1, 0x80, 0x80]
            out += e[:r.randint(1, len(e) - 1)]                                    # truncated
        elif k < 0.6:
            cp = r.randint(0, 0x7FF)                                               # overlong 3-byte form
            out += [0xE0, 0x80 + (cp >> 6), 0x80 + (cp & 0x3F)]
        elif k < 0.7:
            cp = r.choice([r.randint(0, 0xFFFF), r.randint(0x110000, 0x1FFFFF)])   # overlong / too large 4-byte form
            out += [0xF0 + (cp >> 18), 0x80 + ((cp >> 12) & 0x3F), 0x80 + ((cp >> 6) & 0x3F), 0x80 + (cp & 0x3F)]
        elif k < 0.85:
            out += [r.choice(ALPH26) for _ in range(r.randint(1, 3))]
        else:
            out += [r.randint(0, 255) for _ in range(r.randint(1, 4))]
    return bytes(out[:40])


def prelude_strings(ctx, model):
    r = ctx.rng("strings")
    maxlen = 3 if ctx.quick else 4
    strs = [b""]
    for n in range(1, maxlen + 1):
        strs += [bytes(t) for t in itertools.product(ALPH26, repeat=n)]
    # four-byte forms around every lead / second-byte boundary (the quick tier stops at length 3 otherwise)
    strs += [bytes([b0, b1, b2, b3]) for b0 in (0xF0, 0xF1, 0xF3, 0xF4, 0xF5, 0xF7, 0xF8) for b1 in (0x7F, 0x80, 0x8F, 0x90, 0x9F, 0xA0, 0xBF, 0xC0)
             for b2 in (0x7F, 0x80, 0xBF, 0xC0) for b3 in (0x7F, 0x80, 0xBF, 0xC0)]
    strs = list(dict.fromkeys(strs))
    nexh = len(strs)
    strs += [gen_random_string(r) for _ in range(1500 if ctx.quick else 10000)]
    chunk = 12000
    parts = [strs[i:i + chunk] for i in range(0, len(strs), chunk)]

    def one(k):
        hexes = [s.hex() for s in parts[k]]
        return node_run(ctx, dict(strings=hexes), "s%d" % k)["strings"], go_ref(dict(strings=hexes))["strings"]

    res = C.parallel_map(one, range(len(parts)))
    npos, nviol, nvalid = 0, 0, 0
    classes = {}
    for k, (impl, ref) in enumerate(res):
        for s, im, rf in zip(parts[k], impl, ref):
            bs = list(s)
            ctx.count(["str", s.hex()], nontrivial=any(b >= 0x80 for b in bs))
            if threw(ctx, im, "string", dict(kind="decode", s=s.hex())):
                continue
            nvalid += rf["valid"]
            # --- property predicate: Go's own answers
            for pos in range(len(bs)):
                npos += 1
                cl = lead_class(bs, pos)
                classes[cl] = classes.get(cl, 0) + 1
                if list(im["decs"][pos]) != list(rf["decs"][pos]) and nviol < 50:
                    nviol += 1
                    ctx.violation("decode-rune-" + cl, "$decodeRune(%s, %d) = %r, Go decodes %r" % (s.hex(), pos, im["decs"][pos], rf["decs"][pos]),
                                  dict(kind="decode", s=s.hex(), pos=pos, impl=im["decs"][pos], go=rf["decs"][pos]))
            if im["runes"] != rf["runes"] and nviol < 50:
                nviol += 1
                ctx.violation("string-to-runes-" + (lead_class(bs, 0) if bs else "empty"), "[]rune(%s): $stringToRunes gives %r, Go %r" % (s.hex(), im["runes"], rf["runes"]),
                              dict(kind="runes", s=s.hex(), impl=im["runes"], go=rf["runes"]))
            elif bytes(im["back"]).hex() != rf["back"] and nviol < 50:
                nviol += 1
                ctx.violation("runes-to-string", "string([]rune(%s)): $runesToString gives %s, Go %s" % (s.hex(), bytes(im["back"]).hex(), rf["back"]),
                              dict(kind="back", s=s.hex(), impl=im["back"], go=rf["back"]))
            if bytes(im["bytes"]).hex() != rf["bytes"] and nviol < 50:
                nviol += 1
                ctx.violation("string-to-bytes", "[]byte(%s): $stringToBytes gives %r" % (s.hex(), im["bytes"]),
                              dict(kind="bytes", s=s.hex(), impl=im["bytes"], go=rf["bytes"]))
            # --- model case (expected = implementation)
            model.add("CStr %s %s %s %s %s" % (nl(bs), pairs(im["decs"]), nl(im["runes"]), nl(im["back"]), nl(im["bytes"])),
                      dict(kind="string", s=s.hex(), impl=im if len(bs) < 12 else None))
    ctx.sample(dict(kind="string", s=parts[-1][-1].hex(), prelude=res[-1][0][-1], go=res[-1][1][-1]))
    ctx.cov["strings_exhaustive_up_to_len"] = maxlen
    ctx.cov["strings_exhaustive"] = nexh
    ctx.cov["strings_random"] = len(strs) - nexh
    ctx.cov["decode_positions_checked"] = npos
    ctx.cov["decode_positions_by_class"] = classes
    ctx.cov["strings_valid_utf8"] = nvalid


def prelude_misc(ctx, model):
    r = ctx.rng("misc")
    # ---- $encodeRune
    runes = set()
    for b in BOUNDARY_RUNES:
        runes.update([b - 1, b, b + 1])
    runes.update([-2 ** 31, -2 ** 31 + 1, 2 ** 31 - 1, 2 ** 31, 2 ** 32 - 1, 2 ** 32 - 2, -0x41, 0x41, 0xE9, 0x20AC, 0x1F600])
    runes = sorted(runes)
    nrand = 2000 if ctx.quick else 30000
    for _ in range(nrand):
        runes.append(r.choice([r.randint(0, 0x7FF), r.randint(0, 0xFFFF), r.randint(0, 0x10FFFF), r.randint(-2 ** 31, 2 ** 32 - 1),
                               r.randint(0xD700, 0xE100), r.randint(0x10FF00, 0x110100)]))
    full = [] if ctx.quick else list(range(0, 0x110400))     # thorough: every code point against Go (oracle only)
    # ---- $runesToString on windows
    r2s = []
    for _ in range(200 if ctx.quick else 3000):
        n = r.randint(0, 8)
        arr = [r.choice(runes[:60] + [r.randint(0, 0x10FFFF), r.randint(-2 ** 31, 2 ** 31 - 1)]) for _ in range(n)]
        arr = [a if -2 ** 31 <= a < 2 ** 31 else a - 2 ** 32 for a in arr]
        off = r.randint(0, n); ln = r.randint(0, n - off)
        r2s.append(dict(arr=arr, off=off, len=ln))
    # ---- $bytesToString around the 10000-element chunking
    b2s = []
    lens = [0, 1, 2, 9999, 10000, 10001, 20000, 20001] if ctx.quick else [0, 1, 2, 5000, 9999, 10000, 10001, 19999, 20000, 20001, 25000, 30000, 30001]
    for ln in lens:
        for off in (0, r.randint(1, 7)) if ln >= 5000 else (r.randint(0, 7),):
            b2s.append(dict(n=off + ln + r.randint(0, 5), a=r.choice([1, 7, 13, 255]), b=r.randint(0, 255), off=off, len=ln))
    b2s.append(dict(n=12000, a=7, b=1, off=9995, len=2000))      # offset close to the chunk size
    for _ in range(100 if ctx.quick else 1000):
        n = r.randint(0, 12); off = r.randint(0, n); ln = r.randint(0, n - off)
        b2s.append(dict(n=n, a=r.choice([1, 7, 13, 255, 97]), b=r.randint(0, 255), off=off, len=ln))
    # ---- $copyString
    cps = []
    for _ in range(150 if ctx.quick else 2000):
        n = r.randint(0, 8); off = r.randint(0, n); ln = r.randint(0, n - off)
        cps.append(dict(arr=[r.randint(0, 255) for _ in range(n)], off=off, len=ln,
                        src=bytes(r.choice(ALPH26 + [0x41, 0x42]) for _ in range(r.randint(0, 9))).hex()))
    # ---- $substring
    subs = []
    base = [0x61, 0xC3, 0xA9, 0x00, 0xFF, 0x62]
    for L in range(0, 7):
        s = bytes(base[:L]).hex()
        for lo in range(-1, L + 3):
            subs.append(dict(s=s, lo=lo, hi=None))
            for hi in range(-1, L + 3):
                subs.append(dict(s=s, lo=lo, hi=hi))
    impl = node_run(ctx, dict(runes=runes + full, r2s=r2s, b2s=b2s, copy=cps, subs=subs), "misc")
    ref = go_ref(dict(runes=runes + full, r2s=[q["arr"][q["off"]:q["off"] + q["len"]] for q in r2s], subs=subs))

    nviol = 0
    for i, x in enumerate(runes + full):
        ctx.count(["rune", x], nontrivial=True)
        if threw(ctx, impl["runes"][i], "encode-rune", dict(kind="encode", r=x)):
            continue
        got = bytes(impl["runes"][i]).hex()
        if got != ref["runes"][i] and nviol < 20:
            nviol += 1
            cls = "negative" if x < 0 else "surrogate" if 0xD800 <= x <= 0xDFFF else "above-max" if x > 0x10FFFF else "len%d" % len(bytes.fromhex(ref["runes"][i]))
            ctx.violation("encode-rune-" + cls, "$encodeRune(%d) = %s, Go string(rune) = %s" % (x, got, ref["runes"][i]),
                          dict(kind="encode", r=x, impl=got, go=ref["runes"][i]))
        if i < len(runes):
            model.add("CEnc %s %s" % (zs(x), nl(impl["runes"][i])), dict(kind="encode", r=x, impl=got))
    for q, im, rf in zip(r2s, impl["r2s"], ref["r2s"]):
        ctx.count(["r2s", q], nontrivial=q["len"] > 0)
        if threw(ctx, im, "runes-to-string", dict(kind="r2s", q=q)):
            continue
        if bytes(im).hex() != rf:
            ctx.violation("runes-to-string-window", "$runesToString(%r) = %s, Go %s" % (q, bytes(im).hex(), rf), dict(kind="r2s", q=q, impl=im, go=rf))
        model.add("CR2S %s %d %d %s" % (zl(q["arr"]), q["off"], q["len"], nl(im)), dict(kind="r2s", q=q, impl=im))
    for q, im in zip(b2s, impl["b2s"]):
        ctx.count(["b2s", q], nontrivial=q["len"] > 0)
        if threw(ctx, im, "bytes-to-string", dict(kind="b2s", q=q)):
            continue
        arr = [(q["a"] * i + q["b"]) % 256 for i in range(q["n"])]
        want = arr[q["off"]:q["off"] + q["len"]]
        if im != want:
            ctx.violation("bytes-to-string-len-%s" % ("chunked" if q["len"] > 10000 else "small"),
                          "$bytesToString of a %d-byte window differs from the bytes (first difference at %s)" %
                          (q["len"], next((i for i, (a, b) in enumerate(zip(im, want)) if a != b), min(len(im), len(want)))),
                          dict(kind="b2s", q=q, impl_len=len(im)))
        model.add("CB2S %s %d %d %s" % (nl(arr), q["off"], q["len"], nl(im)), dict(kind="b2s", q=q))
    for q, im in zip(cps, impl["copy"]):
        ctx.count(["copy", q], nontrivial=q["len"] > 0 and len(q["src"]) > 0)
        if threw(ctx, im, "copy-string", dict(kind="copy", q=q)):
            continue
        src = list(bytes.fromhex(q["src"]))
        n = min(len(src), q["len"])
        want = q["arr"][:q["off"]] + src[:n] + q["arr"][q["off"] + n:]
        if im["n"] != n or im["arr"] != want:
            ctx.violation("copy-string", "$copyString(%r) gives n=%d %r, Go copy gives n=%d %r" % (q, im["n"], im["arr"], n, want), dict(kind="copy", q=q, impl=im))
        model.add("CCopy %s %d %d %s %d %s" % (nl(q["arr"]), q["off"], q["len"], nl(src), im["n"], nl(im["arr"])), dict(kind="copy", q=q, impl=im))
    seen = set()
    for q, im, rf in zip(subs, impl["subs"], ref["subs"]):
        L = len(q["s"]) // 2
        ctx.count(["sub", q], nontrivial=True)
        got = None if "error" in im else bytes(im["v"]).hex()
        if "error" in im and im["error"] != "runtime error: slice bounds out of range":
            ctx.violation("substring-wrong-error", "$substring raised %r" % im["error"], dict(kind="sub", q=q, impl=im))
        elif got != rf:
            if q["hi"] is None and q["lo"] > L and got == "":
                sig = "substring-low-beyond-length-no-panic"
            else:
                sig = "substring-%s-%s" % ("two-arg" if q["hi"] is None else "three-arg", "missing-panic" if rf is None else "spurious-panic" if got is None else "wrong-value")
            if (sig, L) not in seen:
                seen.add((sig, L))
                ctx.violation(sig, "s[%d:%s] on a string of length %d: $substring gives %r, Go gives %r (None = run-time panic)" %
                              (q["lo"], "" if q["hi"] is None else q["hi"], L, got, rf), dict(kind="sub", q=q, impl=im, go=rf))
        model.add("CSub %s %s %s %s" % (nl(bytes.fromhex(q["s"])), zs(q["lo"]), "None" if q["hi"] is None else "(Some %s)" % zs(q["hi"]),
                                       "None" if "error" in im else "(Some %s)" % nl(im["v"])), dict(kind="sub", q=q, impl=im))
    ctx.sample(dict(kind="encode", r=0x20AC, prelude=bytes(impl["runes"][runes.index(0x20AC)]).hex()))
    ctx.cov["runes_checked_against_go"] = len(runes) + len(full)
    ctx.cov["slice_index_combinations"] = len(subs)
    ctx.cov["bytes_to_string_lengths"] = lens


# ---------------------------------------------------------------- (2) literals

def literals(ctx, model):
    r = ctx.rng("literals")
    consts = [bytes([b]) for b in range(256)]
    consts += [bytes([a, b]) for a in ESC_ALPH for b in ESC_ALPH]
    consts += [b"", b'"', b'\\"', b'\\', b'\\\\', b'\\x41', b"</script>", b"\xe2\x80\xa8\xe2\x80\xa9", b"\\u0041", b"${x}`", b"\x08\x08", bytes(range(256))]
    for _ in range(600 if ctx.quick else 20000):
        n = r.choice([1, 2, 3, 5, 8, 13, r.randint(0, 60)])
        consts.append(bytes(r.choice(ESC_ALPH + [r.randint(0, 255)] * 8) for _ in range(n)))
    lits = [bytes.fromhex(h) for h in go_ref(dict(lits=[c.hex() for c in consts]))["lits"]]
    vals = node_run(ctx, dict(lits=[l.hex() for l in lits]), "lits")["lits"]
    nv = 0
    for c, lit, v in zip(consts, lits, vals):
        ctx.count(["lit", c.hex()], nontrivial=any(b < 0x20 or b > 0x7E or b in (0x22, 0x5C) for b in c))
        bad, sig = None, None
        inner = lit[1:-1]
        if "error" in v:
            bad, sig = "node cannot read the emitted literal: " + v["error"], "literal-unreadable"
        elif bytes(x for x in v["v"] if x < 256) != c or any(x > 255 for x in v["v"]):
            bad, sig = "the emitted literal evaluates to a different string", "literal-changes-value"
        elif any(b < 0x20 or b > 0x7E for b in lit):
            b = next(b for b in lit if b < 0x20 or b > 0x7E)
            bad, sig = "the emitted literal contains the raw byte 0x%02X" % b, ("literal-raw-hint-byte" if b == 8 else "literal-raw-nonprintable")
        elif not (lit[:1] == b'"' and lit[-1:] == b'"' and len(lit) >= 2):
            bad, sig = "the emitted literal is not double-quoted", "literal-not-quoted"
        if bad and nv < 20:
            nv += 1
            ctx.violation(sig + ("-byte-%02x" % c[0] if len(c) == 1 else ""), "encodeString(%s) = %r: %s" % (c.hex(), lit.decode("latin1"), bad),
                          dict(kind="literal", const=c.hex(), literal=lit.hex(), node=v))
        model.add("CLit %s %s %s" % (nl(c), nl(lit), nl(v.get("v", []))), dict(kind="literal", const=c.hex(), literal=lit.hex(), node=v if len(c) < 20 else None))
    ctx.sample(dict(kind="literal", const=consts[34].hex(), literal=lits[34].decode("latin1")))
    ctx.cov["literals_checked"] = len(consts)


# ---------------------------------------------------------------- (3) compiled programs

I64_TABLE = [65, 0x10FFFF, 0x110000, -1, 0xD800, 0xE9, 0x20AC, 2 ** 31, 2 ** 32 - 1, 2 ** 32 + 65, -(2 ** 32) + 65, 2 ** 40, 2 ** 63 - 1, -2 ** 63,
             2 ** 32 + 0x20AC, 2 ** 32, 2 ** 33 + 0xD800]


def go_quote(bs, style):
    """spell a byte string as a Go literal expression in the given style (falls back to \\x when impossible)"""
    hexs = '"' + "".join("\\x%02x" % b for b in bs) + '"'
    try:
        txt = bs.decode("utf-8")
        valid = True
    except UnicodeDecodeError:
        txt, valid = None, False
    if style == "raw" and valid and all(ch not in "`\r\ufeff" and (ch >= " " or ch in "\n\t") for ch in txt):
        return "`" + txt + "`"
    if style == "quoted" and valid:
        out = []
        for ch in txt:
            o = ord(ch)
            if ch == '"': out.append('\\"')
            elif ch == "\\": out.append("\\\\")
            elif ch == "\n": out.append("\\n")
            elif ch == "\t": out.append("\\t")
            elif ch == "\r": out.append("\\r")
            elif o < 0x20 or o == 0x7F: out.append("\\x%02x" % o)
            elif o == 0xFEFF or 0xD800 <= o <= 0xDFFF: return hexs
            elif o > 0xFFFF: out.append("\\U%08x" % o if o % 2 else ch)
            elif o > 0x7E: out.append("\\u%04x" % o if o % 2 else ch)
            else: out.append(ch)
        return '"' + "".join(out) + '"'
    if style == "octal":
        return '"' + "".join("\\%03o" % b for b in bs) + '"'
    if style == "concat" and len(bs) >= 2:
        k = len(bs) // 2
        return go_quote(bs[:k], "hex") + " + " + go_quote(bs[k:], "hex")
    return hexs


def gen_program(r, idx, quick):
    pool = [b"", b"a", b"abc", b"ab\x00c", b'q"uo\\te', b"\n\r\t\x08\x0b\x0c", b"\xc3\xa9", b"\xe2\x82\xac", b"\xf0\x9f\x98\x80",
            b"\xff", b"\xc0\x80", b"\xed\xa0\x80", b"\xf4\x90\x80\x80", b"\xe2\x82", b"a\xe2\x80\xa8b", b"\xef\xbf\xbd", b"\x80", b"ab", b"b", b"\x7f"]
    meta = [b"%d", b"%%", b"%s=%v", b"a%20b", b"100%", b"%", b"%!", b"%!d(MISSING)", b"%[1]d%v", b"50%% off", b"%+q\n", b"%c%U", b"%\x00%",
            b"$&", b"$1$$", b"${x}", b"{{.}}", b"*/ x /*", b"// c", b"</script>", b"%\xff%d", b'%"q\\%', b"\n%\t%s", b"'%'"]
    n = 14 if quick else 22
    tab = r.sample(meta, 5 if quick else 9)            # always some literals that a formatting / templating step would rewrite
    while len(tab) < n:
        k = r.random()
        if k < 0.4: s = r.choice(pool)
        elif k < 0.7: s = bytes(r.choice(ALPH26) for _ in range(r.randint(1, 4)))
        else: s = gen_random_string(r)[:r.randint(1, 9)]
        tab.append(s)
    tab.append(tab[0])                                # a duplicate: map key / comparison equality
    tab.append(bytes(r.randint(0, 255) for _ in range(300)))    # long constant
    styles = ["hex", "quoted", "raw", "octal", "concat"]
    lits = [go_quote(s, r.choice(styles)) for s in tab]
    distinct = []
    for s in tab:
        if s not in distinct:
            distinct.append(s)
    swc = distinct[:10]
    condk = [k for k, s in enumerate(tab) if len(s) <= 20]
    runes = sorted(set(x + d for x in BOUNDARY_RUNES for d in (-1, 0, 1))) + [r.randint(0, 0x10FFFF) for _ in range(6)] + [-2 ** 31, 2 ** 31 - 1]
    L = ["package main", "", "var T = []string{"]
    L += ["\t%s," % l for l in lits]
    L += ["}", "", "var RUNES = []rune{%s}" % ", ".join(str(x) for x in runes), "var I64 = []int64{%s}" % ", ".join(str(x) for x in I64_TABLE),
          "var U32 = []uint32{0x41, 0x10FFFF, 0x110000, 0xFFFFFFFF, 0xD800, 0x80000041}", ""]
    L += ["type myRune rune", "type myByte byte", "type myStr string", "type myRunes []rune", "type myBytes []byte",
          "type myNamedRunes []myRune", "type myInt int64", ""]
    L.append("const (")
    for i, s in enumerate(swc):
        L.append("\tC%d = %s" % (i, go_quote(s, r.choice(styles))))
    L.append(")")
    L.append(r"""
func dg(s string) int {
	h := 7
	for i := 0; i < len(s); i++ {
		h = (h*31 + int(s[i])) % 1000003
	}
	return h*100 + len(s)%100
}

func idx(s string, i int) (r int) {
	defer func() {
		if recover() != nil {
			r = -1
		}
	}()
	return int(s[i])
}

func sl2(s string, lo, hi int) (r int) {
	defer func() {
		if recover() != nil {
			r = -1
		}
	}()
	return dg(s[lo:hi])
}

func slLo(s string, lo int) (r int) {
	defer func() {
		if recover() != nil {
			r = -1
		}
	}()
	return dg(s[lo:])
}

func slHi(s string, hi int) (r int) {
	defer func() {
		if recover() != nil {
			r = -1
		}
	}()
	return dg(s[:hi])
}

func sw(s string) int {
	switch s {""")
    for i in range(len(swc)):
        L.append("\tcase C%d:\n\t\treturn %d" % (i, i))
    L.append(r"""	}
	return -1
}

""")
    for k in condk:
        lit = [go_quote(tab[k], r.choice(styles)) for _ in range(9)]
        L.append("""
// the constant T[%d] as operand of if / else-if / switch-case / tagless switch / for conditions; rt holds the same bytes built at run time
func cond%d(s, rt string) int {
	r := 0
	if rt == %s {
		r |= 1
	}
	if s == %s {
		r |= 2
	} else if s+"x" != %s+"x" {
		r |= 4
	}
	switch rt {
	case %s + "\\x00":
		r |= 8
	case %s:
		r |= 16
	}
	switch {
	case rt != %s:
		r |= 32
	case len(rt) == len(%s):
		r |= 64
	}
	n := 0
	for t := s + "x"; t != %s && n < 3; n++ {
		t = rt
	}
	r |= n << 8
	for rt+"y" > %s+"y" || n > 5 {
		n += 100
		break
	}
	return r | n<<12
}""" % ((k, k) + tuple(lit)))
    L.append("var CONDS = []func(s, rt string) int{%s}" % ", ".join("cond%d" % k if k in condk else "nil" for k in range(len(tab))))
    L.append(r"""
func main() {
	for k, s := range T {
		println("LEN", k, len(s))
		if len(s) > 20 {
			println("DIG", k, dg(s))
			n := 0
			for i, r := range s {
				n += i*7 + int(r)
			}
			println("RNS", k, n)
			continue
		}
		for i := -1; i <= len(s); i++ {
			println("IDX", k, i, idx(s, i))
		}
		for i, r := range s {
			println("RNG", k, i, r)
		}
		n := 0
		for range s {
			n++
		}
		println("RNC", k, n)
		rs := []rune(s)
		println("RUL", k, len(rs))
		for j, r := range rs {
			println("RUN", k, j, r)
		}
		println("RBK", k, dg(string(rs)))
		bs := []byte(s)
		if len(bs) > 0 {
			bs[0] ^= 0x80
		}
		println("BYS", k, len(bs), dg(string(bs)), dg(s))
		println("SWI", k, sw(s))
		if CONDS[k] != nil {
			rt := string(append([]byte(nil), s...))
			println("CND", k, CONDS[k](T[(k+1)%len(T)], rt), CONDS[k](rt, rt+""))
		}
		// the same conversions through named element, slice and string types, and from sub-slices
		nr := []myRune(s)
		println("NRU", k, len(nr), dg(string(nr)), dg(string(myNamedRunes(nr))))
		nb := []myByte(s)
		println("NBY", k, len(nb), dg(string(nb)))
		ms := myStr(s)
		println("NST", k, len(ms), dg(string([]rune(ms))), dg(string([]byte(ms))), dg(string(ms+"x")))
		println("NSL", k, dg(string(myRunes(rs))), dg(string(myBytes(s))), dg(string(myRunes(ms))), len(myBytes(ms)))
		acc := 0
		for i, r := range ms {
			acc += i*7 + int(r)
		}
		println("NRG", k, acc)
		if len(rs) > 1 {
			println("RSO", k, dg(string(rs[1:])), dg(string(nr[1:len(nr)-1])))
		}
		if len(bs) > 1 {
			println("BSO", k, dg(string(bs[1:])), dg(string(nb[1:])))
		}
		for lo := -1; lo <= len(s)+2; lo++ {
			println("SLO", k, lo, slLo(s, lo))
			println("SHI", k, lo, slHi(s, lo))
			for hi := -1; hi <= len(s)+1; hi++ {
				println("SLI", k, lo, hi, sl2(s, lo, hi))
			}
		}
		buf := make([]byte, 3)
		c := copy(buf, s)
		println("CPY", k, c, dg(string(buf)))
		ap := append([]byte{1, 2}, s...)
		println("APP", k, dg(string(ap)))
	}
	m := map[string]int{}
	for k, s := range T {
		m[s] += k + 1
	}
	println("MPL", len(m))
	for k, s := range T {
		_, ok := m[s+"\x00"]
		println("MPV", k, m[s], ok)
	}
	for a, s := range T {
		for b, t := range T {
			x := 0
			if s < t {
				x |= 1
			}
			if s == t {
				x |= 2
			}
			if s > t {
				x |= 4
			}
			if s <= t {
				x |= 8
			}
			if s >= t {
				x |= 16
			}
			if s != t {
				x |= 32
			}
			println("CMP", a, b, x, dg(s+t))
		}
	}
	for k, r := range RUNES {
		println("S4R", k, dg(string(r)))
	}
	for k, x := range I64 {
		s := string(x)
		println("S64", k, len(s))
		for i := 0; i < len(s); i++ {
			println("S6B", k, i, s[i])
		}
	}
	for k, x := range U32 {
		println("S32", k, dg(string(x)), dg(string(myRune(x))), dg(string(myInt(x))))
	}
	big := make([]byte, 25000)
	for i := range big {
		big[i] = byte(i*7 + 3)
	}
	println("BIG", 0, dg(string(big)), dg(string(big[3:20005])), dg(string(big[9999:])), len(string(big[1:10002])))
}
""")
    return "\n".join(L), tab


def run_program(ctx, i, src):
    d = os.path.join(ctx.work, "p%d" % i)
    C.write_go_program(d, {"main.go": src}, module="verifc14")
    rc, log = C.gopherjs_build(d)
    if rc == 124:
        return dict(skip="gopherjs build timed out")
    if rc != 0:
        return dict(error="gopherjs build failed: " + log[-600:])
    rc, out, err = C.run_node(os.path.join(d, "out.js"), cwd=d)
    if rc == 124:
        return dict(skip="node run timed out")
    if rc != 0:
        m = re.search(r"\b(SyntaxError|ReferenceError|TypeError|RangeError)\b[^\n]*", err or out)
        return dict(error="node run failed: " + (m.group(0) + " ... " if m else "") + (err or out)[-500:], syntax=m.group(1) if m else None)
    js_lines = [l for l in (out + err).split("\n") if re.match(r"[A-Z0-9]{3} ", l)]
    rc, out, err = C.sh2(["go", "run", "."], cwd=d, env=C.goenv(), timeout=600)
    if rc == 124:
        return dict(skip="go run timed out")
    if rc != 0:
        return dict(error="go run failed: " + (err or out)[-600:], native=True)
    go_lines = [l for l in (out + err).split("\n") if re.match(r"[A-Z0-9]{3} ", l)]
    return dict(js=js_lines, go=go_lines)


def programs(ctx, model):
    r = ctx.rng("programs")
    n = 6 if ctx.quick else 60
    progs = [gen_program(r, i, ctx.quick) for i in range(n)]
    results = C.parallel_map(lambda i: run_program(ctx, i, progs[i][0]), range(n), workers=8)
    nlines = 0
    for i, ((src, tab), res) in enumerate(zip(progs, results)):
        if "skip" in res:
            ctx.notes.append("program %d skipped: %s (infrastructure)" % (i, res["skip"]))
            continue
        ctx.count(["program", src], nontrivial=True)
        if "error" in res:
            if res.get("native"):
                raise C.BuildError("generated C14 program rejected by native Go: " + res["error"])
            if res.get("syntax"):
                ctx.violation("program-output-is-not-valid-javascript" if res["syntax"] == "SyntaxError" else "program-raises-javascript-error",
                              "the compiled program (every Go panic in it is recovered; native Go runs it to the end) fails in node: " + res["error"][:200],
                              dict(kind="program", source=src, log=res["error"]))
            else:
                ctx.violation("program-build-or-run-failed", res["error"][:300], dict(kind="program", source=src, log=res["error"]), concrete=False)
            continue
        js, go = res["js"], res["go"]
        nlines += len(go)
        seen = set()

        def groups(lines):
            g = {}
            for l in lines:
                f = l.split()
                g.setdefault((f[0], f[1]) if len(f) > 1 else (f[0], ""), []).append(l)
            return g
        gj, gg = groups(js), groups(go)
        for key in sorted(set(gj) | set(gg)):
            la, lb = gj.get(key, []), gg.get(key, [])
            if la == lb:
                continue
            tag, k = key
            a, b = next(((x, y) for x, y in zip(la, lb) if x != y), (la[len(lb):][:1] or ["(nothing)"], lb[len(la):][:1] or ["(nothing)"]))
            a, b = (a if isinstance(a, str) else a[0]), (b if isinstance(b, str) else b[0])
            f = b.split() if b != "(nothing)" else a.split()
            sig = "program-%s-differs-from-go" % tag.lower()
            if tag == "SLO" and f[3] == "-1" and int(f[2]) > len(tab[int(k)]) and a.split()[3] == "700":
                sig = "substring-low-beyond-length-no-panic"
            if tag == "IDX" and f[3] == "-1" and (int(f[2]) < 0 or int(f[2]) >= len(tab[int(k)])) and a.split()[3] == "0":
                sig = "string-index-out-of-range-no-panic"
            if tag in ("S64", "S6B") and (I64_TABLE[int(k)] >> 32) != 0:
                sig = "string-from-int64-high-word-ignored"
            if sig in seen:
                continue
            seen.add(sig)
            what = "compiled program prints %r, native Go prints %r" % (a, b)
            if tag in ("S64", "S6B"):
                what += " for string(int64(%d))" % I64_TABLE[int(k)]
            elif tag not in ("S4R", "S32", "MPL", "MPV", "CMP", "BIG"):
                what += " for T[%s] = %s" % (k, tab[int(k)].hex()[:80])
            ctx.violation(sig, what, dict(kind="program", source=src, js_line=a, go_line=b))
        # model ties: the emitted range loop and string(int64)
        rng, s64 = {}, {}
        for l in js:
            f = l.split()
            if f[0] == "IDX" and i < 2:
                model.add("CIdx %s %s %s" % (nl(tab[int(f[1])]), zs(int(f[2])), zs(int(f[3]))), dict(kind="index", s=tab[int(f[1])].hex(), i=int(f[2]), impl=int(f[3])))
            if f[0] == "RNG":
                rng.setdefault(int(f[1]), []).append((int(f[2]), int(f[3])))
            elif f[0] == "S6B":
                s64.setdefault(int(f[1]), []).append(int(f[3]))
        for k, s in enumerate(tab):
            if len(s) <= 20:
                model.add("CRange %s %s" % (nl(s), pairs(rng.get(k, []))), dict(kind="range-loop", s=s.hex(), impl=rng.get(k, [])))
        if i == 0:
            for k, x in enumerate(I64_TABLE):
                model.add("CI64 %s %s" % (zs(x), nl(s64.get(k, []))), dict(kind="string-of-int64", x=x, impl=s64.get(k, [])))
            ctx.sample(dict(kind="program", table=[t.hex() for t in tab[:6]], first_lines=js[:6]))
    ctx.cov["programs"] = n
    ctx.cov["program_output_lines_compared"] = nlines


# ---------------------------------------------------------------- (4) string operators as emitted (phase 4)

OPS_ALPH = [0x00, 0x61, 0x80, 0xFF]
KEY_POOL = [b"", b"$", b"a", b"$a", b"$$a", b"a\x00", b"a\x00b", b"\xff", b"\xc3\xa9", b"\xc3", b"a$b", b"\x00", b"b", b"ab"]


def utf8_of_int(x):
    """Go string(rune(x)) from scratch"""
    if x < 0 or x > 0x10FFFF or 0xD800 <= x <= 0xDFFF:
        x = 0xFFFD
    if x < 0x80: return bytes([x])
    if x < 0x800: return bytes([0xC0 | x >> 6, 0x80 | x & 0x3F])
    if x < 0x10000: return bytes([0xE0 | x >> 12, 0x80 | (x >> 6) & 0x3F, 0x80 | x & 0x3F])
    return bytes([0xF0 | x >> 18, 0x80 | (x >> 12) & 0x3F, 0x80 | (x >> 6) & 0x3F, 0x80 | x & 0x3F])


def coq_arg(a):
    if "s" in a: return "VStr %s" % nl(bytes.fromhex(a["s"]))
    if "n" in a: return "VNum %s" % zs(a["n"])
    if "gen" in a:
        g = a["gen"]
        return "vbytes (gen_arr %d %d %d) %d %d %d" % (g["n"], g["a"], g["b"], g["off"], g["len"], g["cap"])
    if "bytes" in a:
        g = a["bytes"]
        return "vbytes %s %d %d %d" % (nl(g["arr"]), g["off"], g["len"], g["cap"])
    if "runes" in a:
        g = a["runes"]
        return "vrunes %s %d %d %d" % (zl(g["arr"]), g["off"], g["len"], g["cap"])
    if "i64" in a: return "VI64 %s %s" % (zs(a["i64"][0]), zs(a["i64"][1]))
    raise ValueError(a)


def coq_res(o):
    if "str" in o: return "Ok (VStr %s)" % nl(o["str"])
    if "num" in o and float(o["num"]).is_integer(): return "Ok (VNum %s)" % zs(int(o["num"]))
    if "nan" in o: return "Ok VNaN"
    if "bool" in o: return "Ok (VBool %s)" % ("true" if o["bool"] else "false")
    if "undef" in o: return "Ok VUndef"
    if "bytes" in o:
        g = o["bytes"]
        return "Ok (vbytes %s %d %d %d)" % (nl(g["arr"]), g["off"], g["len"], g["cap"])
    if "runes" in o:
        g = o["runes"]
        return "Ok (vrunes %s %d %d %d)" % (zl(g["arr"]), g["off"], g["len"], g["cap"])
    if "panic" in o and o["panic"].startswith("runtime error: ") and all(ord(ch) < 128 for ch in o["panic"]):
        return "Panic %s" % nl(o["panic"][len("runtime error: "):].encode())
    return "Stuck"


def py_oracle(t, args):
    """what Go prescribes, computed from scratch on Python bytes / ints; ('panic', kind) for a run-time panic; None = no oracle"""
    t = t[2:] if t.startswith("My") else t
    b = lambda i: bytes.fromhex(args[i]["s"])
    if t == "Add": return dict(str=list(b(0) + b(1)))
    if t == "Eql": return dict(bool=b(0) == b(1))
    if t == "Neq": return dict(bool=b(0) != b(1))
    if t == "Lss": return dict(bool=b(0) < b(1))
    if t == "Leq": return dict(bool=b(0) <= b(1))
    if t == "Gtr": return dict(bool=b(0) > b(1))
    if t == "Geq": return dict(bool=b(0) >= b(1))
    if t == "Len": return dict(num=len(b(0)))
    if t == "Idx":
        i = args[1]["n"]
        return dict(num=b(0)[i]) if 0 <= i < len(b(0)) else dict(panic="runtime error: index out of range")
    if t in ("Sl2", "SlLo", "SlHi"):
        s = b(0)
        lo, hi = (args[1]["n"], args[2]["n"]) if t == "Sl2" else (args[1]["n"], len(s)) if t == "SlLo" else (0, args[1]["n"])
        return dict(str=list(s[lo:hi])) if 0 <= lo <= hi <= len(s) else dict(panic="runtime error: slice bounds out of range")
    if t == "ToBytes": return dict(bytes=dict(arr=list(b(0)), off=0, len=len(b(0)), cap=len(b(0))))
    if t == "FromBytes":
        if "gen" in args[0]:
            g = args[0]["gen"]
            arr = [(g["a"] * i + g["b"]) % 256 for i in range(g["n"])]
        else:
            g = args[0]["bytes"]; arr = g["arr"]
        return dict(str=arr[g["off"]:g["off"] + g["len"]])
    if t == "FromRunes":
        g = args[0]["runes"]
        return dict(str=list(b"".join(utf8_of_int(x) for x in g["arr"][g["off"]:g["off"] + g["len"]])))
    if t == "FromRune": return dict(str=list(utf8_of_int(args[0]["n"])))
    if t == "FromI64":
        hi, lo = args[0]["i64"]
        return dict(str=list(utf8_of_int(hi * 2 ** 32 + lo)))
    return None


def operators(ctx, om):
    r = ctx.rng("ops")
    for n in GEN.get("notes", []):
        ctx.violation("template-not-recognised", "the emitted JavaScript of a string operator could not be read back: " + n[:300], dict(kind="template", note=n), concrete=False)
    pool = [b""] + [bytes(t) for n in (1, 2) for t in itertools.product(OPS_ALPH, repeat=n)]
    longer = []
    for _ in range(40 if ctx.quick else 400):
        base = gen_random_string(r)[:r.randint(1, 12)]
        longer.append(base)
        k = r.randint(0, len(base))
        longer.append(base[:k] + bytes([r.choice(OPS_ALPH + [0x24, 0x7F, 0xC3])] * r.randint(0, 2)) + (base[k + 1:] if r.random() < 0.5 else b""))
    calls = []
    S = lambda x: dict(s=x.hex())
    N = lambda x: dict(n=x)
    pairs_ = [(a, b) for a in pool for b in pool] + [(r.choice(longer), r.choice(longer)) for _ in range(150 if ctx.quick else 3000)] + [(x, x) for x in longer[:20]]
    for a, b in pairs_:
        for t in ("Add", "Eql", "Neq", "Lss", "Leq", "Gtr", "Geq"):
            calls.append(dict(t=t, args=[S(a), S(b)]))
    for a, b in r.sample(pairs_, 60):
        for t in ("MyAdd", "MyLss", "MyEql"):
            calls.append(dict(t=t, args=[S(a), S(b)]))
    strs = pool + longer[:30]
    for s in strs:
        calls.append(dict(t="Len", args=[S(s)]))
        calls.append(dict(t="ToBytes", args=[S(s)]))
        calls.append(dict(t="ToRunes", args=[S(s)]))
    for s in strs[::4]:
        calls.append(dict(t="MyLen", args=[S(s)]))
        calls.append(dict(t="MyToBytes", args=[S(s)]))
    for s in pool[:9] + longer[:8]:
        for i in range(-2, len(s) + 2):
            calls.append(dict(t="Idx", args=[S(s), N(i)]))
            calls.append(dict(t="SlLo", args=[S(s), N(i)]))
            calls.append(dict(t="SlHi", args=[S(s), N(i)]))
            for j in range(-1, len(s) + 2):
                if len(s) <= 4 or r.random() < 0.3:
                    calls.append(dict(t="Sl2", args=[S(s), N(i), N(j)]))
    # string(b): small windows with every offset, and lengths around the chunk size with zero / non-zero offset and spare capacity
    for _ in range(60 if ctx.quick else 600):
        n = r.randint(0, 12); off = r.randint(0, n); ln = r.randint(0, n - off)
        calls.append(dict(t=r.choice(["FromBytes", "FromBytes", "MyFromBytes"]), args=[dict(gen=dict(n=n, a=r.choice([1, 7, 13, 255]), b=r.randint(0, 255), off=off, len=ln, cap=r.randint(ln, n - off)))]))
    for ln in ([10000, 10001, 20001] if ctx.quick else [5000, 9999, 10000, 10001, 19999, 20000, 20001, 30001]):
        for off in ((r.randint(1, 9),) if ctx.quick and ln != 10001 else (0, r.randint(1, 9))):
            calls.append(dict(t="FromBytes", args=[dict(gen=dict(n=off + ln + 3, a=r.choice([7, 13]), b=r.randint(0, 255), off=off, len=ln, cap=ln + r.randint(0, 3)))]))
    brunes = sorted(set(x + d for x in BOUNDARY_RUNES for d in (-1, 0, 1)))
    for _ in range(50 if ctx.quick else 500):
        n = r.randint(0, 7)
        arr = [r.choice(brunes + [r.randint(0, 0x10FFFF), r.randint(-2 ** 31, 2 ** 31 - 1)]) for _ in range(n)]
        off = r.randint(0, n); ln = r.randint(0, n - off)
        calls.append(dict(t="FromRunes", args=[dict(runes=dict(arr=arr, off=off, len=ln, cap=n - off))]))
    for x in brunes + [r.randint(-2 ** 31, 2 ** 31 - 1) for _ in range(20)]:
        calls.append(dict(t="FromRune", args=[N(x)]))
    for x in I64_TABLE + [r.randint(0, 0x10FFFF) for _ in range(10)] + [r.randint(-2 ** 63, 2 ** 63 - 1) for _ in range(10)]:
        calls.append(dict(t="FromI64", args=[dict(i64=[x >> 32, x % 2 ** 32])]))
    addassign = [[a.hex(), b.hex()] for a, b in r.sample(pairs_, 40)]
    switches = list(dict.fromkeys(pool + [c for cl in c14_gen.SWITCH_CLAUSES for c in cl] + [c + b"\x00" for cl in c14_gen.SWITCH_CLAUSES for c in cl] + longer[:10]))
    maps = []
    for _ in range(40 if ctx.quick else 400):
        script = []
        for _ in range(r.randint(3, 14)):
            k = r.choice(KEY_POOL).hex()
            o = r.choice(["set", "set", "set", "get", "get", "del"])
            script.append(dict(op=o, k=k, v=r.randint(-5, 1000)) if o == "set" else dict(op=o, k=k))
        script += [dict(op="get", k=k.hex()) for k in r.sample(KEY_POOL, 4)]
        maps.append(script)

    p = os.path.join(ctx.work, "req_ops.json")
    with open(p, "w") as f:
        json.dump(dict(calls=calls, addassign=addassign, switches=[x.hex() for x in switches], maps=maps), f)
    rc, out, err = C.sh2(["node", "--stack-size=4000", os.path.join(C.JS, "c14_ops_driver.js"), GEN["outjs"], p], timeout=1200)
    if rc == 124:
        raise Skip("node operator driver timed out")
    if rc != 0:
        raise C.BuildError("c14 operator driver failed (the compiled table program does not load): " + err[-800:])
    rep = json.loads(out)

    seen = {}

    def viol(sig, what, replay):
        seen[sig] = seen.get(sig, 0) + 1
        if seen[sig] <= 3:
            ctx.violation(sig, what, replay)

    # the ToRunes oracle is native Go
    tr = [c for c in calls if c["t"] == "ToRunes"]
    goref = {h: x["runes"] for h, x in zip([c["args"][0]["s"] for c in tr], go_ref(dict(strings=[c["args"][0]["s"] for c in tr]))["strings"])}
    per_t = {}
    for idx, (c, o) in enumerate(zip(calls, rep["calls"])):
        t = c["t"]
        per_t[t] = per_t.get(t, 0) + 1
        ctx.count(["op", c], nontrivial=any("s" in a and any(x >= 0x80 for x in bytes.fromhex(a["s"])) for a in c["args"]) or t.startswith("From"))
        want = py_oracle(t, c["args"])
        if t == "ToRunes":
            rs = goref[c["args"][0]["s"]]
            want = dict(runes=dict(arr=rs, off=0, len=len(rs), cap=len(rs)))
        if want is not None:
            got = o
            if "runes" in o and t == "ToRunes":      # the backing Int32Array may be longer than the slice: compare the window
                g = o["runes"]
                got = dict(runes=dict(arr=g["arr"][g["off"]:g["off"] + g["len"]], off=0, len=g["len"], cap=g["len"]))
                want = dict(runes=dict(arr=want["runes"]["arr"], off=0, len=want["runes"]["len"], cap=want["runes"]["len"]))
            if got != want:
                cls = ""
                if t in ("FromBytes", "MyFromBytes"):
                    g = c["args"][0].get("gen") or c["args"][0]["bytes"]
                    cls = "-chunked" if g["len"] > 10000 else "-offset" if g["off"] else ""
                elif "panic" in want:
                    cls = "-missing-panic"
                elif "panic" in o:
                    cls = "-spurious-panic"
                short = lambda x: json.dumps(x)[:160]
                viol("op-%s%s" % (t.lower(), cls), "emitted code of %s on %s gives %s, Go prescribes %s" % (t, short(c["args"]), short(o), short(want)),
                     dict(kind="op", call=c, impl=o if len(json.dumps(o)) < 2000 else None, go=want if len(json.dumps(want)) < 2000 else None))
        if idx < 7 * len(pairs_):
            if idx % 7 == 6:     # one model case per pair: the seven binary operators in the order of Corr/C14_OpsEval.OPair
                om.add("OPair %s %s [%s]" % (nl(bytes.fromhex(c["args"][0]["s"])), nl(bytes.fromhex(c["args"][1]["s"])), ";".join(coq_res(x) for x in rep["calls"][idx - 6:idx + 1])),
                       dict(kind="op-binary", a=c["args"][0]["s"], b=c["args"][1]["s"], impl=rep["calls"][idx - 6:idx + 1]))
            continue
        om.add("OTmpl t_%s [%s] (%s)" % (t, ";".join(coq_arg(a) for a in c["args"]), coq_res(o)), dict(kind="op-" + t.lower(), call=c if len(json.dumps(c)) < 600 else c["t"]))
    for (a, b), o in zip(addassign, rep["addassign"]):
        ctx.count(["addassign", a, b], nontrivial=True)
        if o != dict(str=list(bytes.fromhex(a) + bytes.fromhex(b))):
            viol("op-add-assign", "x += y on %s, %s gives %r" % (a, b, o), dict(kind="op", call=dict(t="AddAssign", args=[dict(s=a), dict(s=b)]), impl=o))
    for tag, o in zip(switches, rep["switches"]):
        ctx.count(["switch", tag.hex()], nontrivial=True)
        want = next((i for i, cl in enumerate(c14_gen.SWITCH_CLAUSES) if tag in cl), -1)
        if o != dict(num=want):
            viol("op-switch", "switch on %s enters clause %r, Go enters %d" % (tag.hex(), o, want), dict(kind="op-switch", tag=tag.hex(), impl=o, go=want))
        om.add("OSwitch %s %s" % (nl(tag), zs(o["num"]) if "num" in o else "(-99)%Z"), dict(kind="op-switch", tag=tag.hex(), impl=o))
    for script, o in zip(maps, rep["maps"]):
        ctx.count(["map", script], nontrivial=True)
        if "panic" in o:
            viol("op-map-threw", "map[string]int operations raised %r" % o["panic"], dict(kind="op-map", script=script, impl=o))
            continue
        d, gets = {}, []
        for op in script:
            k = bytes.fromhex(op["k"])
            if op["op"] == "set": d[k] = op["v"]
            elif op["op"] == "del": d.pop(k, None)
            else: gets.append([d.get(k, 0), k in d, d.get(k, 0)])
        if o["gets"] != gets or o["len"] != len(d) or [bytes(k) for k in o["gokeys"]] != list(d):
            viol("op-map-string-key", "map[string]int script gives gets=%r len=%d keys=%r, Go gives gets=%r len=%d keys=%r" %
                 (o["gets"], o["len"], [bytes(k).hex() for k in o["gokeys"]], gets, len(d), [k.hex() for k in d]), dict(kind="op-map", script=script, impl=o))
        ops_txt = ";".join(("MSet %s %s" % (nl(bytes.fromhex(op["k"])), zs(op["v"]))) if op["op"] == "set" else ("%s %s" % ("MDel" if op["op"] == "del" else "MGet", nl(bytes.fromhex(op["k"])))) for op in script)
        gets_txt = ";".join("(%s,%s,%s)" % (zs(g[0]), "true" if g[1] else "false", zs(g[2])) for g in o["gets"])
        om.add("OMap [%s] [%s] %d [%s] [%s]" % (ops_txt, gets_txt, o["len"], ";".join(nl(k) for k in o["keys"]), ";".join(nl(k) for k in o["gokeys"])),
               dict(kind="op-map", script=script, impl=o))
    ctx.sample(dict(kind="op", call=calls[7], emitted=GEN.get("texts", {}).get(calls[7]["t"]), result=rep["calls"][7]))
    ctx.cov["op_calls_by_template"] = per_t
    ctx.cov["op_templates_translated"] = "%d/%d" % (GEN.get("translated", 0), GEN.get("templates", 0))
    ctx.cov["op_switch_tags"] = len(switches)
    ctx.cov["op_map_scripts"] = len(maps)


def correspond(ctx):
    model = Model(ctx)
    for name, phase in (("prelude strings", prelude_strings), ("prelude misc", prelude_misc), ("literals", literals), ("programs", programs)):
        try:
            phase(ctx, model)
        except Skip as e:
            ctx.notes.append("phase '%s' skipped: %s (infrastructure)" % (name, e))
        ctx.log(name + " done")
    om = Model(ctx, tag="opcases", imports="Model.C14_Utf8 Model.C14_Ops Gen.C14_Templates Corr.C14_Eval Corr.C14_OpsEval", typ="ocase", fn="omismatches", cov="ops_", floor=200000)
    try:
        operators(ctx, om)
    except Skip as e:
        ctx.notes.append("phase 'operators' skipped: %s (infrastructure)" % e)
    ctx.log("operators done")
    model.run()
    om.run()
    ctx.log("model evaluation done")


def replay(ctx, data):
    rp = data["replay"]
    k = rp.get("kind")
    print("recorded:", json.dumps({x: rp[x] for x in rp if x != "source"})[:3000])
    if k in ("decode", "runes", "back", "bytes"):
        print("prelude now:", json.dumps(node_run(ctx, dict(strings=[rp["s"]]), "replay")))
        print("native Go :", json.dumps(go_ref(dict(strings=[rp["s"]]))))
    elif k == "encode":
        print("prelude now:", json.dumps(node_run(ctx, dict(runes=[rp["r"]]), "replay")["runes"]))
        print("native Go :", json.dumps(go_ref(dict(runes=[rp["r"]]))["runes"]))
    elif k == "sub":
        print("prelude now:", json.dumps(node_run(ctx, dict(subs=[rp["q"]]), "replay")["subs"]))
        print("native Go :", json.dumps(go_ref(dict(subs=[rp["q"]]))["subs"]))
    elif k == "literal":
        lit = go_ref(dict(lits=[rp["const"]]))["lits"]
        print("encodeString now:", bytes.fromhex(lit[0]).decode("latin1"))
        print("node value:", json.dumps(node_run(ctx, dict(lits=lit), "replay")["lits"]))
    elif k == "op":
        if not GEN:
            GEN.update(c14_gen.generate(ctx.work, C.REPO))
        p = os.path.join(ctx.work, "req_replay_ops.json")
        with open(p, "w") as f:
            json.dump(dict(calls=[rp["call"]]) if rp["call"]["t"] != "AddAssign" else dict(addassign=[[a["s"] for a in rp["call"]["args"]]]), f)
        rc, out, err = C.sh2(["node", os.path.join(C.JS, "c14_ops_driver.js"), GEN["outjs"], p])
        print("emitted template:", GEN.get("texts", {}).get(rp["call"]["t"]))
        print("compiled code now:", out[:2000], err[-300:])
        print("Go prescribes    :", json.dumps(py_oracle(rp["call"]["t"], rp["call"]["args"]))[:2000])
    elif k == "program":
        res = run_program(ctx, 0, rp["source"])
        if "error" in res:
            print(res["error"])
        else:
            for a, b in zip(res["js"], res["go"]):
                if a != b:
                    print("gopherjs:", a, " | go:", b)
    return 0


TECHNIQUE = ("Coq proof (decoder = table-driven specification for every code-unit string and position; encoder; round trips; range loop; "
             "literal round trip; phase 4: the emitted templates of len, +, == != < <= > >=, s[i], s[i:j], []byte/[]rune/string conversions, "
             "string(int64), m[k] and the string switch as a deep embedding regenerated from the real compiler's output on every run) "
             "+ differential correspondence with the real prelude in node, the real encodeString, the compiled operator table program called "
             "function by function, and compiled programs vs native Go")
LEVEL_TEXT = ("Machine-checked, unbounded theorems over an executable model of $decodeRune/$encodeRune/$stringToRunes/$runesToString/"
              "$stringToBytes/$bytesToString/$copyString/$substring, the emitted range loop and encodeString + the JS reading of its escapes. "
              "Phase 4: for EVERY byte string(s) len, concatenation, all six comparisons (ECMAScript IsLessThan on code units = Go's lexical byte "
              "order, a strict total order), indexing, slicing laws with concatenation, string(b)/[]byte(s) for any offset/length/capacity and "
              "chunk count, string(int64), $String.keyFor injectivity and the map get-after-set law, first-match semantics of the emitted string "
              "switch, and well-formedness (all code units < 256) of every string-producing template. "
              "The model is tied to the code on every run: exhaustive byte strings up to length 3 (4 thorough) over the boundary alphabet at every "
              "position, all slice index pairs, all single-byte literals, compiled table programs against native Go, and the operator templates "
              "re-read from the compiler's output (Gen/C14_Templates.v, equality with the proved templates by conversion) and executed in node.")
LEVEL_NOTE = ("Proof is about the hand-written model; the tie to /repo is differential plus, for the operator templates, syntactic (regenerated and "
              "compared by conversion). Still only compared, not proved: $copyString/append(b, s...) through the compiler's templates, map delete and "
              "iteration order, x += y, the statement-level shape of switch / range (recognised by regex, not parsed), JS engine semantics of "
              "String comparison / Map (modelled from ECMA-262, trusted). No recorded defects; no axioms.")
