"""C01 — compiled programs behave like the reference Go toolchain.

Model: coq/Model/C01_GoSem.v (MiniGo interpreter), C01_JsSem.v (MiniJS interpreter), C01_Compile.v
(Gallina mirror of the translator for the fragment), C01_Wf.v; theorems: coq/Props/C01.v.

Tie, per generated program (generator = harness/py/c01_gen.py, draws from the model's own AST and
prints Go source + Coq term):
 (a) STRUCTURAL  the body of `main` in the REAL out.js is parsed (harness/py/c01_jsparse.py) into a
     MiniJS term; Coq checks it is equal to `compile p` (incl. temp names and the var list);
 (b) TRANSLATION VALIDATION  `run_js parsed = run_go p` evaluated in Coq;
 (c) BEHAVIOUR  `node out.js` and the natively built program vs `run_go p`; and, independently of
     any model, node vs native Go (the property's own predicate).
Beyond the proved fragment ("compared, not proved"): generated programs with switch/fallthrough, goto,
labels, arrays/structs/slices/maps/strings, closures, methods, named results, multiple assignment,
shadowing, constants are compared node vs native Go only (harness/py/c01_wide.py).
"""
import json, os, re, sys
import common as C
import c01_gen as G
import c01_jsparse as J
import c01_wide as W
import c01_s2gen as G2

ID = "C01"
PROPS_FILE = "Props/C01.v"
MODEL_TARGETS = ["Corr/C01_Eval.v", "Corr/C01_S2_Eval.v"]
ALLOWED_AXIOMS = []
RULE = ("fragment programs: random well-formed MiniGo programs (2-4 initial declarations + ~14 top-level statements, nesting <= 3) over "
        "int8..uint/bool with all binary/unary operators, conversions, op-assign, ++/--, if/else-if/else, five loop shapes, "
        "(labelled) break/continue, println; literals biased to the kind's boundaries; plus fixed directed programs (defect witnesses, "
        "temp-name collisions, else-if chains with divisions). stage-2 programs: 1-3 helper functions (0-3 parameters of random kinds/bool, result or none, "
        "guarded self-recursion, division by a parameter) + main with calls in all three forms, if/for around calls, return inside loops, plus 6 directed "
        "programs (fib, panicking callee, return in loop, parameters named like temporaries, bool parameters, `x := f(x)` shadowing). non-trivial = builds and terminates within the fuel; distinct by Go source. "
        "wide programs: random compositions of feature snippets (switch/fallthrough, goto, arrays, structs, slices, maps, strings, closures, "
        "methods, named results, multiple assignment, shadowing, constants), compared node vs native Go only")
TRUSTED = [
    "GoSem/JsSem/Compile are hand-written (coq/Model/C01_*.v); tied on every run: parsed(real out.js) = compile p, run_js parsed = run_go p, node = run_go p, native go = run_go p",
    "MiniGo terms are name-resolved: the Python printer (c01_gen.py) emits Go source whose lexical scoping resolves to the declared identities; go/types itself is not modelled",
    "harness/py/c01_jsparse.py (JS subset parser; self-test: print->parse fixpoint on every program) and the outcome parsers",
    "JS numbers: integers as Z with -0 identified with 0 (console.log prints -0 for a negative zero; normalised to 0 when comparing println output, "
    "a documented println rendering difference); double division followed by ToInt32/ToUint32 is exact for operands below 2^32; "
    "Math.imul, Math.min, >>, >>>, <<, &, |, ^, ~ as in ECMAScript; V8 is trusted to implement the subset as JsSem says (checked only by (b)=(c))",
    "only the body of main is modelled; prelude, package initialisation and $throwRuntimeError -> uncaught panic -> exit status are observed, not modelled",
    "stage 2: Model/C01_S2_{GoSem,JsSem,Compile,Wf}.v are hand-written; tied on every run exactly like stage 1 (every function of a generated multi-function program parsed "
    "from the real out.js = compile2 p incl. parameter names and var lines; run_js2 parsed = run_go2 p; node = native Go = run_go2 p). JS function calls are modelled as: arguments "
    "left to right, a fresh store per activation (function scope; the fragment has no package-level variables or closures), `return`; V8's call stack depth is not modelled",
]
ASSUMPTIONS = [
    "proved fragment = programs accepted by wf_prog (coq/Model/C01_Wf.v, one function) or wf_prog2 (coq/Model/C01_S2_Wf.v, several functions); everything else of the property is 'compared, not proved'",
    "int/uint are 32 bit (documented GopherJS difference): the native reference is built with int32/uint32 in their place",
]
TECHNIQUE = ("Coq proof of a verified mini-compiler: forward simulation MiniGo -> MiniJS (same fuel) for the Gallina mirror of the translator, "
             "by induction on fuel and statements, in two stages (stage 1: one function; stage 2: several functions with calls, recursion and return, "
             "built on the stage-1 lemmas); tied to /repo on every run by exact structural equality (parsed real output = compile p), "
             "translation validation in Coq, and differential runs against node and native Go")
LEVEL_TEXT = ("Machine-checked, no axioms, no excluded inputs: for every well-formed MiniGo program (one function; int8..uint and bool locals; "
              "all integer operators, conversions, define/assign/op-assign/++/--, if / else-if / else, for with init/cond/post, labelled "
              "break/continue, println) whose Go run ends within the fuel, the JavaScript produced by the Gallina mirror of the translator "
              "prints the same lines and ends the same way (normal exit or the division panic), with the same fuel. Includes the temp-name "
              "allocator (_q _r x y numbered against user variables), else-if conditions translated before bodies, the post statement "
              "duplicated at every continue, and wrap-around of every operator at every width. STAGE 2 (compile_correct_stage2_partial, also no axioms): "
              "the same statement for programs of several top-level functions with int8..uint/bool parameters and zero or one result: calls as statements and "
              "as the right-hand side of = / := (arguments are arbitrary stage-1 expressions), recursion (one fuel unit per call), if/else and for loops around "
              "calls, return (also from inside those loops and ifs), call-free statements being arbitrary stage-1 statements; covers the per-function name "
              "allocator (parameters first, listed in the var line; temporaries numbered against them), the right-hand side translated before the defined "
              "variable is named, panics inside callees after partial output. On every run the mirror is compared for "
              "exact equality with the parsed output of the real compiler on generated programs, the parsed output is executed by the MiniJS "
              "interpreter inside Coq against the MiniGo interpreter, and node / native Go are compared with the model and with each other.")
LEVEL_NOTE = ("partial w.r.t. the property text only in scope: the theorems cover the stage-1 fragment (one function) and the stage-2 fragment (several "
              "functions; NOT covered: calls nested inside operator expressions or call arguments, package-level variables, break/continue across a loop "
              "containing a call, multiple results, closures, methods, composite types); the "
              "rest of the property (switch, goto, composite types, closures, methods, type switches ...) is compared against native Go on "
              "generated programs, not proved. GoSem/JsSem are validated differentially (native Go, V8), not derived from a mechanised standard.")

FUEL = 400
SIG_OF_CLASS = {}      # no recorded deviation classes: all former ones are repaired in /repo


def prepare(ctx):
    C.ensure_gopherjs()


# ---------------------------------------------------------------- directed programs
def V(b, k=0):
    return ("var", (b, k))


def L(k, z):
    return ("lit", k, z)


def directed():
    """fixed MiniGo programs: defect witnesses and allocator / ordering corner cases"""
    P = []
    # known findings (each: minimal witness)
    P.append(("quo-minint", [("define", ("a", 0), "I8", L("I8", -128), True), ("define", ("b", 0), "I8", L("I8", -1), True),
                             ("print", [("bin", False, "I8", "Quo", V("a"), V("b"))])]))
    P.append(("neg-minint", [("define", ("x", 0), "I32", L("I32", -2147483648), True), ("assign", ("x", 0), ("neg", "I32", V("x"))),
                             ("print", [V("x")])]))
    P.append(("shr-const-ge32", [("define", ("x", 0), "I", L("I", -5), True), ("print", [("bin", False, "I", "Shr", V("x"), L("U", 32))])]))
    P.append(("shift-skips-panic", [("define", ("x", 0), "I", L("I", 1), True), ("define", ("z", 0), "I", L("I", 0), True),
                                    ("define", ("s", 0), "U", L("U", 40), True),
                                    ("print", [("bin", False, "I", "Shl", ("bin", False, "I", "Quo", V("x"), V("z")), V("s"))])]))
    # user variables that share bases with temporaries; shift temp allocated before the declared variable
    P.append(("temp-collision", [
        ("define", ("s", 0), "U8", L("U8", 3), True), ("define", ("_q", 0), "I", L("I", 100), True),
        ("define", ("y", 0), "I", ("bin", False, "I", "Shl", V("_q"), V("s")), False),
        ("define", ("_r", 0), "I", ("bin", False, "I", "Rem", ("bin", False, "I", "Quo", V("y", 0), V("_q")), L("I", 7)), False),
        ("if", ("cmp", "I", "Gt", V("y"), L("I", 0)),
         [("define", ("y", 1), "U16", ("bin", False, "U16", "Shr", ("conv", "I", "U16", V("y", 0)), V("s")), False), ("print", [V("y", 1)])], None),
        ("print", [V("y"), V("_q"), V("_r"), V("s")])]))
    # else-if chain: all conditions are translated before the bodies
    P.append(("elseif-order", [
        ("define", ("a", 0), "I", L("I", 17), True), ("define", ("b", 0), "I", L("I", 5), True),
        ("if", ("cmp", "I", "Gt", ("bin", False, "I", "Quo", V("a"), V("b")), L("I", 5)),
         [("assign", ("a", 0), ("bin", False, "I", "Quo", V("a"), L("I", 2)))],
         ("if", ("cmp", "I", "Eq", ("bin", False, "I", "Rem", V("a"), V("b")), L("I", 2)),
          [("assign", ("b", 0), ("bin", False, "I", "Rem", V("b"), L("I", 3)))],
          [("assign", ("a", 0), ("bin", False, "I", "Quo", V("b"), V("a")))])),
        ("print", [V("a"), V("b")])]))
    # continue in a loop with a post statement that needs temporaries; labelled continue from the inner loop
    P.append(("continue-post", [
        ("define", ("n", 0), "I", L("I", 40), True),
        ("for", "L1", ("define", ("i", 0), "I", L("I", 64), False), ("cmp", "I", "Gt", V("i"), L("I", 0)),
         ("assign", ("i", 0), ("bin", False, "I", "Quo", V("i"), L("I", 2))),
         [("if", ("cmp", "I", "Eq", ("bin", False, "I", "Rem", V("i"), L("I", 3)), L("I", 1)), [("continue", None)], None),
          ("for", None, ("define", ("j", 0), "U8", L("U8", 0), False), ("cmp", "U8", "Lt", V("j"), L("U8", 4)), ("incdec", ("j", 0), "U8", True),
           [("if", ("cmp", "U8", "Eq", V("j"), L("U8", 2)), [("continue", "L1")], None),
            ("opassign", ("n", 0), "I", "Sub", ("conv", "U8", "I", V("j"))),
            ("print", [V("i"), V("j"), V("n")])]),
          ("print", [V("i")])]),
        ("print", [V("n")])]))
    # division by zero inside a loop: panic ending after some output
    P.append(("panic", [
        ("define", ("d", 0), "U8", L("U8", 3), True),
        ("for", None, None, None, None,
         [("print", [("bin", False, "U8", "Quo", L("U8", 100), V("d"))]), ("incdec", ("d", 0), "U8", False)])]))
    P.append(("rem-by-zero", [("define", ("a", 0), "I16", L("I16", 7), True), ("define", ("z", 0), "I16", L("I16", 0), True),
                              ("print", [V("a")]), ("print", [("bin", False, "I16", "Rem", V("a"), V("z"))]), ("print", [V("z")])]))
    # boundary arithmetic of every kind
    for k in G.KINDS:
        lo, hi = G.lo(k), G.hi(k)
        P.append(("bounds-" + k, [
            ("define", ("a", 0), k, L(k, hi), True), ("define", ("b", 0), k, L(k, lo), True), ("define", ("c", 0), k, L(k, 3), True),
            ("define", ("s", 0), "U", L("U", 31), True),
            ("print", [("bin", False, k, "Add", V("a"), V("c")), ("bin", False, k, "Sub", V("b"), V("c")), ("bin", False, k, "Mul", V("a"), V("a")),
                       ("bin", False, k, "Mul", V("b"), V("a"))]),
            ("print", [("bin", False, k, "Quo", V("b"), V("c")), ("bin", False, k, "Rem", V("b"), V("c")), ("bin", False, k, "Xor", V("a"), V("b")),
                       ("bin", False, k, "AndNot", V("a"), V("c")), ("bin", False, k, "And", V("b"), V("a")), ("bin", False, k, "Or", V("b"), V("c"))]),
            ("print", [("bin", False, k, "Shl", V("a"), V("s")), ("bin", False, k, "Shr", V("b"), V("s")), ("bin", False, k, "Shr", V("a"), L("U", 3)),
                       ("bin", False, k, "Shl", V("c"), L("U", 31)), ("cpl", k, V("a")), ("neg", k, V("a")), ("neg", k, V("c"))]),
            ("opassign", ("s", 0), "U", "Add", L("U", 9)),
            ("print", [("bin", False, k, "Shl", V("a"), V("s")), ("bin", False, k, "Shr", V("b"), V("s")), ("bin", False, k, "Shr", V("a"), V("s"))]),
        ]))
    return P


# ---------------------------------------------------------------- running one program
INT_RE = re.compile(r"^-?\d+$")


def parse_lines(lines):
    """println output lines -> list of lists of ("i", z) | ("b", bool); None if a token is neither"""
    out = []
    for ln in lines:
        toks = ln.split(" ") if ln != "" else []
        row = []
        for t in toks:
            if t in ("true", "false"):
                row.append(("b", t == "true"))
            elif INT_RE.match(t):
                row.append(("i", int(t)))      # "-0" -> 0 (negative zero, see TRUSTED)
            else:
                return None
        out.append(row)
    return out


def outcome_node(rc, out, err):
    lines = out.split("\n")
    if lines and lines[-1] == "":
        lines.pop()
    if rc == 124 or "[timeout" in err:
        return ("infra", "node timed out")
    rows = parse_lines(lines)
    if rows is None:
        return ("other", "unparsable stdout: " + out[-300:])
    if rc == 0:
        return ("done", rows, "exit")
    if "integer divide by zero" in err:
        return ("done", rows, "panic")
    return ("other", "exit status %d: %s" % (rc, err[-400:]))


def outcome_native(rc, out, err):
    lines = err.split("\n")
    if lines and lines[-1] == "":
        lines.pop()
    pan = None
    for i, l in enumerate(lines):
        if l.startswith("panic: "):
            pan = i
            break
    body = lines if pan is None else lines[:pan]
    if rc == 124 or "[timeout" in err:
        return ("infra", "native program timed out")
    rows = parse_lines(body)
    if rows is None:
        return ("other", "unparsable stderr: " + err[-300:])
    if pan is None and rc == 0:
        return ("done", rows, "exit")
    if pan is not None and "integer divide by zero" in lines[pan]:
        return ("done", rows, "panic")
    return ("other", "exit status %d: %s" % (rc, err[-400:]))


def cq_outcome(o):
    if o is None or o[0] != "done":
        return "Stuck"
    rows = "; ".join("[" + "; ".join(("(VI %s)" % J.cq_z(v)) if t == "i" else ("(VB %s)" % ("true" if v else "false")) for t, v in row) + "]"
                     for row in o[1])
    return "(Done [%s] %s)" % (rows, "Exit" if o[2] == "exit" else "PanicExit")


def run_fragment_batch(ctx, bi, items):
    """items: list of (idx, name, prog, full_parens). One gopherjs build and one native build for the whole batch
    (each program is a function progN of the same package; main runs the one named by argv), then per program:
    parse its function from the REAL out.js, run node and the native binary."""
    d = os.path.join(ctx.work, "b%d" % bi)
    results = []
    fj, fn = [], []
    for idx, name, prog, full in items:
        fname = "prog%d" % idx
        fj.append((fname, G.go_func(prog, fname, native=False, full=full)))
        fn.append((fname, G.go_func(prog, fname, native=True, full=full)))
        results.append(dict(idx=idx, name=name, prog=prog, fname=fname, source=G.go_source(prog, native=False, full=full), ok=False))
    C.write_go_program(d, {"main.go": G.batch_source(fj, native=False)}, module="verifc01")
    rc, log = C.gopherjs_build(d, timeout=900)
    if rc == 124:
        for res in results:
            res["infra"] = "gopherjs build timed out"
        return results
    if rc != 0:
        if len(items) == 1:
            results[0]["build_error"] = log[-1500:]
            return results
        out = []               # find the culprit(s): build one by one
        for k, it in enumerate(items):
            out += run_fragment_batch(ctx, bi * 1000 + k + 1, [it])
        return out
    rc, log = C.sh(["node", "--check", "out.js"], cwd=d, timeout=300)
    if rc == 124:
        for res in results:
            res["infra"] = "node --check timed out"
        return results
    if rc != 0:
        for res in results:
            res["syntax_error"] = log[-800:]
        return results
    js = open(os.path.join(d, "out.js")).read()
    dn = os.path.join(d, "native")
    C.write_go_program(dn, {"main.go": G.batch_source(fn, native=True)}, module="verifc01n")
    rc, nlog = C.sh(["go", "build", "-o", "prog", "."], cwd=dn, env=C.goenv(), timeout=900)
    native_ok = rc == 0
    if rc == 124:
        for res in results:
            res["infra"] = "native go build timed out"
        return results
    def run_one(res):
        try:
            parsed = J.parse_func(js, res["fname"])
            res["parsed"] = J.to_coq(parsed)
            res["roundtrip"] = J.roundtrip_ok(parsed)
            res["main_js"] = J.func_body_text(js, res["fname"])
        except J.ParseError as e:
            res["parse_error"] = str(e)
            try:
                res["main_js"] = J.func_body_text(js, res["fname"])
            except J.ParseError:
                pass
        rc, out, err = C.run_node(os.path.join(d, "out.js"), args=[res["fname"]], cwd=d, timeout=90)
        res["node"] = outcome_node(rc, out, err)
        if not native_ok:
            res["native_build_error"] = nlog[-1500:]
            return res
        rc, out, err = C.sh2(["./prog", res["fname"]], cwd=dn, timeout=120)
        res["native"] = outcome_native(rc, out, err)
        res["ok"] = True
        return res

    C.parallel_map(run_one, results, workers=4)
    return results


HEADER = ("From Coq Require Import ZArith List String Bool.\nFrom Verif Require Import Model.C01_GoSem Model.C01_JsSem Model.C01_Compile "
          "Model.C01_Wf Corr.C01_Eval.\nImport ListNotations.\nLocal Open Scope Z_scope.\n")
EMPTY_JS = "{| jp_vars := []; jp_body := [] |}"


def eval_shard(ctx, k, items):
    p = os.path.join(ctx.work, "cases_%d.v" % k)
    with open(p, "w") as f:
        f.write(HEADER)
        names = []
        for j, r in enumerate(items):
            f.write("Definition c%d : case := {| c_prog := %s;\n c_parsed := %s;\n c_node := %s; c_native := %s; c_fuel := %d |}.\n" % (
                j, G.coq_term(r["prog"]), r.get("parsed", EMPTY_JS), cq_outcome(r.get("node")), cq_outcome(r.get("native")), FUEL))
            names.append("c%d" % j)
        f.write("Definition M := Eval vm_compute in verdicts [%s].\nPrint M.\n" % "; ".join(names))
    rc, out = C.coq_run(p, timeout=1800)
    m = re.search(r"M\s*=\s*(\[.*?\])\s*:\s*list", out.replace("\n", " "), re.S)
    if rc != 0 or not m:
        return k, None, out[-1500:]
    rows = re.findall(r"\[([^\[\]]*)\]", m.group(1))
    vs = [[int(x.replace("%N", "")) for x in re.findall(r"\d+(?:%N)?", row)] for row in rows]
    if len(vs) != len(items):
        return k, None, "verdict count mismatch: " + out[-800:]
    return k, vs, ""


def fragment(ctx):
    r = ctx.rng("fragment")
    n = int(os.environ.get("VERIF_C01_N", 0)) or (96 if ctx.quick else 1200)      # override only for trying mutations quickly
    progs = [(name, p, False) for name, p in directed()]
    feats = {}
    for i in range(n):
        size = r.choice([6, 10, 14, 14, 20])
        p, f = G.generate(r, size=size)
        progs.append(("random-%d" % i, p, r.random() < 0.3))
        for x in f:
            feats[x] = feats.get(x, 0) + 1
    items = [(i, progs[i][0], progs[i][1], progs[i][2]) for i in range(len(progs))]
    bsz = 12
    batches = [items[i:i + bsz] for i in range(0, len(items), bsz)]
    results = [x for rs in C.parallel_map(lambda k: run_fragment_batch(ctx, k, batches[k]), range(len(batches))) for x in rs]
    ctx.log("fragment: %d programs built and run" % len(results))

    dist = dict(programs=len(results), build_failures=0, endings=dict(exit=0, panic=0), out_of_fuel=0, excluded_class_hits=0,
                structural_equal=0, validated_in_coq=0, node_equal_model=0, native_equal_model=0, source_lines=0, js_statements=0,
                parser_roundtrip_ok=0)
    evaluable = []
    for res in results:
        rep = dict(kind="fragment", name=res["name"], source=res["source"])
        dist["source_lines"] += res["source"].count("\n")
        if "infra" not in res:
            for side in ("node", "native"):
                if res.get(side) and res[side][0] == "infra":
                    res["infra"] = res[side][1]
        if "infra" in res:
            dist["skipped_infrastructure"] = dist.get("skipped_infrastructure", 0) + 1
            ctx.notes.append("skipped %s: %s" % (res["name"], res["infra"]))
            continue
        if "build_error" in res:
            dist["build_failures"] += 1
            sig = "compiler-internal-error" if "compiler panic" in res["build_error"] or "internal" in res["build_error"] else "build-failed"
            ctx.violation(sig, "gopherjs build failed on a well-formed fragment program", dict(rep, log=res["build_error"]), concrete=True)
            continue
        if "syntax_error" in res:
            ctx.violation("emitted-js-syntax-error", "node --check rejects out.js", dict(rep, log=res["syntax_error"]), concrete=True)
            continue
        if "native_build_error" in res:
            ctx.violation("generator-program-rejected-by-go", "native go build rejects a generated program (generator bug)",
                          dict(rep, log=res["native_build_error"]), concrete=False)
            continue
        # the property's own predicate, no model involved: node behaves like native Go
        nd, nt = res["node"], res["native"]
        res["behaviour_differs"] = (nd != nt)
        evaluable.append(res)

    shard = 10
    shards = [evaluable[i:i + shard] for i in range(0, len(evaluable), shard)]
    outs = C.parallel_map(lambda k: eval_shard(ctx, k, shards[k]), range(len(shards)))
    for k, vs, err in outs:
        if vs is None and "[timeout" in err:
            ctx.notes.append("skipped shard %d: coqc timed out" % k)
            continue
        if vs is None:
            ctx.violation("model-eval-failed", "Coq evaluation of the model failed", dict(shard=k, log=err), concrete=False)
            for res in shards[k]:
                if res["behaviour_differs"]:
                    ctx.violation("node-differs-from-native-go", "node and native Go disagree", dict(kind="fragment", name=res["name"], source=res["source"],
                                  node=res["node"], native=res["native"]), concrete=True)
            continue
        for res, v in zip(shards[k], vs):
            wf, svars, sbody, closed, tv, modeljs, node_eq, native_eq, cls = v
            rep = dict(kind="fragment", name=res["name"], source=res["source"], node=res["node"], native=res["native"], verdict=v,
                       main_js=res.get("main_js", "")[:4000])
            nontrivial = cls == 0
            ctx.count(res["source"], nontrivial=nontrivial)
            if res["idx"] < 2 or (res["name"].startswith("random") and len(ctx.samples) < 4):
                ctx.sample(dict(name=res["name"], source=res["source"][:1200], node=str(res["node"])[:300], verdict=v))
            dist["parser_roundtrip_ok"] += bool(res.get("roundtrip"))
            dist["js_statements"] += res.get("main_js", "").count(";")
            if cls == 1:
                dist["out_of_fuel"] += 1
            if cls in SIG_OF_CLASS:
                dist["excluded_class_hits"] += 1
            if res["node"][0] == "done":
                dist["endings"][res["node"][2]] += 1
            concrete_reported = False
            if res["behaviour_differs"]:
                sig = SIG_OF_CLASS.get(cls, "node-differs-from-native-go")
                ctx.violation(sig, "node out.js and the natively built program disagree (%s)" % res["name"], rep, concrete=True)
                concrete_reported = True
            elif cls in SIG_OF_CLASS:
                dist["excluded_class_hits_without_visible_difference"] = dist.get("excluded_class_hits_without_visible_difference", 0) + 1
            if not wf:
                ctx.violation("generator-not-wellformed", "generated program rejected by wf_prog (generator bug)", rep, concrete=False)
                continue
            if cls == 2:
                ctx.violation("gosem-stuck", "GoSem is stuck on a well-formed program", rep, concrete=False)
                continue
            if "parse_error" in res:
                if not concrete_reported:
                    ctx.violation("emitted-js-outside-subset", "main of the real out.js is outside the MiniJS subset: " + res["parse_error"][:200], rep, concrete=False)
                continue
            if not res.get("roundtrip"):
                ctx.violation("jsparse-selftest", "JS parser self-test (print->parse) failed", rep, concrete=False)
            ok_struct = svars and sbody and closed
            dist["structural_equal"] += bool(ok_struct)
            if cls == 1:
                continue
            dist["validated_in_coq"] += bool(tv)
            dist["node_equal_model"] += bool(node_eq)
            dist["native_equal_model"] += bool(native_eq)
            if not native_eq:
                ctx.violation("gosem-differs-from-native-go", "run_go disagrees with the natively built program (spec side of the model)", rep, concrete=False)
                continue
            if concrete_reported:
                continue
            if not ok_struct:
                what = "var list" if not svars else ("body" if not sbody else "undeclared identifier")
                ctx.violation("structural-mismatch-" + what.replace(" ", "-"),
                              "parsed main of the real out.js differs from `compile p` (%s): the theorem no longer speaks about this translator" % what,
                              rep, concrete=False)
            if cls == 0 and not tv:
                ctx.violation("translation-validation-failed", "run_js (parsed real output) differs from run_go", rep, concrete=False)
            if cls == 0 and not modeljs:
                ctx.violation("model-compile-incorrect", "run_js (compile p) differs from run_go: contradicts compile_correct", rep, concrete=False)
            if cls == 0 and not node_eq:
                ctx.violation("node-differs-from-model", "node out.js differs from run_go", rep, concrete=False)
    dist["generator_features"] = feats
    ctx.cov["fragment_proved_and_tied"] = dist


# ---------------------------------------------------------------- stage 2: several functions, calls, return
def run_stage2_batch(ctx, bi, items):
    """items: list of (idx, name, prog2, full_parens). Like run_fragment_batch; every function of every program is parsed
    from the REAL out.js; node / native are run with the name of the program's main function."""
    d = os.path.join(ctx.work, "s2b%d" % bi)
    results = []
    fj, fn = [], []
    for idx, name, prog, full in items:
        fj.append((prog["main"], G2.go_funcs(prog, native=False, full=full)))
        fn.append((prog["main"], G2.go_funcs(prog, native=True, full=full)))
        results.append(dict(idx=idx, name=name, prog=prog, fname=prog["main"], source=G2.go_source(prog, native=False, full=full), ok=False))
    C.write_go_program(d, {"main.go": G.batch_source(fj, native=False)}, module="verifc01s2")
    rc, log = C.gopherjs_build(d, timeout=900)
    if rc == 124:
        for res in results:
            res["infra"] = "gopherjs build timed out"
        return results
    if rc != 0:
        if len(items) == 1:
            results[0]["build_error"] = log[-1500:]
            return results
        out = []               # find the culprit(s): build one by one
        for k, it in enumerate(items):
            out += run_stage2_batch(ctx, bi * 1000 + k + 1, [it])
        return out
    rc, log = C.sh(["node", "--check", "out.js"], cwd=d, timeout=300)
    if rc == 124:
        for res in results:
            res["infra"] = "node --check timed out"
        return results
    if rc != 0:
        for res in results:
            res["syntax_error"] = log[-800:]
        return results
    js = open(os.path.join(d, "out.js")).read()
    dn = os.path.join(d, "native")
    C.write_go_program(dn, {"main.go": G.batch_source(fn, native=True)}, module="verifc01s2n")
    rc, nlog = C.sh(["go", "build", "-o", "prog", "."], cwd=dn, env=C.goenv(), timeout=900)
    native_ok = rc == 0
    if rc == 124:
        for res in results:
            res["infra"] = "native go build timed out"
        return results

    def run_one(res):
        names = [f["name"] for f in res["prog"]["funcs"]]
        texts = []
        for f in names:
            try:
                texts.append(J.func2_text(js, f))
            except J.ParseError:
                pass
        res["main_js"] = "".join(texts)
        try:
            parsed = [(f, J.parse_func2(js, f)) for f in names]
            res["parsed"] = J.to_coq2(parsed, res["fname"])
            res["roundtrip"] = all(J.roundtrip2_ok(p) for _, p in parsed)
        except J.ParseError as e:
            res["parse_error"] = str(e)
        rc, out, err = C.run_node(os.path.join(d, "out.js"), args=[res["fname"]], cwd=d, timeout=90)
        res["node"] = outcome_node(rc, out, err)
        if not native_ok:
            res["native_build_error"] = nlog[-1500:]
            return res
        rc, out, err = C.sh2(["./prog", res["fname"]], cwd=dn, timeout=120)
        res["native"] = outcome_native(rc, out, err)
        res["ok"] = True
        return res

    C.parallel_map(run_one, results, workers=4)
    return results


HEADER2 = ("From Coq Require Import ZArith List String Bool.\nFrom Verif Require Import Model.C01_GoSem Model.C01_JsSem Model.C01_Compile "
           "Model.C01_Wf Corr.C01_Eval Model.C01_S2_GoSem Model.C01_S2_JsSem Model.C01_S2_Compile Model.C01_S2_Wf Corr.C01_S2_Eval.\n"
           "Import ListNotations.\nLocal Open Scope Z_scope.\n")
EMPTY_JS2 = '{| jp2_funcs := []; jp2_main := ""%string |}'


def eval_shard2(ctx, k, items):
    p = os.path.join(ctx.work, "s2cases_%d.v" % k)
    with open(p, "w") as f:
        f.write(HEADER2)
        names = []
        for j, r in enumerate(items):
            f.write("Definition c%d : case2 := {| c2_prog := %s;\n c2_parsed := %s;\n c2_node := %s; c2_native := %s; c2_fuel := %d |}.\n" % (
                j, G2.coq_term(r["prog"]), r.get("parsed", EMPTY_JS2), cq_outcome(r.get("node")), cq_outcome(r.get("native")), FUEL))
            names.append("c%d" % j)
        f.write("Definition M := Eval vm_compute in verdicts2 [%s].\nPrint M.\n" % "; ".join(names))
    rc, out = C.coq_run(p, timeout=1800)
    m = re.search(r"M\s*=\s*(\[.*?\])\s*:\s*list", out.replace("\n", " "), re.S)
    if rc != 0 or not m:
        return k, None, out[-1500:]
    rows = re.findall(r"\[([^\[\]]*)\]", m.group(1))
    vs = [[int(x.replace("%N", "")) for x in re.findall(r"\d+(?:%N)?", row)] for row in rows]
    if len(vs) != len(items):
        return k, None, "verdict count mismatch: " + out[-800:]
    return k, vs, ""


def stage2(ctx):
    r = ctx.rng("stage2")
    n = int(os.environ.get("VERIF_C01_N2", 0)) or (36 if ctx.quick else 400)
    progs = [(name, p, False) for name, p in G2.directed(0)]
    feats = {}
    for i in range(n):
        p, f = G2.generate(r, len(progs))
        progs.append(("s2-random-%d" % i, p, r.random() < 0.3))
        for x in f:
            feats[x] = feats.get(x, 0) + 1
    items = [(i, progs[i][0], progs[i][1], progs[i][2]) for i in range(len(progs))]
    bsz = 12
    batches = [items[i:i + bsz] for i in range(0, len(items), bsz)]
    results = [x for rs in C.parallel_map(lambda k: run_stage2_batch(ctx, k, batches[k]), range(len(batches))) for x in rs]
    ctx.log("stage2: %d programs built and run" % len(results))

    dist = dict(programs=len(results), functions=0, build_failures=0, endings=dict(exit=0, panic=0), out_of_fuel=0,
                structural_equal=0, validated_in_coq=0, node_equal_model=0, native_equal_model=0, source_lines=0, js_statements=0,
                parser_roundtrip_ok=0)
    evaluable = []
    for res in results:
        rep = dict(kind="fragment", stage=2, name=res["name"], source=res["source"])
        dist["source_lines"] += res["source"].count("\n")
        dist["functions"] += len(res["prog"]["funcs"])
        if "infra" not in res:
            for side in ("node", "native"):
                if res.get(side) and res[side][0] == "infra":
                    res["infra"] = res[side][1]
        if "infra" in res:
            dist["skipped_infrastructure"] = dist.get("skipped_infrastructure", 0) + 1
            ctx.notes.append("skipped %s: %s" % (res["name"], res["infra"]))
            continue
        if "build_error" in res:
            dist["build_failures"] += 1
            sig = "s2-compiler-internal-error" if "compiler panic" in res["build_error"] or "internal" in res["build_error"] else "s2-build-failed"
            ctx.violation(sig, "gopherjs build failed on a well-formed stage-2 program", dict(rep, log=res["build_error"]), concrete=True)
            continue
        if "syntax_error" in res:
            ctx.violation("s2-emitted-js-syntax-error", "node --check rejects out.js", dict(rep, log=res["syntax_error"]), concrete=True)
            continue
        if "native_build_error" in res:
            ctx.violation("s2-generator-program-rejected-by-go", "native go build rejects a generated program (generator bug)",
                          dict(rep, log=res["native_build_error"]), concrete=False)
            continue
        res["behaviour_differs"] = (res["node"] != res["native"])
        evaluable.append(res)

    shard = 8
    shards = [evaluable[i:i + shard] for i in range(0, len(evaluable), shard)]
    outs = C.parallel_map(lambda k: eval_shard2(ctx, k, shards[k]), range(len(shards)))
    nsamples = 0
    for k, vs, err in outs:
        if vs is None and "[timeout" in err:
            ctx.notes.append("skipped stage-2 shard %d: coqc timed out" % k)
            continue
        if vs is None:
            ctx.violation("s2-model-eval-failed", "Coq evaluation of the stage-2 model failed", dict(shard=k, log=err), concrete=False)
            for res in shards[k]:
                if res["behaviour_differs"]:
                    ctx.violation("s2-node-differs-from-native-go", "node and native Go disagree", dict(kind="fragment", stage=2, name=res["name"],
                                  source=res["source"], node=res["node"], native=res["native"]), concrete=True)
            continue
        for res, v in zip(shards[k], vs):
            wf, svars, sbody, closed, tv, modeljs, node_eq, native_eq, cls = v
            rep = dict(kind="fragment", stage=2, name=res["name"], source=res["source"], node=res["node"], native=res["native"], verdict=v,
                       main_js=res.get("main_js", "")[:6000])
            nontrivial = cls == 0
            ctx.count(res["source"], nontrivial=nontrivial)
            if res["idx"] < 1 or (res["name"].startswith("s2-random") and nsamples < 2):
                nsamples += res["name"].startswith("s2-random")
                ctx.sample(dict(name=res["name"], source=res["source"][:1500], node=str(res["node"])[:300], verdict=v))
            dist["parser_roundtrip_ok"] += bool(res.get("roundtrip"))
            dist["js_statements"] += res.get("main_js", "").count(";")
            if cls == 1:
                dist["out_of_fuel"] += 1
            if res["node"][0] == "done":
                dist["endings"][res["node"][2]] += 1
            concrete_reported = False
            if res["behaviour_differs"]:
                ctx.violation("s2-node-differs-from-native-go", "node out.js and the natively built program disagree (%s)" % res["name"], rep, concrete=True)
                concrete_reported = True
            if not wf:
                ctx.violation("s2-generator-not-wellformed", "generated program rejected by wf_prog2 (generator bug)", rep, concrete=False)
                continue
            if cls == 2:
                ctx.violation("s2-gosem-stuck", "stage-2 GoSem is stuck on a well-formed program", rep, concrete=False)
                continue
            if "parse_error" in res:
                if not concrete_reported:
                    ctx.violation("s2-emitted-js-outside-subset", "a function of the real out.js is outside the stage-2 MiniJS subset: " + res["parse_error"][:200],
                                  rep, concrete=False)
                continue
            if not res.get("roundtrip"):
                ctx.violation("s2-jsparse-selftest", "JS parser self-test (print->parse) failed", rep, concrete=False)
            ok_struct = svars and sbody and closed
            dist["structural_equal"] += bool(ok_struct)
            if cls == 1:
                continue
            dist["validated_in_coq"] += bool(tv)
            dist["node_equal_model"] += bool(node_eq)
            dist["native_equal_model"] += bool(native_eq)
            if not native_eq:
                ctx.violation("s2-gosem-differs-from-native-go", "run_go2 disagrees with the natively built program (spec side of the model)", rep, concrete=False)
                continue
            if concrete_reported:
                continue
            if not ok_struct:
                what = "names" if not svars else ("body" if not sbody else "undeclared identifier")
                ctx.violation("s2-structural-mismatch-" + what.replace(" ", "-"),
                              "functions parsed from the real out.js differ from `compile2 p` (%s): the theorem no longer speaks about this translator" % what,
                              rep, concrete=False)
            if cls == 0 and not tv:
                ctx.violation("s2-translation-validation-failed", "run_js2 (parsed real output) differs from run_go2", rep, concrete=False)
            if cls == 0 and not modeljs:
                ctx.violation("s2-model-compile-incorrect", "run_js2 (compile2 p) differs from run_go2: contradicts the stage-2 theorem", rep, concrete=False)
            if cls == 0 and not node_eq:
                ctx.violation("s2-node-differs-from-model", "node out.js differs from run_go2", rep, concrete=False)
    dist["generator_features"] = feats
    ctx.cov["stage2_proved_and_tied"] = dist


def wide(ctx):
    r = ctx.rng("wide")
    nb = int(os.environ.get("VERIF_C01_NW", 0)) or (3 if ctx.quick else 30)
    gper = 36
    batches = [W.generate_batch(r, gper) for _ in range(nb)]
    feats = {}

    def one(i):
        src_js, src_native, groups = batches[i]
        d = os.path.join(ctx.work, "w%d" % i)
        C.write_go_program(d, {"main.go": src_js}, module="verifc01w")
        rc, log = C.gopherjs_build(d, timeout=900)
        if rc == 124:
            return dict(i=i, infra="gopherjs build timed out")
        if rc != 0:
            return dict(i=i, build_error=log[-1500:])
        rc, log = C.sh(["node", "--check", "out.js"], cwd=d, timeout=300)
        if rc == 124:
            return dict(i=i, infra="node --check timed out")
        if rc != 0:
            return dict(i=i, syntax_error=log[-800:])
        dn = os.path.join(d, "native")
        C.write_go_program(dn, {"main.go": src_native}, module="verifc01wn")
        rc, log = C.sh(["go", "build", "-o", "prog", "."], cwd=dn, env=C.goenv(), timeout=900)
        if rc == 124:
            return dict(i=i, infra="native go build timed out")
        if rc != 0:
            return dict(i=i, native_build_error=log[-1500:])
        def run_one(grp):
            g, fs, text = grp
            rc, out, err = C.run_node(os.path.join(d, "out.js"), args=[g], cwd=d, timeout=90)
            nd = W.observe(rc, out, err, node=True)
            rc, out, err = C.sh2(["./prog", g], cwd=dn, timeout=120)
            return (g, fs, text, nd, W.observe(rc, out, err, node=False))

        runs = C.parallel_map(run_one, groups, workers=6)
        return dict(i=i, runs=runs)

    res = C.parallel_map(one, range(nb))
    agree, total = 0, 0
    for x in res:
        src_js, src_native, groups = batches[x["i"]]
        rep = dict(kind="wide", source=src_js)
        if "infra" in x:
            ctx.notes.append("skipped wide batch %d: %s" % (x["i"], x["infra"]))
            continue
        if "build_error" in x:
            sig = "compiler-internal-error" if "compiler panic" in x["build_error"] else "build-failed-wide"
            ctx.violation(sig, "gopherjs build failed on a generated program (compared-not-proved part)", dict(rep, log=x["build_error"]), concrete=True)
            continue
        if "syntax_error" in x:
            ctx.violation("emitted-js-syntax-error", "node --check rejects out.js", dict(rep, log=x["syntax_error"]), concrete=True)
            continue
        if "native_build_error" in x:
            ctx.violation("generator-program-rejected-by-go", "native go build rejects a generated wide program (generator bug)", dict(rep, log=x["native_build_error"]), concrete=False)
            continue
        for g, fs, text, nd, nt in x["runs"]:
            if nd[1] == "infra" or nt[1] == "infra":
                ctx.notes.append("skipped wide snippet %s: timed out" % g)
                continue
            total += 1
            for f in fs:
                feats[f] = feats.get(f, 0) + 1
            ctx.count(["wide", text], nontrivial=True)
            if nd != nt:
                ctx.violation("wide-" + W.classify(nd, nt, fs), "node and native Go disagree on group %s (compared-not-proved part)" % g,
                              dict(rep, group=g, snippets=text, node=nd, native=nt, features=fs), concrete=True)
            else:
                agree += 1
    if batches:
        ctx.sample(dict(kind="wide", snippets=batches[0][2][0][2][:1500]))
    ctx.cov["wide_compared_not_proved"] = dict(batches=nb, groups_run=total, node_equals_native=agree, features=feats)


def correspond(ctx):
    fragment(ctx)
    ctx.log("fragment done")
    stage2(ctx)
    ctx.log("stage2 done")
    wide(ctx)
    ctx.log("wide done")


def search(ctx, proof_state):
    """a proof broke: the correspondence above already looked for a program on which node and native Go differ"""
    return any(v["concrete"] for v in ctx.violations)


def replay(ctx, data):
    rp = data["replay"]
    src = rp.get("source")
    if not src:
        print(json.dumps(data, indent=1))
        return 0
    args = [rp["group"]] if rp.get("group") else []
    d = os.path.join(ctx.work, "replay")
    C.write_go_program(d, {"main.go": src}, module="verifc01")
    rc, log = C.gopherjs_build(d, timeout=900)
    print("gopherjs build rc=%d %s" % (rc, log[-800:]))
    if rc == 0:
        rc, out, err = C.run_node(os.path.join(d, "out.js"), args=args, cwd=d)
        print("node rc=%d\nstdout:\n%s\nstderr:\n%s" % (rc, out, err[-600:]))
    dn = os.path.join(d, "native")
    nsrc = re.sub(r"\buint\b", "uint32", re.sub(r"\bint\b", "int32", src)) if rp.get("kind") == "fragment" else W.to_native(src)
    C.write_go_program(dn, {"main.go": nsrc}, module="verifc01n")
    rc, out, err = C.sh2(["go", "run", "."] + args, cwd=dn, env=C.goenv(), timeout=900)
    print("native go rc=%d\nstdout:\n%s\nstderr:\n%s" % (rc, out, err[-600:]))
    print("recorded node:", rp.get("node"), "\nrecorded native:", rp.get("native"))
    return 0
