"""C13 — JavaScript-backed standard-library overrides equal the Go originals.

Models: coq/Model/C13_{Bits,Unicode,Nosync,Float,Atomic}.v; theorems: coq/Props/C13.v.

Correspondence, all on /repo's current tree:
 (1) one table-driven Go program (harness/go/repo_overlay/compiler/verifharness/c13prog) applies EVERY
     overridden function of math, math/bits, unicode, sync/atomic to generated argument tables
     (special values, boundary grids, random bit patterns).  It is compiled with the real GopherJS
     compiler and run under node, and compiled with native Go (the direct oracle: upstream's own
     implementation).  Exact functions must agree bit for bit (NaNs canonicalised); for functions that
     end in V8's libm (Sin, Exp, Pow, ...) only the special cases are decided, the rest goes into an
     ulp histogram in the evidence ("compared, not proved").  The modelled functions are additionally
     compared with the Coq model on the same inputs.
 (2) random operation histories on Mutex/RWMutex/WaitGroup/Once/Map/Pool are run on nosync compiled by
     GopherJS, on nosync natively, and on the REAL sync package natively (every call in its own
     goroutine, "blocked" = no return within a timeout; fatal errors observed in a child process).
     Property: each nosync call returns what sync returns, or panics exactly when sync blocks/panics/dies.
     The nosync state machines of the Coq model are evaluated on the same histories.
"""
import json, os, re, struct, sys
import common as C
import c13_inputs as I

ID = "C13"
PROPS_FILE = "Props/C13.v"
MODEL_TARGETS = ["Corr/C13_Eval.v"]
EXTRA_TARGETS = ["Corr/C13_Eval.v"]   # rebuilt with the theorems too: in alt-repo mode the second rsync of check.py would otherwise
                                        # put back an Eval.vo compiled against /repo's Gen/C13_Variants.v
ALLOWED_AXIOMS = []
RULE = ("tables: every documented special value (+-0, +-Inf, NaNs of both signs, denormals, 2^31, 2^32, 2^52, 2^53, 2^63, max float, "
        "n+0.5 ties) and all pairs of a 37-value special set, plus random bit patterns (uniform / moderate / near-integer / tiny / huge); "
        "uint32 triples with the Div32 precondition hi<y in 60% of cases; (case, rune) pairs plus a digest sweep over all runes x 6 cases; "
        "atomic cells x operands with forced equalities for CompareAndSwap. histories: 1-14 operations on one fresh object, "
        "op kinds biased so that about a third reach a contended call. non-trivial = not a special-table entry; distinct by (function, input words)")
TRUSTED = ["hand-written models of bits.go / unicode.go `to` / nosync / the float-logic overrides of math.go / atomic.go, tied by this correspondence",
           "native Go 1.23 (amd64) as the reference for upstream behaviour; its assembly versions of Exp/Log/Hypot are treated as libm (histogram only)",
           "the characterisation of `1/x == -Inf` (IEEE division, round to nearest) in Model/C13_Float.v recip_is_neginf: derived by hand, exercised by the boundary inputs 0x8004000000000000/1",
           "V8's Math.* and typed-array aliasing (Float64bits/frombits): external, compared not modelled",
           "transcendental functions, Frexp/Ldexp/Mod/Remainder/Max/Min/..., internal/bytealg, nosync.Map/Pool: compared, not proved",
           "the table program, the history driver and the native harness (harness/go/repo_overlay/compiler/verifharness/c13*)",
           "sync's blocking behaviour is observed through a 40 ms timeout"]
ASSUMPTIONS = ["GopherJS's int is 32 bits wide: int arguments are kept inside int32, and Ldexp exponents inside +-2^30 (upstream ldexp's own "
               "`exp += e` overflows a 32-bit int beyond that, on every 32-bit Go port)",
               "histories run on one goroutine; a blocked call ends the sync-side history",
               "internal/bytealg cannot be imported by a program in this sandbox (strings/bytes do not build): not exercised"]
TECHNIQUE = ("Coq proofs over executable models (Knuth-D Div32 invariant, binary search = first-match scan on the regenerated CaseRanges table, "
             "nosync/sync simulation over all histories, exact dyadic model of the float-logic overrides) + differential runs of the real "
             "GopherJS-compiled code against native Go and against the models")
LEVEL_TEXT = ("Machine-checked: Mul32/Add32/Div32/Rem32 overrides equal the upstream 64-bit definitions for all uint32 arguments (panics included); "
              "the override's `to` equals upstream's `to` on every table and the first-match scan on sorted tables, instantiated with the real "
              "CaseRanges regenerated from GOROOT; nosync Mutex/RWMutex/WaitGroup/Once return what single-goroutine sync returns and panic exactly "
              "where sync blocks, panics or dies, for every history; atomic integer functions are the wrap-around read-modify-write; "
              "Signbit/Copysign/IsNaN/IsInf/Inf/Trunc/Modf overrides are characterised exactly against upstream on all bit patterns "
              "(equal except on the recorded input classes, for which refutation witnesses are proved). Every overridden function, modelled or "
              "not, is compared bit-exactly with native Go on generated tables on every run.")
LEVEL_NOTE = ("Proofs are about hand-written models; the tie is differential. Transcendental functions are compared only (ulp histogram), "
              "special cases decided. bytealg not reachable here. Findings recorded in known_findings.d/C13.txt are genuine divergences of /repo.")

PROG_SRC = os.path.join(C.OVERLAY_SRC, "compiler", "verifharness", "c13prog")
SYNC_SRC = os.path.join(C.OVERLAY_SRC, "compiler", "verifharness", "c13")
NSHARD = 16
TIMED_OUT = set()
NANC = 0x7FF8000000000001

# function name -> (domain, kind)   kind: "exact" decided bit for bit, "libm" special cases decided + histogram
FUNCS = {}
for _n in ("Ceil Floor Trunc Sqrt Abs Round RoundToEven Logb Expm1 Log1p Frexp Modf Ilogb IsNaN Signbit Float64bits Float64frombits "
           "Float64roundtrip Float32round").split():
    FUNCS[_n] = ("f1", "exact")
for _n in "Acos Acosh Asin Asinh Atan Atanh Cbrt Cos Cosh Erf Erfc Exp Exp2 Log Log10 Log2 Sin Sinh Tan Tanh Sincos".split():
    FUNCS[_n] = ("f1", "libm")
for _n in "Copysign Max Min Mod Remainder Nextafter Dim".split():
    FUNCS[_n] = ("f2", "exact")
for _n in "Atan2 Hypot Pow".split():
    FUNCS[_n] = ("f2", "libm")
for _n in "Ldexp IsInf Inf NaN".split():
    FUNCS[_n] = ("fi", "exact")
FUNCS.update(Float32bits=("u1", "exact"), LeadingZeros32=("u1", "exact"), Mul32=("u2", "exact"), Add32=("u3", "exact"), Sub32=("u3", "exact"),
             Div32=("u3", "exact"), Rem32=("u3", "exact"), UnicodeTo=("ru", "exact"), UnicodeCase=("ru", "exact"), UnicodeTurkish=("ru", "exact"),
             AtomicInt32=("a3", "exact"), AtomicUint32=("a3", "exact"), AtomicInt64=("a3", "exact"), AtomicUint64=("a3", "exact"),
             AtomicUintptr=("a3", "exact"), AtomicTyped=("a3", "exact"), AtomicValue=("a3", "exact"), AtomicPointer=("a3", "exact"),
             UnicodeSweep=(None, "exact"))
OVERRIDDEN_NOTE = "Abs Round RoundToEven Logb Nextafter Dim Ilogb Sub32 LeadingZeros32 are upstream code compiled on top of the overridden primitives"


# ------------------------------------------------------------------------------------------ prepare

GEN_PROG = """package main

import "unicode"

func main() {
	println("CONST", unicode.MaxCase, unicode.MaxRune, unicode.UpperLower, unicode.ReplacementChar)
	for _, c := range unicode.CaseRanges {
		println("CR", c.Lo, c.Hi, c.Delta[0], c.Delta[1], c.Delta[2])
	}
}
"""


def gen_tables(ctx):
    d = os.path.join(ctx.work, "gen")
    C.write_go_program(d, {"main.go": GEN_PROG}, module="verifc13gen")
    rc, out, err = C.sh2(["go", "run", "."], cwd=d, env=C.goenv(), timeout=300)
    if rc != 0:
        raise C.BuildError("C13 table generator failed: " + err[-500:])
    rows, consts = [], None
    for line in err.split("\n"):
        p = line.split()
        if p[:1] == ["CR"]:
            rows.append([int(x) for x in p[1:]])
        elif p[:1] == ["CONST"]:
            consts = [int(x) for x in p[1:]]
    if not rows or consts != [3, 1114111, 1114112, 65533]:
        raise C.BuildError("C13: unexpected unicode constants/table from GOROOT: %r, %d rows" % (consts, len(rows)))
    z = lambda v: "(%d)" % v
    txt = ("(* GENERATED by harness/py/props/c13.py from GOROOT/src/unicode/tables.go (unicode.CaseRanges); do not edit *)\n"
           "From Coq Require Import ZArith List.\nFrom Verif Require Import Model.C13_Unicode.\nImport ListNotations.\nLocal Open Scope Z_scope.\n"
           "Definition CaseRanges : list case_range := [\n" +
           ";\n".join("  {| cr_lo := %s; cr_hi := %s; cr_d0 := %s; cr_d1 := %s; cr_d2 := %s |}" % tuple(z(v) for v in r) for r in rows) + "].\n")
    C.write_if_changed(os.path.join(C.COQ, "Gen", "C13_CaseRanges.v"), txt)
    # which shape does math.Trunc have in the tree under test?
    src = open(os.path.join(C.REPO, "compiler", "natives", "src", "math", "math.go")).read()
    m = re.search(r"func Trunc\(x float64\) float64 \{(.*?)\n\}", src, re.S)
    body = m.group(1) if m else ""
    if "float64(int(x))" in body:
        kind = "TruncViaInt32"
    elif re.search(r'math\.Call\("trunc",\s*x\)', body) and "int(" not in body:
        kind = "TruncViaMathTruncGuarded" if "negInf" in body else "TruncViaMathTrunc"
    else:
        kind = "TruncViaInt32"
        ctx.notes.append("math.Trunc has a shape the model does not know; assuming the original one (a model mismatch will show)")
    ctx.cov["trunc_shape"] = kind
    m = re.search(r"func Modf\(f float64\) \(float64, float64\) \{(.*?)\n\}", src, re.S)
    body = m.group(1) if m else ""
    if "Mod(f, 1)" in body:
        mkind = "ModfViaMod"
    elif "Trunc(f)" in body and "Copysign(" in body:
        mkind = "ModfViaTrunc"
    else:
        mkind = "ModfViaMod"
        ctx.notes.append("math.Modf has a shape the model does not know; assuming the original one (a model mismatch will show)")
    ctx.cov["modf_shape"] = mkind
    C.write_if_changed(os.path.join(C.COQ, "Gen", "C13_Variants.v"),
                       "(* GENERATED by harness/py/props/c13.py from compiler/natives/src/math/math.go; do not edit *)\n"
                       "From Verif Require Import Model.C13_Float.\nDefinition trunc_impl : trunc_kind := %s.\nDefinition modf_impl : modf_kind := %s.\n" % (kind, mkind))
    return len(rows)


def prepare(ctx):
    C.ensure_gopherjs()
    C.ensure_go_harness("c13")
    n = gen_tables(ctx)
    ctx.cov["case_ranges_regenerated"] = n


# ------------------------------------------------------------------------------------------ table program

def build_and_run(ctx, tables, sweep, tag="prog"):
    d = os.path.join(ctx.work, tag)
    files = {f: open(os.path.join(PROG_SRC, f)).read() for f in os.listdir(PROG_SRC) if f.endswith(".go")}
    files["inputs.go"] = I.go_source(tables, sweep)
    C.write_go_program(d, files, module="verifc13")

    def b(which):
        if which == 0:
            return C.gopherjs_build(d, timeout=600)
        return C.sh(["go", "build", "-o", "native", "."], cwd=d, env=C.goenv(), timeout=600)
    (rc1, log1), (rc2, log2) = C.parallel_map(b, [0, 1])
    if rc1 == 124 or rc2 == 124:
        ctx.notes.append("table program build timed out (%s): round skipped" % tag)
        return None, None
    if rc1 != 0:
        ctx.violation("table-program-build-failed", "gopherjs build of the C13 table program failed", dict(log=log1[-1500:]), concrete=False)
        return None, None
    if rc2 != 0:
        raise C.BuildError("native build of the C13 table program failed: " + log2[-800:])

    def run(job):
        side, i = job
        if side == "js":
            rc, out, err = C.sh2(["node", "--stack-size=4000", "out.js", str(i), str(NSHARD)], cwd=d, timeout=3000)
            return side, i, rc, out, err
        rc, out, err = C.sh2(["./native", str(i), str(NSHARD)], cwd=d, timeout=3000)
        return side, i, rc, err, out           # println goes to stderr natively
    res = dict(js={}, go={})
    for side, i, rc, txt, other in C.parallel_map(run, [(s, i) for i in range(NSHARD) for s in ("js", "go")]):
        if rc == 124:
            ctx.notes.append("table program %s side shard %d timed out (%s): its blocks are skipped" % (side, i, tag))
            TIMED_OUT.add(tag)
            continue
        if rc != 0 or ("DONE %d" % i) not in txt:
            msg = "table program (%s side, shard %d) did not finish: rc=%d %s" % (side, i, rc, (other or txt)[-600:])
            if side == "js":
                ctx.violation("table-program-crashed", msg, dict(log=(other or txt)[-1500:]), concrete=False)
            else:
                raise C.BuildError(msg)
        for line in txt.split("\n"):
            p = line.split(" ")
            if len(p) == 3 and p[0] in FUNCS:
                res[side][(p[0], int(p[1]))] = p[2]
    return res["js"], res["go"]


def words(s):
    return [int(w, 16) for w in s.split(":")]


def fkey(b):
    return b if b < (1 << 63) else (1 << 63) - b


def is_nan(b):
    return (b >> 52) & 0x7FF == 0x7FF and b & ((1 << 52) - 1) != 0


def is_special(b):
    return b & ~(1 << 63) == 0 or (b >> 52) & 0x7FF == 0x7FF


def moderate(b):
    return 1023 - 30 <= ((b >> 52) & 0x7FF) <= 1023 + 30


def tiny_negative(b):
    """x < 0 and 1/x overflows to -Inf (|x| <= 2^-1024)"""
    return b >> 63 == 1 and 0 < (b & ~(1 << 63)) <= (1 << 50)


def classify(fn, ins, js, go):
    """canonical signature of an exact-function mismatch (specific to the failing input class)"""
    if fn in ("Trunc", "Round", "RoundToEven") and fn == "Trunc":
        x = ins[0]
        mag = I.b2f(x & ~(1 << 63))
        if tiny_negative(x):
            return "math-trunc-negative-tiny-returned-unchanged"
        if mag >= 2147483648.0 and not is_special(x):
            return "math-trunc-int32-wrap"
        return "math-trunc-other"
    if fn == "Modf":
        x = ins[0]
        if tiny_negative(x):
            return "math-modf-negative-tiny-int-part"
        if x >> 63 == 1 and I.b2f(x & ~(1 << 63)) < 1.0 and js[0] == 0 and go[0] == 1 << 63 and js[1] == go[1]:
            return "math-modf-int-part-plus-zero-for-negative-fraction"
        return "math-modf-other"
    if fn == "Signbit" and is_nan(ins[0]):
        return "math-signbit-negative-nan"
    if fn == "Copysign" and is_nan(ins[1]):
        return "math-copysign-nan-sign-operand"
    if fn == "AtomicValue":
        a, b, c = (w % 6 for w in ins)
        # steps 3 and 4 are CompareAndSwap(old=c, new=a) and CompareAndSwap(old=b, new=c): the only difference allowed into this
        # signature is "old == nil, GopherJS panics, Go returns false" on exactly those steps
        d3, d4 = js[2] != go[2], (js[3] >> 8) != (go[3] >> 8)
        ok3 = (not d3) or (c == 0 and (js[2] >> 32) == 0xDEAD0000 and go[2] == 2 << 32)
        ok4 = (not d4) or (b == 0 and (js[3] >> 32) == 0xDEAD0000 and (go[3] >> 8) == (3 << 24))
        if js[0] == go[0] and js[1] == go[1] and ok3 and ok4 and (d3 or d4) and (js[3] & 0xFF) == (go[3] & 0xFF):
            return "atomic-value-compareandswap-nil-old-panics"
        return "atomic-value-other"
    if fn.startswith("Unicode"):
        return "unicode-to-mismatch"
    return "%s-mismatch" % re.sub(r"[^a-z0-9]+", "-", fn.lower())


def lib_decided(fn, ins, js, go):
    """for libm-backed functions: is this a documented special case that must agree exactly?"""
    if any(is_special(w) for w in ins):
        return True
    if any(is_nan(w) for w in js) or any(is_nan(w) for w in go):
        return True
    if fn == "Pow":
        one = I.f2b(1.0)
        if ins[0] & ~(1 << 63) == one or ins[1] == one:
            return True
    return False


def near_edge(b):
    e = (b >> 52) & 0x7FF
    return e >= 2040 or e <= 4


def compare_tables(ctx, tables, js, go, label):
    """direct oracle: GopherJS-compiled results vs native Go.  Returns per-function data for the model comparison."""
    hist = {}
    nmis = {}
    per_fn = {}
    keys = sorted(set(js) | set(go))
    for key in keys:
        fn, blk = key
        if key not in js or key not in go:
            if TIMED_OUT:
                continue
            ctx.violation("table-program-output-missing", "block %r printed by only one side" % (key,), dict(key=list(key)), concrete=False)
            continue
        dom, kind = FUNCS[fn]
        if js[key] == go[key] and kind == "exact" and fn not in MODELLED:
            n = js[key].count(",") + 1
            per_fn.setdefault(fn, [0, 0])[0] += n
            continue
        a, b = js[key].split(","), go[key].split(",")
        if dom is None:              # UnicodeSweep: digests per case kind
            for ci, (x, y) in enumerate(zip(a, b)):
                per_fn.setdefault(fn, [0, 0])[0] += 1
                if x != y:
                    ctx.violation("unicode-to-mismatch", "unicode.To/ToUpper/ToLower/ToTitle differ from Go somewhere in runes [%#x, %#x) for case index %d" %
                                  (blk * 4096 - 4096, blk * 4096, ci), dict(kind="table", fn=fn, block=blk, case_index=ci, js=x, go=y))
            continue
        name, ar = I.DOMAINS[dom]
        tab = tables[name]
        for i, (x, y) in enumerate(zip(a, b)):
            idx = blk * 64 + i
            ins = tab[idx * ar:(idx + 1) * ar]
            per_fn.setdefault(fn, [0, 0])[0] += 1
            if fn in MODELLED:
                MODEL_ROWS.setdefault(fn, []).append((ins, x))
            if x == y:
                if kind == "libm":
                    hist.setdefault(fn, {}).setdefault("0", 0)
                    hist[fn]["0"] += 1
                continue
            xs, ys = words(x), words(y)
            if kind == "exact":
                sig = classify(fn, ins, xs, ys)
                nmis[sig] = nmis.get(sig, 0) + 1
                if nmis[sig] <= 3:
                    ctx.violation(sig, "%s(%s) = %s under GopherJS, %s in Go" % (fn, ", ".join(show_in(dom, w) for w in ins), show_out(xs), show_out(ys)),
                                  dict(kind="table", fn=fn, domain=dom, inputs=["%#x" % w for w in ins], gopherjs=x, go=y))
                else:
                    ctx.violations.append(dict(signature=sig, what="(further instance)", replay={}, concrete=True))
                continue
            # libm-backed
            h = hist.setdefault(fn, {})
            if lib_decided(fn, ins, xs, ys):
                sig = "math-%s-special-case" % fn.lower()
                nmis[sig] = nmis.get(sig, 0) + 1
                if nmis[sig] <= 3:
                    ctx.violation(sig, "special case %s(%s) = %s under GopherJS, %s in Go" % (fn, ", ".join(show_in(dom, w) for w in ins), show_out(xs), show_out(ys)),
                                  dict(kind="table", fn=fn, domain=dom, inputs=["%#x" % w for w in ins], gopherjs=x, go=y))
                continue
            u = max(abs(fkey(p) - fkey(q)) for p, q in zip(xs, ys))
            infs = [p for p, q in zip(xs, ys) if (is_special(p) != is_special(q))]
            if infs:
                bucket = "class-differs-at-range-edge" if all(near_edge(p) or near_edge(q) for p, q in zip(xs, ys) if is_special(p) != is_special(q)) else "class-differs"
            else:
                bucket = "1" if u == 1 else "2-3" if u <= 3 else "4-64" if u <= 64 else "65-2^24" if u <= (1 << 24) else ">2^24"
            h[bucket] = h.get(bucket, 0) + 1
            if all(moderate(w) for w in ins) and bucket in (">2^24", "class-differs"):
                sig = "math-%s-gross-difference" % fn.lower()
                nmis[sig] = nmis.get(sig, 0) + 1
                if nmis[sig] <= 3:
                    ctx.violation(sig, "%s(%s) = %s under GopherJS, %s in Go: not a last-digit libm difference" %
                                  (fn, ", ".join(show_in(dom, w) for w in ins), show_out(xs), show_out(ys)),
                                  dict(kind="table", fn=fn, domain=dom, inputs=["%#x" % w for w in ins], gopherjs=x, go=y))
    for fn, (n, _) in per_fn.items():
        ctx.cov.setdefault("cases_per_function", {})[fn] = ctx.cov.get("cases_per_function", {}).get(fn, 0) + n
    acc = ctx.cov.setdefault("libm_ulp_histogram_vs_native_go", {})
    for fn, h in hist.items():
        d = acc.setdefault(fn, {})
        for k, v in h.items():
            d[k] = d.get(k, 0) + v
    acc2 = ctx.cov.setdefault("exact_mismatches_by_signature", {})
    for k, v in nmis.items():
        acc2[k] = acc2.get(k, 0) + v


def show_in(dom, w):
    if dom in ("f1", "f2") or dom == "fi" and w > 0xFFFFFFFF:
        return "%r[%#x]" % (I.b2f(w), w)
    return "%#x" % w


def show_out(ws):
    return ":".join("%#x" % w for w in ws)


# ------------------------------------------------------------------------------------------ model comparison

MODELLED = {"Mul32", "Add32", "Div32", "Rem32", "UnicodeTo", "Trunc", "Modf", "Signbit", "Copysign", "IsNaN", "IsInf", "Inf",
            "AtomicInt32", "AtomicUint32", "AtomicInt64", "AtomicUint64"}
MODEL_ROWS = {}


def s32(w):
    w &= 0xFFFFFFFF
    return w - (1 << 32) if w >> 31 else w


def s64(w):
    w &= I.M64
    return w - (1 << 64) if w >> 63 else w


def zl(v):
    return "(%d)" % v


def model_case(fn, ins, out):
    o = words(out)
    if fn == "Mul32":
        return "CMul32 %s %s %s %s" % (zl(ins[0]), zl(ins[1]), zl(o[0]), zl(o[1]))
    if fn == "Add32":
        return "CAdd32 %s %s %s %s %s" % (zl(ins[0]), zl(ins[1]), zl(ins[2] & 1), zl(o[0]), zl(o[1]))
    if fn in ("Div32", "Rem32"):
        st = 0
        if len(o) == 1 and o[0] >> 16 == 0xDEAD:
            st = o[0] & 0xFFFF
            o = [0, 0]
        if fn == "Div32":
            return "CDiv32 %s %s %s %s %s %s" % (zl(ins[0]), zl(ins[1]), zl(ins[2]), zl(st), zl(o[0]), zl(o[1]))
        return "CRem32 %s %s %s %s %s" % (zl(ins[0]), zl(ins[1]), zl(ins[2]), zl(st), zl(o[0]))
    if fn == "UnicodeTo":
        return "CTo %s %s %s" % (zl(s32(ins[0])), zl(s32(ins[1])), zl(s32(o[0])))
    if fn == "Trunc":
        return "CTrunc %s %s" % (zl(ins[0]), zl(o[0]))
    if fn == "Modf":
        return "CModf %s %s %s" % (zl(ins[0]), zl(o[0]), zl(o[1]))
    if fn == "Signbit":
        return "CSignbit %s %s" % (zl(ins[0]), zl(o[0]))
    if fn == "Copysign":
        return "CCopysign %s %s %s" % (zl(ins[0]), zl(ins[1]), zl(o[0]))
    if fn == "IsNaN":
        return "CIsNaN %s %s" % (zl(ins[0]), zl(o[0]))
    if fn == "IsInf":
        return "CIsInf %s %s %s" % (zl(ins[0]), zl(s32(ins[1])), zl(o[0]))
    if fn == "Inf":
        return "CInf %s %s" % (zl(s32(ins[1])), zl(o[0]))
    ty = ["AtomicInt32", "AtomicUint32", "AtomicInt64", "AtomicUint64"].index(fn)
    conv = [s32, lambda w: w & 0xFFFFFFFF, s64, lambda w: w & I.M64][ty]
    return "CAtomic %d %s %s %s %s %s %s %s" % (ty, zl(conv(ins[0])), zl(conv(ins[1])), zl(conv(ins[2])), zl(o[0]), zl(o[1]), zl(o[2]), zl(o[3]))


COQ_HEAD = ("From Coq Require Import ZArith List.\nFrom Verif Require Import Model.C13_Nosync Corr.C13_Eval.\nImport ListNotations.\nLocal Open Scope Z_scope.\n")


def eval_cases(ctx, cases, tag, shard=350):
    """cases: list of (coq_term, description dict). Returns indices of mismatching cases."""
    shards = [cases[i:i + shard] for i in range(0, len(cases), shard)]

    def run_shard(k):
        p = os.path.join(ctx.work, "cases_%s_%d.v" % (tag, k))
        with open(p, "w") as f:
            f.write(COQ_HEAD)
            f.write("Definition cases : list case := [\n" + ";\n".join(c for c, _ in shards[k]) + "].\n")
            f.write("Definition M := Eval vm_compute in mismatches cases.\nPrint M.\n")
        rc, out = C.coq_run(p)
        m = re.search(r"M\s*=\s*(\[[^\]]*\])", out.replace("\n", " "))
        if rc == 124:
            return k, "timeout", ""
        if rc != 0 or not m:
            return k, None, out[-800:]
        return k, [int(x) for x in re.findall(r"\d+", m.group(1).replace("%Z", ""))], ""
    bad = []
    for k, idxs, err in C.parallel_map(run_shard, range(len(shards))):
        if idxs == "timeout":
            ctx.notes.append("Coq evaluation of model shard %s/%d timed out: skipped" % (tag, k))
            continue
        if idxs is None:
            ctx.violation("model-eval-failed", "Coq evaluation of the C13 model failed", dict(shard=k, log=err), concrete=False)
            continue
        bad += [k * shard + i for i in idxs]
    return bad


def model_compare(ctx):
    r = ctx.rng("model-sample")
    per = 150 if ctx.quick else 4000
    cases = []
    for fn in sorted(MODEL_ROWS):
        rows = MODEL_ROWS[fn]
        nh = 200 if ctx.quick else 320
        head = rows[:nh]
        rest = rows[nh:]
        pick = head + (r.sample(rest, min(len(rest), per)) if rest else [])
        for ins, out in pick:
            cases.append((model_case(fn, ins, out), dict(fn=fn, inputs=["%#x" % w for w in ins], gopherjs=out)))
    bad = eval_cases(ctx, cases, "tab")
    seen = {}
    for i in bad:
        d = cases[i][1]
        seen[d["fn"]] = seen.get(d["fn"], 0) + 1
        if seen[d["fn"]] <= 2:
            ctx.violation("%s-model-mismatch" % d["fn"].lower(), "Coq model and the GopherJS-compiled %s disagree (correspondence Corr/C13_Eval.case_ok broken)" % d["fn"],
                          dict(kind="model", case=cases[i][0], **d), concrete=False)
    ctx.cov["model_cases_tables"] = len(cases)
    ctx.cov["model_mismatches_tables"] = len(bad)


# ------------------------------------------------------------------------------------------ nosync histories

def gen_history(r, big=False):
    kind = r.choice("MMRRRWWWOOKKPp")
    n = r.randint(1, 14)
    ops = []
    for _ in range(n):
        if kind == "M":
            ops.append(r.choice("LU"))
        elif kind == "R":
            ops.append(r.choice("LURrRr"))
        elif kind == "W":
            k = r.random()
            if k < 0.45:
                d = r.choice([1, 1, 2, 3, -1, -2, 0])
                if big and r.random() < 0.3:
                    d = r.choice([2147483647, 1073741824, -2147483648, 2147483646, -1073741824])
                ops.append("A%d" % d)
            elif k < 0.8:
                ops.append("D")
            else:
                ops.append("W")
        elif kind == "O":
            ops.append("O" + r.choice("0012"))
        elif kind == "K":
            key = r.choice(["i0", "i1", "i2", "i-1", "sa", "sb", "s"])
            k = r.random()
            ops.append("S%s=%d" % (key, r.randint(1, 9)) if k < 0.3 else "G" + key if k < 0.5 else "Q%s=%d" % (key, r.randint(1, 9)) if k < 0.7
                       else "X" + key if k < 0.85 else "N")
        else:
            ops.append("P%d" % r.choice([0, 1, 2, 3, 4, 5]) if r.random() < 0.5 else "T")
    return kind + ":" + ",".join(ops)


def w32s(x):
    return (x + (1 << 31)) % (1 << 32) - (1 << 31)


def sync_spec(h):
    """single-goroutine behaviour of the sync package, written from its documentation/source, independent of the Coq model.
    returns list of outcomes: ok[=v] | panic[=v] | block | fatal ; the history stops at block/fatal"""
    kind, ops = h[0], (h[2:].split(",") if len(h) > 2 else [])
    out = []
    if kind == "M":
        locked = False
        for o in ops:
            if o == "L":
                if locked:
                    out.append("block"); break
                locked = True; out.append("ok")
            else:
                if not locked:
                    out.append("fatal"); break
                locked = False; out.append("ok")
    elif kind == "R":
        w, rd = False, 0
        for o in ops:
            if o == "L":
                if w or rd > 0:
                    out.append("block"); break
                w = True; out.append("ok")
            elif o == "U":
                if not w:
                    out.append("fatal"); break
                w = False; out.append("ok")
            elif o == "R":
                if w:
                    out.append("block"); break
                rd += 1; out.append("ok")
            else:
                if rd == 0:
                    out.append("fatal"); break
                rd -= 1; out.append("ok")
    elif kind == "W":
        v = 0
        for o in ops:
            if o == "W":
                if v != 0:
                    out.append("block"); break
                out.append("ok")
            else:
                d = -1 if o == "D" else int(o[1:])
                v = w32s(v + d)
                out.append("panic" if v < 0 else "ok")
    elif kind == "O":
        done = False
        for o in ops:
            if done:
                out.append("ok=0")
            elif o == "O0":
                done = True; out.append("ok=1")
            elif o == "O1":
                done = True; out.append("panic=1")
            else:
                out.append("block"); break
    return out


def agrees(s, n):
    """the property: nosync returns what sync returns, or panics exactly when sync blocks, panics or dies"""
    if s in ("block", "fatal"):
        return n.startswith("panic")
    return s == n


def run_lines(cmd, lines, timeout=1800, batch=600):
    """feed lines to the harness in batches (separate processes: goroutines blocked for ever in one batch are not
    carried along), in parallel"""
    chunks = [lines[i:i + batch] for i in range(0, len(lines), batch)]

    def one(ch):
        rc, out, err = C.sh2(cmd, inp=("\n".join(ch) + "\n").encode(), timeout=timeout)
        return rc, out.split("\n")[:len(ch)] if rc == 0 else [], err
    outs, errs, rcs = [], "", 0
    for rc, o, e in C.parallel_map(one, chunks):
        outs += o
        if rc != 0:
            rcs, errs = rc, errs + e[-800:]
    return rcs, outs, errs


OPMAP = dict(M=dict(L="MLock", U="MUnlock"), R=dict(L="RWLock", U="RWUnlock", R="RWRLock", r="RWRUnlock"))


def coq_history(h, outs):
    kind, ops = h[0], (h[2:].split(",") if len(h) > 2 else [])
    k = "MRWO".index(kind)
    t = []
    for o in ops:
        if kind in "MR":
            t.append(OPMAP[kind][o])
        elif kind == "W":
            t.append("WGDone" if o == "D" else "WGWait" if o == "W" else "WGAdd (%d)" % int(o[1:]))
        else:
            t.append("OnceDo " + ["FPlain", "FPanics", "FReenters"][int(o[1])])
    no = []
    for o in outs:
        m = re.match(r"(ok|panic)(?:=(-?\d+))?$", o)
        no.append("%s %s" % ("NOk" if m.group(1) == "ok" else "NPanic", m.group(2) or "0"))
    return "CNosync %d [%s] [%s]" % (k, "; ".join(t), "; ".join(no))


def histories(ctx):
    r = ctx.rng("histories")
    n = 2000 if ctx.quick else 40000
    hs = [gen_history(r, big=(i % 5 == 0)) for i in range(n)]
    # fixed contended corpus
    hs += ["M:L,L", "M:U", "R:R,L", "R:L,R", "R:L,L", "R:r", "R:U", "R:L,r", "W:A1,W", "W:D", "W:A2147483647,A1", "W:A-2147483648", "O:O2,O0", "O:O1,O0",
           "W:W", "M:L,U,L,U", "R:R,R,r,r,L,U", "W:A2,D,D,W", "O:O0,O1,O2"]
    hs = list(dict.fromkeys(hs))
    h13 = os.path.join(C.BIN, "h_c13")
    # (a) nosync compiled by GopherJS (the code under test as it is really used)
    d = os.path.join(ctx.work, "nosyncprog")
    files = {"driver.go": open(os.path.join(SYNC_SRC, "driver.go")).read(), "nosync_factory.go": open(os.path.join(SYNC_SRC, "nosync_factory.go")).read(),
             "main_js.go": open(os.path.join(SYNC_SRC, "main_js.go")).read(),
             "hist.go": "package main\n\nvar histories = []string{\n" + "".join("\t%s,\n" % json.dumps(h) for h in hs) + "}\n"}
    C.write_go_program(d, files, module="verifc13n")
    rc, log = C.gopherjs_build(d, timeout=600)
    if rc == 124:
        ctx.notes.append("gopherjs build of the nosync history driver timed out: histories skipped")
        return
    if rc != 0:
        ctx.violation("nosync-program-build-failed", "gopherjs build of the nosync history driver failed", dict(log=log[-1500:]), concrete=False)
        return
    rc, out, err = C.run_node(os.path.join(d, "out.js"), cwd=d, timeout=1200)
    js_out = out.split("\n")
    if rc == 124:
        ctx.notes.append("the nosync history driver under node timed out: histories skipped")
        return
    if rc != 0 or "DONE" not in js_out:
        ctx.violation("nosync-program-crashed", "the nosync history driver compiled by GopherJS did not finish", dict(log=(err or out)[-1500:]), concrete=False)
        return
    js_out = js_out[:len(hs)]
    # (b) nosync natively
    rc, nat_out, err = run_lines([h13, "nosync"], hs)
    if rc == 124:
        ctx.notes.append("native nosync harness timed out: histories skipped")
        return
    if rc != 0:
        raise C.BuildError("h_c13 nosync failed: " + err[-500:])
    # (c) the real sync package natively; histories are cut before the first call the spec predicts to be fatal
    spec = {h: sync_spec(h) for h in hs if h[0] in "MRWO"}
    cut = []
    for h in hs:
        if h[0] in "MRWO" and spec[h] and spec[h][-1] == "fatal":
            ops = h[2:].split(",")[:len(spec[h]) - 1]
            cut.append(h[:2] + ",".join(ops))
        else:
            cut.append(h)
    rc, sync_out, err = run_lines([h13, "sync"], cut)
    if rc == 124:
        ctx.notes.append("native sync harness timed out: histories skipped")
        return
    if rc != 0:
        raise C.BuildError("h_c13 sync failed (a fatal error the spec did not predict?): " + err[-800:])
    # a sample of predicted-fatal histories is run for real in a child process
    fatal_hs = [h for h in hs if h[0] in "MRWO" and spec[h] and spec[h][-1] == "fatal"]
    sample = r.sample(fatal_hs, min(len(fatal_hs), 24 if ctx.quick else 300))

    def one(h):
        rc, out, err = C.sh2([h13, "one", h], timeout=60)
        nops = len([l for l in out.split("\n") if l.startswith("op ")])
        return h, rc, nops, err
    nfatal_ok = 0
    for h, rc, nops, err in C.parallel_map(one, sample):
        if rc == 2 and "fatal error: sync:" in err and nops == len(spec[h]) - 1:
            nfatal_ok += 1
        elif rc == 124:
            ctx.notes.append("child process for a fatal-error history timed out: skipped")
        else:
            ctx.violation("sync-spec-mismatch", "the real sync package did not die where the specification says it does: %s (rc=%d after %d calls)" % (h, rc, nops),
                          dict(kind="history", history=h, spec=spec[h], stderr=err[-600:]), concrete=False)
    stats = dict(histories=len(hs), contended=0, fatal_predicted=len(fatal_hs), fatal_confirmed_in_child=nfatal_ok, by_kind={}, ops=0, panics_nosync=0)
    cases = []
    nviol = {}
    for i, h in enumerate(hs):
        kind = h[0]
        nj = js_out[i].split(",") if js_out[i] else []
        nn = nat_out[i].split(",") if nat_out[i] else []
        stats["by_kind"][kind] = stats["by_kind"].get(kind, 0) + 1
        stats["ops"] += len(nj)
        stats["panics_nosync"] += sum(1 for o in nj if o.startswith("panic"))
        big = any(abs(int(o[1:])) > 100000 for o in (h[2:].split(",") if kind == "W" else []) if o.startswith("A"))
        rep = dict(kind="history", history=h, nosync_gopherjs=js_out[i], nosync_native=nat_out[i], sync_native=sync_out[i] if i < len(sync_out) else None)
        ctx.count(["history", h], nontrivial=len(nj) >= 2)
        if i < 3:
            ctx.sample(rep)
        if not big and nj != nn:
            ctx.violation("nosync-gopherjs-vs-native", "nosync behaves differently compiled by GopherJS and natively on %s" % h, rep, concrete=False)
        if kind in "MRWO":
            so = sync_out[i].split(",") if sync_out[i] else []
            sp = spec[h]
            # the real sync run validates the spec (up to the cut)
            want = sp[:-1] if sp and sp[-1] == "fatal" else sp
            if so != want:
                ctx.violation("sync-spec-mismatch", "real sync and the written specification of sync disagree on %s: %s vs %s" % (h, so, want), rep, concrete=False)
            if sp and sp[-1] in ("block", "fatal"):
                stats["contended"] += 1
            # the property itself, against the real package's observed outcomes (+ the confirmed fatal step)
            ref = so + (["fatal"] if sp and sp[-1] == "fatal" else [])
            bad = len(nj) < len(ref) or any(not agrees(s, n_) for s, n_ in zip(ref, nj))
            if bad:
                k = next((j for j, (s, n_) in enumerate(zip(ref, nj)) if not agrees(s, n_)), len(nj))
                sig = "nosync-%s-differs-from-sync" % dict(M="mutex", R="rwmutex", W="waitgroup", O="once")[kind]
                nviol[sig] = nviol.get(sig, 0) + 1
                if nviol[sig] <= 3:
                    ctx.violation(sig, "history %s: call %d gives %s with nosync, sync gives %s" % (h, k, nj[k] if k < len(nj) else "(nothing)", ref[k] if k < len(ref) else "?"), rep)
            cases.append((coq_history(h, nj), dict(fn="nosync", history=h, gopherjs=js_out[i])))
        elif kind == "K":
            so = sync_out[i].split(",") if sync_out[i] else []
            if so != nj:
                ctx.violation("nosync-map-differs-from-sync", "history %s: nosync.Map gives %s, sync.Map gives %s" % (h, js_out[i], sync_out[i]), rep)
        else:
            bad = pool_check(h, nj)
            if bad:
                ctx.violation("nosync-pool-breaks-contract", "history %s: %s" % (h, bad), rep)
    bad = eval_cases(ctx, cases, "hist")
    for i in bad[:2]:
        ctx.violation("nosync-model-mismatch", "Coq model of nosync and nosync compiled by GopherJS disagree on a history", dict(kind="model", case=cases[i][0], **cases[i][1]), concrete=False)
    stats["model_cases"] = len(cases)
    stats["model_mismatches"] = len(bad)
    ctx.cov["history_distribution"] = stats
    ctx.cov["traces_validated_against_impl"] = len(cases)


def pool_check(h, outs):
    """sync.Pool's contract: Get returns a value previously Put and not yet handed out, else New() (a fresh 1001, 1002, ...), else nil.
    nosync.Pool must additionally never lose a value (it is a stack) — checked as: Get returns New/nil only when the pool is empty."""
    ops = h[2:].split(",") if len(h) > 2 else []
    have, created = [], 0
    for o, r in zip(ops, outs):
        if o.startswith("P"):
            if r != "ok":
                return "Put did not return normally: " + r
            if o != "P0":
                have.append(o[1:])
        else:
            v = r[3:] if r.startswith("ok=") else None
            if v is None:
                return "Get did not return a value: " + r
            if v in have:
                have.remove(v)
            elif have:
                return "Get returned %s although %s were available" % (v, have)
            elif h[0] == "P":
                created += 1
                if v != str(1000 + created):
                    return "Get on an empty pool returned %s, expected New() = %d" % (v, 1000 + created)
            elif v != "nil":
                return "Get on an empty pool without New returned " + v
    return None


# ------------------------------------------------------------------------------------------ entry points

class _Distinct(set):
    """ctx.distinct with a bulk counter (millions of table cases are not hashed one by one)"""
    extra = 0

    def __len__(self):
        return set.__len__(self) + self.extra


def correspond(ctx):
    MODEL_ROWS.clear()
    # quick: one program; thorough: 12 rounds of a larger program (fresh random tables each round)
    rounds = 1 if ctx.quick else 12
    sizes = (6000, 5000, 5000, 5000, 3000) if ctx.quick else (12000, 10000, 12000, 8000, 5000)
    dcount_total = {}
    for rd in range(rounds):
        r = ctx.rng("tables" if rd == 0 else "tables-%d" % rd)
        tables = I.gen_tables(r, *sizes)
        # Ldexp exponents: keep inside +-2^30 (see ASSUMPTIONS)
        fi = tables["inFI"]
        for k in range(1, len(fi), 2):
            v = s32(fi[k])
            if abs(v) > (1 << 30):
                fi[k] = (v // 4) & 0xFFFFFFFF
        js, go = build_and_run(ctx, tables, sweep=(rd == 0), tag="prog%d" % rd)
        if js is None:
            break
        ctx.log("table program round %d ran: %d blocks" % (rd, len(js)))
        compare_tables(ctx, tables, js, go, "round%d" % rd)
        # case accounting: one case = (function, input tuple); distinct = distinct tuples of its table
        for dom, (name, ar) in I.DOMAINS.items():
            tab = tables[name]
            tot, dis = dcount_total.get(dom, (0, 0))
            dcount_total[dom] = (tot + len(tab) // ar, dis + len(set(tuple(tab[k * ar:(k + 1) * ar]) for k in range(len(tab) // ar))))
        if rd == 0:
            ctx.sample(dict(kind="table", fn="Trunc", inputs=["%#x" % tables["inF1"][30]], gopherjs=js.get(("Trunc", 0), "").split(",")[30:31]))
    if dcount_total:
        if not isinstance(ctx.distinct, _Distinct):
            ctx.distinct = _Distinct(ctx.distinct)
        for fn, (dom, kind) in FUNCS.items():
            if dom is not None:
                ctx.evaluations += dcount_total[dom][0]
                ctx.distinct.extra += dcount_total[dom][1]
        ctx.cov["table_rounds"] = rounds
        model_compare(ctx)
        ctx.log("model comparison done")
    histories(ctx)
    ctx.log("histories done")
    ctx.cov["not_exercised"] = ["internal/bytealg (no importable user in this sandbox)"]
    ctx.cov["note_upstream_compiled"] = OVERRIDDEN_NOTE


def replay(ctx, data):
    rp = data["replay"]
    if rp.get("kind") == "table":
        fn = rp["fn"]
        dom = rp.get("domain") or FUNCS[fn][0]
        tables = {name: [] for name, _ in I.DOMAINS.values()}
        if dom:
            tables[I.DOMAINS[dom][0]] = [int(x, 16) for x in rp["inputs"]]
        js, go = build_and_run(ctx, tables, sweep=dom is None, tag="replay")
        for k in sorted(js or {}):
            if k[0] == fn:
                print("GopherJS now:", k, js[k], "  native Go:", go.get(k))
        print("recorded: gopherjs=%s go=%s" % (rp.get("gopherjs") or rp.get("js"), rp.get("go")))
    elif rp.get("kind") == "history":
        h13 = os.path.join(C.BIN, "h_c13")
        print("nosync (native):", run_lines([h13, "nosync"], [rp["history"]])[1])
        print("sync (child process):", C.sh2([h13, "one", rp["history"]], timeout=60)[1:])
        print("recorded:", json.dumps(rp))
    else:
        print(json.dumps(data, indent=1))
    return 0
