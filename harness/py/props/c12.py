"""C12 — standard-library overlays merge exactly as the directives say.
Model: coq/Model/C12_Merge.v; theorems: coq/Props/C12.v; tables: coq/Gen/C12_Tables.v (regenerated).

Correspondence (every run, on /repo's current tree):
 * random abstract packages (funcs, methods on value/pointer/generic receivers, grouped and multi-name
   var/const specs in both the len(names)=len(values) and the single-call / implicit-repetition forms, types,
   directives on declarations, specs and line comments, import sets with blank/dot/renamed/unsafe/embed/sync)
   are PRINTED as Go source; the real augmentOverlayFile / augmentOriginalImports / augmentOriginalFile /
   pruneImports / finalizeRemovals (overlay export in package build) run on them; the resulting ASTs are
   projected back to the abstract form (go/ast) by the harness;
 * direct oracle 1 (declares / order / imports): the projection must equal the property's law computed here in
   Python from the abstract input (law(): independent of the Coq model);
 * direct oracle 2 (type-checks / values untouched): go/types on original alone, on the merged ASTs and on a
   reference merge; a consistent pair must type-check and every surviving original constant keeps its value;
 * the implementation side is the REAL parseAndAugment, glue included: the overlay export installs an embed.FS holding the
   generated overlay sources as natives.FS for the call and serves the originals through PackageData.bctx.OpenFile;
 * model tie: Coq evaluates merge / prune_imports / file_consts on the same inputs and compares with the projection.
 The variant of augmentOriginalFile (const-spec removal = known finding, or const-group blanking = repaired) is probed on the
 real function in prepare() and written into Gen/C12_Tables.v; model, law and theorems follow it.
"""
import json, os, re, copy
import common as C

ID = "C12"
PROPS_FILE = "Props/C12.v"
MODEL_TARGETS = ["Corr/C12_Eval.v"]
ALLOWED_AXIOMS = []
RULE = ("packages: 1-3 original files + 0-2 overlay files over pools of 4 types (0-2 type params), methods (value/pointer/"
        "generic receivers), funcs (optional type params), vars (single, multi-name multi-value, typed without value, "
        "single-call a,b = p.F2()), consts (ungrouped, grouped explicit, grouped iota with implicit repetition, multi-name); "
        "each original entity is overridden with prob ~0.35 by replace / keep-original / purge / override-signature "
        "(directive comments drawn from matching and near-miss spellings, on decl doc, spec doc or line comment); imports per "
        "file = what its declarations use + blank/dot/renamed/unsafe(+go:linkname)/embed(+go:embed)/sync extras; import path "
        "of the package is one of the nosync list or a neutral one. non-trivial = at least one original declaration is "
        "overridden; distinct by printed sources. wild stream: duplicate overlay keys, blank names in the overlay, unused "
        "imports, kind collisions (model comparison only). prune stream: single files through pruneImports alone.")
TRUSTED = ["model of augmentOverlayFile/augmentOriginalFile/pruneImports/finalizeRemovals/FuncKey/ImportName/directive regexp written by hand "
           "(coq/Model/C12_Merge.v), tied by this correspondence; Python printer of abstract files and the go/ast projection in "
           "harness/go/repo_overlay/compiler/verifharness/c12 (round-trip checked on every input)",
           "harness/go/repo_overlay/build/export_c12_verif.go builds an embed.FS value for natives.FS by mirroring embed.FS's memory layout "
           "(self-tested through embed's public API on every call) so that the real parseAndAugment runs on generated overlays; the overrides "
           "map (a local of parseAndAugment) is observed by running the real augmentOverlayFile on a second parse and deleting key init; "
           "post-load tweaks of build/context.go are not covered",
           "go/parser (comment association, identifier resolution), go/types (reference for type-checks and constant values) — Go 1.23 toolchain",
           "comment re-association of free-floating comments and the real Go 1.20 standard library are not modelled"]
ASSUMPTIONS = ["overlay keys are pairwise distinct except init (else go/types rejects the overlay); no gopherjs:purge on import declarations (documented as unsupported)",
               "expressions/bodies/signatures are abstracted to origin markers + the import names they use through unresolved selector bases",
               "an override-signature only mentions imports the original file already has (documented in astutil.OverrideSignature)"]
TECHNIQUE = "Coq proof (induction over declaration/spec lists) + differential correspondence with the real build.augment*/pruneImports on printed packages, go/types as reference"
LEVEL_TEXT = ("Machine-checked theorems over an executable model of the overlay merge: the declarations of the result are exactly the law "
              "(override / keep-original rename / purge with methods / override-signature transplant), surviving originals keep their order, "
              "imports survive iff blank/dot, used, or required by a directive, empty overlay is the identity; 'initial values untouched' is "
              "proved for constants (iota / implicit repetition semantics) for the repaired const-group blanking.")
LEVEL_NOTE = ("Proof is about the hand-written model; tie to /repo is differential on printed packages run through the real parseAndAugment.")

KEEP_PREFIX = None  # filled by prepare()
NOSYNC_PKGS = []
NOSYNC_PATH = None
DIRECTIVE_IMPORTS = {}
LINKNAME_PREFIX = None
CONST_BLANK = False   # probed by prepare(): True once parenthesised const groups blank overridden names instead of deleting specs
N_OK = N_WILD = N_PRUNE = None   # overridden by ad-hoc debugging drivers only
SCALE = float(os.environ.get("C12_SCALE", "1"))   # ad-hoc: scale the case counts (mutation trials on a loaded machine)


# ---------------------------------------------------------------- tables from the source

def coq_str(s):
    return '"' + s.replace('"', '""') + '"'


def extract_tables():
    b = open(os.path.join(C.REPO, "build", "build.go")).read()
    a = open(os.path.join(C.REPO, "compiler", "astutil", "astutil.go")).read()
    t = {}
    m = re.search(r"func augmentOriginalImports\(.*?switch importPath \{\s*case ([^\n]*):\n(.*?)\n\}\n", b, re.S)
    if not m:
        raise C.BuildError("C12 tables: augmentOriginalImports no longer has the expected shape (nosync list)")
    t["nosync_pkgs"] = re.findall(r'"([^"]+)"', m.group(1))
    body = m.group(2)
    m2 = re.search(r'if path == "([^"]+)"', body)
    m3 = re.search(r'spec\.Path\.Value = `"([^"`]+)"`', body)
    if not (m2 and m3 and m2.group(1) == "sync"):
        raise C.BuildError("C12 tables: nosync substitution no longer has the expected shape")
    t["nosync_path"] = m3.group(1)
    m = re.search(r'd\.Name\.Name = "([^"]+)" \+ d\.Name\.Name', b)
    if not m:
        raise C.BuildError("C12 tables: keep-original prefix not found")
    t["keep_prefix"] = m.group(1)
    m = re.search(r"directiveImports := map\[string\]string\{(.*?)\n\t\}", b, re.S)
    if not m:
        raise C.BuildError("C12 tables: directiveImports table not found")
    t["directive_imports"] = re.findall(r"`([^`]+)`:\s*`([^`]+)`", m.group(1))
    m = re.search(r"isOnlyImports\(file\) && !astutil\.HasDirectivePrefix\(file, `([^`]+)`\)", b)
    if not m:
        raise C.BuildError("C12 tables: only-imports rule of pruneImports not found")
    t["linkname_prefix"] = m.group(1)
    m = re.search(r"directiveMatcher = regexp\.MustCompile\(`([^`]+)`\)", a)
    if not m:
        raise C.BuildError("C12 tables: directiveMatcher not found")
    t["directive_regex"] = m.group(1)
    acts = {}
    for fn, act in re.findall(r"func (KeepOriginal|Purge|OverrideSignature)\([^)]*\) bool \{\s*return hasDirective\(d, `([^`]+)`\)", a):
        acts[fn] = act
    if len(acts) != 3:
        raise C.BuildError("C12 tables: directive action names not found")
    t["actions"] = acts
    return t


def write_tables(t):
    txt = "(* GENERATED by harness/py/props/c12.py from build/build.go and compiler/astutil/astutil.go — do not edit *)\n"
    txt += "From Coq Require Import List String.\nImport ListNotations.\nLocal Open Scope string_scope.\n"
    txt += "Definition nosync_pkgs : list string := [%s].\n" % "; ".join(coq_str(x) for x in t["nosync_pkgs"])
    txt += "Definition nosync_path : string := %s.\n" % coq_str(t["nosync_path"])
    txt += "Definition keep_prefix : string := %s.\n" % coq_str(t["keep_prefix"])
    txt += "Definition directive_imports : list (string * string) := [%s].\n" % "; ".join("(%s, %s)" % (coq_str(a), coq_str(b)) for a, b in t["directive_imports"])
    txt += "Definition linkname_prefix : string := %s.\n" % coq_str(t["linkname_prefix"])
    txt += "Definition directive_regex : string := %s.\n" % coq_str(t["directive_regex"])
    txt += "(* which variant of augmentOriginalFile the tree has, probed on the real function (see Model/C12_Merge.rewrite_vspec) *)\n"
    txt += "Definition const_group_blanking : bool := %s.\n" % ("true" if t["const_group_blanking"] else "false")
    txt += "Definition action_keep : string := %s.\nDefinition action_purge : string := %s.\nDefinition action_sig : string := %s.\n" % (
        coq_str(t["actions"]["KeepOriginal"]), coq_str(t["actions"]["Purge"]), coq_str(t["actions"]["OverrideSignature"]))
    C.write_if_changed(os.path.join(C.COQ, "Gen", "C12_Tables.v"), txt)


def prepare(ctx):
    global KEEP_PREFIX, NOSYNC_PKGS, NOSYNC_PATH, DIRECTIVE_IMPORTS, LINKNAME_PREFIX, CONST_BLANK
    C.sync_alt_coq()
    t = extract_tables()
    C.ensure_go_harness("c12")
    t["const_group_blanking"] = CONST_BLANK = probe_variant()
    write_tables(t)
    KEEP_PREFIX, NOSYNC_PKGS, NOSYNC_PATH = t["keep_prefix"], t["nosync_pkgs"], t["nosync_path"]
    DIRECTIVE_IMPORTS, LINKNAME_PREFIX = dict(t["directive_imports"]), t["linkname_prefix"]
    ctx.cov["code_variant"] = "const-group-blanking" if CONST_BLANK else "const-spec-removal (known finding const-group-iota-shift-on-override)"


def probe_variant():
    """which augmentOriginalFile is in the tree: does overriding B of `const (A = iota; B; C)` blank B (True) or delete its ConstSpec (False)?"""
    res = harness([dict(mode="merge", import_path="x/p", overlay=["package p\n\nconst B = 100\n"],
                        original=["package p\n\nconst (\n\tA = iota\n\tB\n\tC\n)\n"])])
    if res is None:
        raise C.BuildError("C12 variant probe timed out")
    res = res[0]
    if res["panic"]:
        raise C.BuildError("C12 variant probe failed: " + res["panic"])
    names = [s["names"] for d in res["out_original"][0]["decls"] for s in d["specs"]]
    if names == [["A"], ["_"], ["C"]]:
        return True
    if names == [["A"], ["C"]]:
        return False
    raise C.BuildError("C12 variant probe: unexpected result %r" % (names,))


# ---------------------------------------------------------------- abstract files -> Go source

def pr_comments(cs, ind=""):
    return "".join(ind + c + "\n" for c in cs)


def use_type(u):
    return "unsafe.Pointer" if u == "unsafe" else u + ".T"


# how a body refers to a package: plain qualified identifier, or ONLY as the root of a chained selector
# (field of a package-level variable, nested field, method on a variable, field / method of a call result)
USE_FORMS = ["X", "X", "X", "S.F", "S.In.F", "S.M()", "G().F", "G().M()", "G().In.F"]


def use_expr(u, form="X"):
    return "unsafe.Sizeof(0)" if u == "unsafe" else u + "." + form


def pr_func(d):
    s = pr_comments(d["doc"]) + "func "
    r = d["recv"]
    if r:
        t = r["type"] + ("[" + ", ".join("P%d" % i for i in range(r["ntp"])) + "]" if r["ntp"] else "")
        s += "(%s%s%s%s) " % (r["var"], " " if r["var"] else "", "*" if r["ptr"] else "", t)
    s += d["name"]
    if d["tps"] is not None:
        s += "[%s any]" % d["tps"]
    s += "(" + ", ".join((["%s int" % d["par"]] if d["par"] else []) + ["_ " + use_type(u) for u in d["par_uses"]]) + ")"
    if d["res"] is not None:
        s += " (" + ", ".join(["%s int" % d["res"]] + ["_ " + use_type(u) for u in d["res_uses"]]) + ")"
    if d["body"] is not None:
        s += " {\n\t_ = %s\n" % d["body"]
        for u in d["uses"]:
            s += "\t_ = %s\n" % use_expr(u, d.get("_forms", {}).get(u, "X"))
        for u in d.get("_shadow", []):
            s += "\t{\n\t\tvar %s struct{ X int }\n\t\t_ = %s.X\n\t}\n" % (u, u)
        if d.get("_ref"):
            s += "\t_ = %s\n" % d["_ref"]
        s += "\treturn\n}"
    return s + "\n"


def pr_value(v):
    if "lit" in v:
        return v["lit"]
    if "iota" in v:
        return "iota + " + v["iota"]
    if "sel" in v:
        return v["sel"] + "." + v["f"]
    return v["call"] + "." + v["f"] + "()"


def pr_spec(s):
    if s["k"] == "import":
        return (s["name"] + " " if s["name"] is not None else "") + json.dumps(s["path"])
    if s["k"] == "type":
        tp = "[" + ", ".join("P%d any" % i for i in range(s["ntp"])) + "]" if s["ntp"] else ""
        return "%s%s struct {\n\t\t%s int\n%s\t}" % (s["name"], tp, s["mark"], "".join("\t\t_ %s\n" % use_type(u) for u in s["uses"]))
    t = ", ".join(s["names"]) + (" int" if s["typ"] else "")
    if s["values"]:
        t += " = " + ", ".join(pr_value(v) for v in s["values"])
    return t


def pr_gen(d):
    s = pr_comments(d["doc"])
    if not d["paren"]:
        sp = d["specs"][0]
        return s + d["tok"] + " " + pr_spec(sp) + (" " + sp["cmt"][0] if sp["cmt"] else "") + "\n"
    s += d["tok"] + " (\n"
    for sp in d["specs"]:
        s += pr_comments(sp["doc"], "\t") + "\t" + pr_spec(sp) + (" " + sp["cmt"][0] if sp["cmt"] else "") + "\n"
    return s + ")\n"


def pr_file(f):
    return "package p\n\n" + "\n".join(pr_func(d) if d["k"] == "func" else pr_gen(d) for d in f["decls"])


def strip(x):
    """drop generator-only keys (leading underscore) and the harness-only ones"""
    if isinstance(x, dict):
        return {k: strip(v) for k, v in x.items() if not k.startswith("_") and k not in ("sig_uses", "imports")}
    if isinstance(x, list):
        return [strip(v) for v in x]
    return x


# ---------------------------------------------------------------- the law (direct oracle, independent of the Coq model)

ACTION_RE = re.compile(r"^/(?:/|\*)gopherjs:([\w-]+)", re.A)


def has_dir(comments, action):
    for c in comments:
        m = ACTION_RE.match(c)
        if m and m.group(1) == action:
            return True
    return False


def fkey(d):
    return (d["recv"]["type"] + "." if d["recv"] else "") + d["name"]


def import_name(s):
    n = s["name"]
    if n is None:
        p = s["path"].rstrip("/")
        n = ("/" if s["path"] else ".") if p == "" else p.rsplit("/", 1)[-1]
    return "" if n in ("_", ".", "/") else n


def decl_uses(d):
    if d["k"] == "func":
        return set(d["par_uses"]) | set(d["res_uses"]) | (set(d["uses"]) if d["body"] is not None else set())
    u = set()
    for s in d["specs"]:
        if s["k"] == "type":
            u |= set(s["uses"])
        elif s["k"] == "value":
            for v in s["values"]:
                if "sel" in v:
                    u.add(v["sel"])
                if "call" in v:
                    u.add(v["call"])
    return u


def decl_comments(d):
    cs = list(d["doc"])
    if d["k"] == "gen":
        for s in d["specs"]:
            cs += s["doc"] + s["cmt"]
    return cs


def law_imports(decls):
    """imports law for a file from which something was removed"""
    comments = [c for d in decls for c in decl_comments(d)]
    non_import = [d for d in decls if not (d["k"] == "gen" and d["tok"] == "import")]
    if not non_import and not any(c.startswith(LINKNAME_PREFIX) for c in comments):
        return []
    used = set()
    for d in decls:
        used |= decl_uses(d)
    # a later import of the same name hides the earlier one from pruning (inputs with distinct names: no effect)
    last = {}
    for d in decls:
        if d["k"] == "gen" and d["tok"] == "import":
            for s in d["specs"]:
                if import_name(s):
                    last[import_name(s)] = id(s)
    out = []
    for d in decls:
        if not (d["k"] == "gen" and d["tok"] == "import"):
            out.append(d)
            continue
        specs, dropped = [], False
        for s in d["specs"]:
            n = import_name(s)
            if n == "" or n in used or last.get(n) != id(s):
                specs.append(s)
            elif s["path"] in DIRECTIVE_IMPORTS and any(c.startswith(DIRECTIVE_IMPORTS[s["path"]]) for c in comments):
                specs.append(dict(s, name="_"))
            else:
                dropped = True
        if specs or not dropped:
            out.append(dict(d, specs=specs))
    return out


def law(overlay, original, import_path, blank_is_key=False, const_blank=False):
    """-> (overrides, expected overlay files, expected original files).
    const_blank: reference semantics for constant groups (overridden constants are blanked, their ConstSpec stays),
    used only to decide which pairs are consistent."""
    K = {}
    exp_ov = []
    for f in overlay:
        decls, changed = [], False
        for d in f["decls"]:
            if d["k"] == "func":
                sig = has_dir(d["doc"], "override-signature")
                K[fkey(d)] = dict(keep=has_dir(d["doc"], "keep-original"), purge=False, sig=d if sig else None)
                if has_dir(d["doc"], "purge") or sig:
                    changed = True
                else:
                    decls.append(d)
            else:
                pd = has_dir(d["doc"], "purge")
                specs, removed = [], False
                for s in d["specs"]:
                    ps = pd or has_dir(s["doc"] + s["cmt"], "purge")
                    if s["k"] == "type":
                        K[s["name"]] = dict(keep=False, purge=ps, sig=None)
                    elif s["k"] == "value":
                        for n in s["names"]:
                            if n != "_" or blank_is_key:
                                K[n] = dict(keep=False, purge=False, sig=None)
                    if ps:
                        changed = removed = True
                    else:
                        specs.append(s)
                if pd:
                    changed = True                                 # purged together with everything it declares
                elif specs or not removed:
                    decls.append(dict(d, specs=specs))
        exp_ov.append(dict(decls=law_imports(decls) if changed else decls))
    K.pop("init", None)
    exp_orig = []
    for f in original:
        decls = f["decls"]
        if import_path in NOSYNC_PKGS:
            nd = []
            for d in decls:
                if d["k"] == "gen" and d["tok"] == "import":
                    d = dict(d, specs=[dict(s, name=s["name"] if s["name"] is not None else "sync", path=NOSYNC_PATH) if s["path"] == "sync" else s
                                       for s in d["specs"]])
                nd.append(d)
            decls = nd
        if not K:
            exp_orig.append(dict(decls=decls))
            continue
        out, changed = [], False
        for d in decls:
            if d["k"] == "func":
                k = fkey(d)
                if k in K:
                    changed = True
                    info = K[k]
                    if not info["keep"] and info["sig"] is None:
                        continue                                   # replaced by the overlay's declaration (or purged)
                    nd = dict(d)
                    if info["keep"]:
                        nd["name"] = KEEP_PREFIX + d["name"]       # original body under the documented prefixed name
                    if info["sig"] is not None:                    # original body under the overlay's signature
                        for part in ("recv", "tps", "par", "res", "par_uses", "res_uses"):
                            nd[part] = info["sig"][part]
                    out.append(nd)
                elif d["recv"] and K.get(d["recv"]["type"], {}).get("purge"):
                    changed = True                                 # method of a purged type
                else:
                    out.append(d)
                continue
            specs, removed = [], False
            for s in d["specs"]:
                if s["k"] == "type":
                    if s["name"] in K:
                        removed = changed = True
                    else:
                        specs.append(s)
                elif s["k"] == "value":
                    hit = [n in K for n in s["names"]]
                    if const_blank and d["tok"] == "const" and d["paren"]:
                        specs.append(dict(s, names=["_" if h else n for n, h in zip(s["names"], hit)]))
                    elif len(s["names"]) == len(s["values"]):
                        if any(hit):
                            changed = True
                        names = [n for n, h in zip(s["names"], hit) if not h]
                        if names:
                            specs.append(dict(s, names=names, values=[v for v, h in zip(s["values"], hit) if not h]))
                        else:
                            removed = True
                    else:
                        names = ["_" if h else n for n, h in zip(s["names"], hit)]
                        if any(hit) and all(n == "_" for n in names):
                            removed = changed = True
                        else:
                            specs.append(dict(s, names=names))
                else:
                    specs.append(s)
            if specs or not removed:
                out.append(dict(d, specs=specs))
        exp_orig.append(dict(decls=law_imports(out) if changed else out))
    return K, exp_ov, exp_orig


# ---------------------------------------------------------------- generator

NEUTRAL = ["// regular comment", "// gopherjs:purge", "//gopherjs:purged", "//gopherjs:purge-all", "//gopherjs:Purge", "//gopherjs: purge",
           "//gopherjs:keep-originals", "//gopherjs:keep_original", "//gopherjs:override-signatures", "// go:linkname a b.c", "//go:linknames x y.z",
           "/* gopherjs:purge */", "//gopherjs:", "//gopherjs:-"]
PURGE = ["//gopherjs:purge", "//gopherjs:purge", "//gopherjs:purge for reasons", "/*gopherjs:purge*/", "//gopherjs:purge\t(tab)", "//gopherjs:purge!"]
KEEP = ["//gopherjs:keep-original", "//gopherjs:keep-original", "//gopherjs:keep-original so we can call it", "/*gopherjs:keep-original*/"]
SIG = ["//gopherjs:override-signature", "//gopherjs:override-signature", "//gopherjs:override-signature new receiver"]
IMPORT_POOL = [("alpha", None, "p/alpha"), ("beta", None, "q/beta"), ("gx", "gx", "p/gamma"), ("v2", None, "github.com/x/v2"),
               ("delta", None, "q/delta/"), ("embed", None, "embed"), ("unsafe", None, "unsafe"), ("sync", None, "sync"), ("sy", "sy", "sync")]
NEUTRAL_PATHS = ["x/p", "strings", "sync", "runtime"]


class Gen:
    def __init__(self, r, wild=False):
        self.r = r
        self.wild = wild
        self.n = 100

    def mark(self):
        self.n += 1
        return self.n

    def doc(self, extra=None):
        r = self.r
        cs = [r.choice(NEUTRAL) for _ in range(r.choice([0, 0, 0, 1, 1, 2]))]
        if extra:
            cs.insert(r.randint(0, len(cs)), extra)
        return cs

    def uses(self, avail, p=0.35):
        return sorted(set(u for u in sorted(avail) if self.r.random() < p))

    def func(self, name, recv=None, avail=(), tps=None, directive=None, body=True):
        m = self.mark()
        d = dict(k="func", name=name, recv=None, tps=None, par="p%d" % m, res=None, body=None, doc=self.doc(directive),
                 par_uses=self.uses(avail, 0.2), res_uses=[], uses=[])
        if name == "init" and not recv:
            d.update(par="", par_uses=[])
            tps = False
        if recv:
            d["recv"] = dict(recv, var=("r%d" % m if self.r.random() < 0.9 else ""))
        elif tps if tps is not None else self.r.random() < 0.25:
            d["tps"] = "Q%d" % m
        if self.r.random() < 0.5 and not (name == "init" and not recv):
            d["res"] = "o%d" % m
            d["res_uses"] = self.uses(avail, 0.15)
        if body:
            d["body"] = str(m)
            d["uses"] = self.uses(avail, 0.4)
            d["_forms"] = {u: self.r.choice(USE_FORMS) for u in d["uses"]}
            # a local variable named like an import, used through a selector: resolved identifier, NOT a use of the import
            d["_shadow"] = self.uses(avail, 0.12)
        return d

    def vspecs(self, tok, names, avail, grouped):
        """split names into value specs of assorted shapes; returns list of specs"""
        r, specs, i = self.r, [], 0
        names = list(names)
        iota_mode = tok == "const" and grouped and r.random() < 0.6
        first = True
        while i < len(names):
            k = r.choice([1, 1, 1, 2, 2, 3])
            ns = names[i:i + k]
            i += len(ns)
            s = dict(k="value", names=ns, typ=False, values=[], doc=[], cmt=[])
            if grouped:
                s["doc"] = self.doc() if r.random() < 0.3 else []
            if r.random() < 0.25:
                s["cmt"] = [r.choice(NEUTRAL[:11])]
            if tok == "const":
                if iota_mode and not first and r.random() < 0.6 and len(ns) == self._prev_len:
                    pass                                            # implicit repetition
                else:
                    s["values"] = [self.cval(avail, iota_mode) for _ in ns]
                    s["typ"] = r.random() < 0.2
                    self._prev_len = len(ns)
            else:
                c = r.random()
                if c < 0.55:
                    s["values"] = [self.vval(avail) for _ in ns]
                    s["typ"] = r.random() < 0.2
                elif c < 0.75 or not avail:
                    s["typ"] = True                                 # var a, b int
                else:
                    imp = r.choice(sorted(avail))
                    if imp == "unsafe":
                        s["values"] = [dict(lit=str(self.mark())) for _ in ns]
                    elif len(ns) == 1:
                        s["values"] = [dict(call=imp, f="F1")]
                    else:
                        s["values"] = [dict(call=imp, f="F%d" % len(ns))]   # single-call context
                if r.random() < 0.1 and len(ns) > 1:
                    s["names"] = ["_" if (j == 0) else n for j, n in enumerate(ns)]
            first = False
            specs.append(s)
        return specs

    def cval(self, avail, iota_mode):
        r = self.r
        c = r.random()
        if iota_mode and c < 0.7:
            return dict(iota=str(r.choice([0, 0, 1, 5, 10])))
        cand = [a for a in avail if a != "unsafe"]
        if c > 0.85 and cand:
            return dict(sel=r.choice(sorted(cand)), f="X")
        return dict(lit=str(self.mark()))

    def vval(self, avail):
        r = self.r
        cand = [a for a in avail if a != "unsafe"]
        c = r.random()
        if c < 0.25 and cand:
            return dict(sel=r.choice(sorted(cand)), f=r.choice(["X", "V", "S.F", "S.In.F", "G().F"]))
        if c < 0.4 and cand:
            return dict(call=r.choice(sorted(cand)), f=r.choice(["F1", "F1", "S.M", "G().M"]))
        return dict(lit=str(self.mark()))

    def gen_decl(self, tok, specs, directive=None, force_paren=None):
        paren = force_paren if force_paren is not None else (len(specs) != 1 or self.r.random() < 0.3)
        if len(specs) != 1:
            paren = True
        d = dict(k="gen", tok=tok, paren=paren, doc=self.doc(directive), specs=specs)
        if not paren:
            specs[0]["doc"] = []
        return d

    def import_decls(self, used, extra_ok=True):
        """imports for a file whose declarations use the names in `used`"""
        r = self.r
        specs = []
        for name, alias, path in IMPORT_POOL:
            if name in used:
                specs.append(dict(k="import", name=alias, path=path, doc=[], cmt=[]))
        if extra_ok:
            if r.random() < 0.25:
                specs.append(dict(k="import", name="_", path="p/side", doc=[], cmt=["// for side effects"] if r.random() < 0.5 else []))
            if r.random() < 0.15:
                specs.append(dict(k="import", name=".", path="dot/d1", doc=[], cmt=[]))
            if self.wild and r.random() < 0.3:
                specs.append(dict(k="import", name=None, path=r.choice(["w/unusedpkg", "w/other"]), doc=[], cmt=[]))
        r.shuffle(specs)
        if not specs:
            return []
        if len(specs) > 1 and r.random() < 0.3:
            k = r.randint(1, len(specs) - 1)
            return [self.gen_decl("import", specs[:k]), self.gen_decl("import", specs[k:])]
        return [self.gen_decl("import", specs)]

    def finish_file(self, decls):
        used, needs = set(), set()
        for d in decls:
            used |= decl_uses(d)
            needs |= set(d.get("_needs", []))
        imps = self.import_decls(used)
        for n in sorted(needs - used):      # a directive needs the package: blank import, as the documentation shows
            imps.insert(0, self.gen_decl("import", [dict(k="import", name="_", path=n, doc=[], cmt=["// for the directive"] if self.r.random() < 0.5 else [])]))
        return dict(decls=imps + decls)

    def package(self):
        r = self.r
        nfiles = r.choice([1, 1, 2, 2, 3])
        files = [[] for _ in range(nfiles)]
        ents = []      # (kind, key-info, file index, decl ref)
        pool = ["alpha", "beta", "gx", "v2", "delta", "embed", "unsafe", "sync", "sy"]
        avail = [set(x for x in pool if r.random() < 0.35) for _ in range(nfiles)]
        for a in avail:
            if "sync" in a and "sy" in a:
                a.discard("sy")
        types = {}
        for ti in range(r.randint(0, 4)):
            fi = r.randrange(nfiles)
            name = "T%d" % ti
            ntp = r.choice([0, 0, 0, 1, 2])
            types[name] = ntp
            spec = dict(k="type", name=name, ntp=ntp, mark="M%d" % self.mark(), uses=self.uses(avail[fi] - {"unsafe"} | (avail[fi] & {"unsafe"}), 0.2),
                        doc=[], cmt=[])
            ents.append(("type", spec, fi))
        # group type specs per file (sometimes)
        by_file = {}
        for e in ents:
            by_file.setdefault(e[2], []).append(e[1])
        for fi, specs in by_file.items():
            while specs:
                k = r.choice([1, 1, 2, 3])
                chunk, specs = specs[:k], specs[k:]
                for s in chunk:
                    s["doc"] = self.doc() if r.random() < 0.2 else []
                files[fi].append(self.gen_decl("type", chunk))
        for tname, ntp in types.items():
            for mi in range(r.randint(0, 3)):
                fi = r.randrange(nfiles)
                files[fi].append(self.func("M%d" % mi, recv=dict(type=tname, ptr=r.random() < 0.6, ntp=ntp), avail=avail[fi]))
            if r.random() < 0.3:       # a METHOD called init is an ordinary method (key T.init)
                fi = r.randrange(nfiles)
                files[fi].append(self.func("init", recv=dict(type=tname, ptr=r.random() < 0.6, ntp=ntp), avail=avail[fi]))
        for k in range(r.randint(0, 5)):
            fi = r.randrange(nfiles)
            files[fi].append(self.func("f%d" % k, avail=avail[fi]))
        for _ in range(r.choice([0, 0, 1, 2])):
            fi = r.randrange(nfiles)
            files[fi].append(self.func("init", avail=avail[fi], tps=False))
        vnames = ["a%d" % i for i in range(r.randint(0, 8))]
        while vnames:
            fi = r.randrange(nfiles)
            k = r.choice([1, 2, 3, 4])
            chunk, vnames = vnames[:k], vnames[k:]
            grouped = r.random() < 0.5
            specs = self.vspecs("var", chunk, avail[fi], grouped)
            if grouped:
                files[fi].append(self.gen_decl("var", specs, force_paren=True))
            else:
                for s in specs:
                    files[fi].append(self.gen_decl("var", [s]))
        cnames = ["c%d" % i for i in range(r.randint(0, 9))]
        while cnames:
            fi = r.randrange(nfiles)
            k = r.choice([1, 2, 3, 4, 5])
            chunk, cnames = cnames[:k], cnames[k:]
            grouped = r.random() < 0.65
            specs = self.vspecs("const", chunk, avail[fi] - {"unsafe"}, grouped)
            if grouped:
                files[fi].append(self.gen_decl("const", specs, force_paren=True))
            else:
                for s in specs:
                    files[fi].append(self.gen_decl("const", [s]))
        # linkname / embed directives
        for fi in range(nfiles):
            if r.random() < 0.2:
                d = self.func("ln%d" % fi, avail=(), body=False, tps=False, directive="//go:linkname ln%d other/pkg.target" % fi)
                d["res"] = None
                d["_needs"] = ["unsafe"]
                files[fi].append(d)
            if r.random() < 0.12:
                s = dict(k="value", names=["em%d" % fi], typ=True, values=[], doc=[], cmt=[])
                g = self.gen_decl("var", [s], directive="//go:embed file%d.txt" % fi, force_paren=False)
                g["_needs"] = ["embed"]
                files[fi].append(g)
        out = []
        for fi in range(nfiles):
            ds = files[fi]
            r.shuffle(ds)
            out.append(self.finish_file(ds))
        return out, types

    def overlay(self, original, types):
        """overlay files for an original package"""
        r = self.r
        p = r.choice([0.15, 0.35, 0.35, 0.6])
        # gentle overlays only rewrite functions in place (override-signature / keep-original): nothing is removed from the
        # originals, so import pruning there is triggered by the rewrite alone
        gentle = r.random() < 0.2
        nfiles = r.choice([1, 1, 2])
        files = [[] for _ in range(nfiles)]
        pool = ["alpha", "beta", "gx", "v2", "embed", "unsafe"]
        avail = [set(x for x in pool if r.random() < 0.3) for _ in range(nfiles)]
        info = dict(overridden=0, purged_types=set())
        orig_imports = []
        for f in original:
            s = set()
            for d in f["decls"]:
                if d["k"] == "gen" and d["tok"] == "import":
                    s |= {import_name(x) for x in d["specs"]} - {""}
            orig_imports.append(s)
        value_hits = {"var": [], "const": []}
        for ofi, f in enumerate(original):
            for d in f["decls"]:
                if d["k"] == "func":
                    if (d["name"] == "init" and not d["recv"]) or d["name"].startswith("ln") or r.random() >= p:
                        continue
                    fi = r.randrange(nfiles)
                    act = r.choice(["replace", "replace", "keep", "purge", "sig"]) if not gentle else r.choice(["sig", "sig", "keep"])
                    info["overridden"] += 1
                    recv = dict(type=d["recv"]["type"], ptr=d["recv"]["ptr"], ntp=d["recv"]["ntp"]) if d["recv"] else None
                    if act == "replace":
                        files[fi].append(self.func(d["name"], recv=recv, avail=avail[fi], tps=False if recv else None))
                    elif act == "keep":
                        nd = self.func(d["name"], recv=recv, avail=avail[fi], tps=False if recv else None, directive=r.choice(KEEP))
                        if r.random() < 0.6:
                            if recv is None and d["tps"] is None:
                                nd["_ref"] = KEEP_PREFIX + d["name"]
                            elif recv and recv["ntp"] == 0 and nd["recv"]["var"]:
                                nd["_ref"] = nd["recv"]["var"] + "." + KEEP_PREFIX + d["name"]
                        files[fi].append(nd)
                    elif act == "purge":
                        files[fi].append(self.func(d["name"], recv=recv, avail=avail[fi], tps=False if recv else None,
                                                   directive=r.choice(PURGE), body=r.random() < 0.4))
                    else:
                        # new signature: only imports the original file already has (documented restriction)
                        ok = sorted(orig_imports[ofi] & set(pool)) if not self.wild else sorted(avail[fi])
                        if gentle or r.random() < 0.3:
                            ok = []      # the new signature mentions no package: imports used only by the old one become unused
                        if recv and r.random() < 0.5:
                            recv["ptr"] = not recv["ptr"]
                        nd = self.func(d["name"], recv=recv, avail=ok, tps=False if recv else None, directive=r.choice(SIG), body=r.random() < 0.3)
                        nd["uses"] = [u for u in nd["uses"] if u in avail[fi]]
                        files[fi].append(nd)
                elif d["tok"] == "type":
                    for s in d["specs"]:
                        if gentle or r.random() >= p:
                            continue
                        fi = r.randrange(nfiles)
                        info["overridden"] += 1
                        purge = r.random() < 0.4
                        ns = dict(k="type", name=s["name"], ntp=s["ntp"], mark="M%d" % self.mark(), uses=self.uses(avail[fi], 0.2), doc=[], cmt=[])
                        where = r.choice(["decl", "doc", "cmt"]) if purge else None
                        paren = where == "doc" or r.random() < 0.3
                        if where == "doc":
                            ns["doc"] = self.doc(r.choice(PURGE))
                        if where == "cmt":
                            ns["cmt"] = [r.choice(PURGE)]
                        files[fi].append(self.gen_decl("type", [ns], directive=r.choice(PURGE) if where == "decl" else None, force_paren=paren))
                        if purge:
                            info["purged_types"].add(s["name"])
                elif d["tok"] in ("var", "const"):
                    for s in d["specs"]:
                        for n in s["names"]:
                            if n != "_" and not n.startswith("em") and not gentle and r.random() < p:
                                value_hits[d["tok"]].append(n)
                                info["overridden"] += 1
        # methods defined only in the overlay on purged types would not type-check: drop purge-consistency there in wild mode only
        for tok, names in value_hits.items():
            names = list(names)
            r.shuffle(names)
            while names:
                fi = r.randrange(nfiles)
                k = r.choice([1, 1, 2, 3])
                chunk, names = names[:k], names[k:]
                # the replacement may be of the other kind (a constant replaced by a variable)
                ntok = tok if r.random() < 0.8 else ("var" if tok == "const" else "const")
                purge = r.random() < 0.3
                grouped = len(chunk) > 1 and r.random() < 0.5
                if purge:
                    specs = [dict(k="value", names=[n], typ=True if ntok == "var" else False,
                                  values=[] if ntok == "var" else [dict(lit=str(self.mark()))], doc=[], cmt=[]) for n in chunk]
                    where = r.choice(["decl", "doc", "cmt"])
                    if where == "decl":
                        files[fi].append(self.gen_decl(ntok, specs, directive=r.choice(PURGE)))
                    else:
                        for s in specs:
                            if where == "doc":
                                s["doc"] = self.doc(r.choice(PURGE))
                            else:
                                s["cmt"] = [r.choice(PURGE)]
                        files[fi].append(self.gen_decl(ntok, specs, force_paren=True))
                else:
                    self._prev_len = 0
                    specs = self.vspecs(ntok, chunk, avail[fi] - ({"unsafe"} if ntok == "const" else set()), grouped and ntok == "var")
                    for s in specs:
                        s["names"] = [n if n != "_" else "z%d" % self.mark() for n in s["names"]]
                    if grouped and ntok == "var":
                        files[fi].append(self.gen_decl(ntok, specs, force_paren=True))
                    else:
                        for s in specs:
                            files[fi].append(self.gen_decl(ntok, [s]))
        # new entities
        for k in range(r.randint(0, 3)):
            fi = r.randrange(nfiles)
            files[fi].append(self.func("n%d" % k, avail=avail[fi]))
        if r.random() < 0.3:
            fi = r.randrange(nfiles)
            files[fi].append(self.func("init", avail=avail[fi], tps=False))
        if r.random() < 0.3:
            fi = r.randrange(nfiles)
            nm = "NT%d" % self.mark()
            files[fi].append(self.gen_decl("type", [dict(k="type", name=nm, ntp=0, mark="M%d" % self.mark(), uses=[], doc=[], cmt=[])]))
            files[fi].append(self.func("M0", recv=dict(type=nm, ptr=True, ntp=0), avail=avail[fi]))
        if r.random() < 0.4:
            fi = r.randrange(nfiles)
            self._prev_len = 0
            for s in self.vspecs("var", ["nv%d" % self.mark()], avail[fi], False):
                files[fi].append(self.gen_decl("var", [s]))
        if self.wild:
            fi = r.randrange(nfiles)
            c = r.random()
            if c < 0.3:
                files[fi].append(self.gen_decl("var", [dict(k="value", names=["_"], typ=False, values=[dict(lit=str(self.mark()))], doc=[], cmt=[])]))
            elif c < 0.6 and files[fi]:
                files[fi].append(copy.deepcopy(r.choice(files[fi])))      # duplicate key, last wins
            elif c < 0.8 and types:
                files[fi].append(self.func(r.choice(sorted(types)), avail=avail[fi], tps=False))   # func named like a type
        out = []
        for fi in range(nfiles):
            ds = files[fi]
            if not self.wild:
                # a purged type takes its methods with it: overlay methods on it would dangle
                nd = []
                for d in ds:
                    if d["k"] == "func" and d["recv"] and d["recv"]["type"] in info["purged_types"]:
                        if has_dir(d["doc"], "keep-original") or has_dir(d["doc"], "override-signature"):
                            continue
                        if not has_dir(d["doc"], "purge"):
                            d["doc"] = d["doc"] + [r.choice(PURGE)]
                    nd.append(d)
                ds = nd
            r.shuffle(ds)
            out.append(self.finish_file(ds))
        return out, info


def gen_pair(r, wild=False):
    g = Gen(r, wild)
    original, types = g.package()
    overlay, info = g.overlay(original, types)
    if r.random() < 0.08:
        overlay = []
    ip = r.choice(NOSYNC_PKGS) if r.random() < 0.4 else r.choice(NEUTRAL_PATHS)
    return dict(import_path=ip, overlay=overlay, original=original, wild=wild, overridden=info["overridden"])


# ---------------------------------------------------------------- Coq terms

INTERN = {}


def cs(s):
    """string in a case term: longer strings are defined once per case file (they repeat a lot)"""
    if len(s) < 6:
        return coq_str(s)
    if s not in INTERN:
        INTERN[s] = "s%d_" % len(INTERN)
    return INTERN[s]


def cq_list(xs):
    return "[" + ";".join(xs) + "]"


def cq_strs(xs):
    return cq_list([cs(x) for x in xs])


def cq_part(mark, uses):
    return "(P %s %s)" % (cs(mark), cq_strs(sorted(uses)))


def cq_opt(x):
    return "None" if x is None else "(Some %s)" % x


def lit_z(s):
    return "(%d)%%Z" % int(s, 0)


def cq_value(v):
    if "lit" in v:
        return "(VLit %s)" % lit_z(v["lit"])
    if "iota" in v:
        return "(VIota %s)" % lit_z(v["iota"])
    if "sel" in v:
        return "(VSel %s %s)" % (cs(v["sel"]), cs(v["f"]))
    if "call" in v:
        return "(VCall %s %s)" % (cs(v["call"]), cs(v["f"]))
    raise ValueError("value outside the modelled fragment: %r" % (v,))


def cq_decl(d):
    if d["k"] == "func":
        r = d["recv"]
        recv = cq_opt(None if r is None else "(R %s %s %d %s)" % (cs(r["var"]), "true" if r["ptr"] else "false", r["ntp"], cs(r["type"])))
        return "(DFunc (F %s %s %s %s %s %s %s))" % (
            cs(d["name"]), recv, cq_opt(None if d["tps"] is None else cq_part(d["tps"], [])), cq_part(d["par"], d["par_uses"]),
            cq_opt(None if d["res"] is None else cq_part(d["res"], d["res_uses"])),
            cq_opt(None if d["body"] is None else cq_part(d["body"], d["uses"])), cq_strs(d["doc"]))
    specs = []
    for s in d["specs"]:
        if s["k"] == "import":
            specs.append("(SImport (I %s %s %s %s))" % (cq_opt(None if s["name"] is None else cs(s["name"])), cs(s["path"]), cq_strs(s["doc"]), cq_strs(s["cmt"])))
        elif s["k"] == "type":
            specs.append("(SType (T %s %d %s %s %s))" % (cs(s["name"]), s["ntp"], cq_part(s["mark"], s["uses"]), cq_strs(s["doc"]), cq_strs(s["cmt"])))
        else:
            specs.append("(SValue (V %s %s %s %s %s))" % (cq_strs(s["names"]), "true" if s["typ"] else "false", cq_list([cq_value(v) for v in s["values"]]),
                                                         cq_strs(s["doc"]), cq_strs(s["cmt"])))
    tok = dict([("import", "TImport"), ("type", "TType"), ("var", "TVar"), ("const", "TConst")])[d["tok"]]
    return "(DGen (G %s %s %s %s))" % (tok, "true" if d["paren"] else "false", cq_strs(d["doc"]), cq_list(specs))


def cq_file(f):
    return cq_list([cq_decl(d) for d in f["decls"]])


def cq_files(fs):
    return cq_list([cq_file(f) for f in fs])


def cq_case_merge(case, res):
    ovr = cq_list(["(%s,(%s,%s,%s))" % (cs(e["key"]), *["true" if e[k] else "false" for k in ("keep", "purge", "sig")]) for e in res["overrides"]])
    consts = "None"
    tc = res.get("tc_merged")
    if tc is not None and not tc["errors"]:
        consts = "(Some %s)" % cq_list(["(%s,%s)" % (cs(k), lit_z(v)) for k, v in sorted(tc["consts"].items())])
    return "CMerge %s %s %s %s %s %s %s" % (cs(case["import_path"]), cq_files(case["overlay"]), cq_files(case["original"]), ovr,
                                             cq_files(res["out_overlay"]), cq_files(res["out_original"]), consts)


def run_coq(ctx, vcases, tag):
    """evaluate case terms in shards; returns list of mismatching global indices, or raises"""
    shards, cur, size = [], [], 0
    for i, t in enumerate(vcases):
        if cur and (len(cur) >= 64 or size + len(t) > 150000):
            shards.append(cur)
            cur, size = [], 0
        cur.append((i, t))
        size += len(t)
    if cur:
        shards.append(cur)

    def run_shard(k):
        p = os.path.join(ctx.work, "cases_%s_%d.v" % (tag, k))
        body = ";\n".join(t for _, t in shards[k])
        used = set(re.findall(r"\bs\d+_", body))
        with open(p, "w") as f:
            f.write("From Coq Require Import List String NArith ZArith.\nFrom Verif Require Import Model.C12_Merge Corr.C12_Eval.\n"
                    "Import ListNotations.\nLocal Open Scope string_scope.\n")
            for text, name in INTERN.items():
                if name in used:
                    f.write("Definition %s := %s.\n" % (name, coq_str(text)))
            f.write("Definition cases : list case := [\n" + body + "].\n")
            f.write("Definition M := Eval vm_compute in mismatches cases.\nPrint M.\n")
        rc, out = C.coq_run(p)
        m = re.search(r"M\s*=\s*(\[[^\]]*\])", out.replace("\n", " "))
        if rc == 124 or "[timeout after" in out or "Out of memory" in out:
            return k, "skipped", out[-300:]
        if rc != 0 or not m:
            return k, None, out[-1200:]
        return k, [shards[k][int(x.replace("%N", ""))][0] for x in re.findall(r"\d+(?:%N)?", m.group(1))], ""

    bad, failed = [], []
    for k, idxs, err in C.parallel_map(run_shard, range(len(shards))):
        if idxs == "skipped":
            ctx.notes.append("model evaluation of shard %s/%d timed out (infrastructure), %d cases skipped" % (tag, k, len(shards[k])))
        elif idxs is None:
            failed.append((k, err))
        else:
            bad += idxs
    return bad, failed


# ---------------------------------------------------------------- the check

def harness(cases, timeout=900):
    h = os.path.join(C.BIN, "h_c12")
    rc, out, err = C.sh2([h], inp=json.dumps(cases).encode(), timeout=timeout)
    if rc == 124:
        return None          # infrastructure (timeout under load): the caller skips these cases and leaves a note
    if rc != 0:
        raise C.BuildError("c12 harness failed: " + err[-800:])
    return json.loads(out)


def first_diff(a, b):
    """a short description of where two projected file lists differ"""
    for fi, (x, y) in enumerate(zip(a, b)):
        if x != y:
            dx, dy = x["decls"], y["decls"]
            for di in range(max(len(dx), len(dy))):
                u = dx[di] if di < len(dx) else None
                v = dy[di] if di < len(dy) else None
                if u != v:
                    return "file %d decl %d: implementation %s / law %s" % (fi, di, json.dumps(u)[:260], json.dumps(v)[:260])
    return "different number of files" if len(a) != len(b) else "?"


def const_groups(original):
    """name -> (names of its parenthesised const group, group is fragile: uses iota or implicit repetition)"""
    res = {}
    for f in original:
        for d in f["decls"]:
            if d["k"] == "gen" and d["tok"] == "const" and d["paren"]:
                names = [n for s in d["specs"] for n in s["names"]]
                fragile = any((not s["values"]) or any("iota" in v for v in s["values"]) for s in d["specs"])
                for n in names:
                    res[n] = (names, fragile)
    return res


def judge_pair(ctx, case, res, dist):
    """direct oracles on the implementation's output; returns True when a concrete violation was reported"""
    rep = dict(kind="merge", import_path=case["import_path"], overlay=[pr_file(f) for f in case["overlay"]],
               original=[pr_file(f) for f in case["original"]])
    if res["panic"]:
        ctx.violation("augment-panicked", "the augmentation panicked / sources did not parse: " + res["panic"][:200], dict(rep, impl=res["panic"]))
        return True
    # printer / projection round trip
    if strip(res["in_overlay"]) != strip(case["overlay"]) or strip(res["in_original"]) != strip(case["original"]):
        ctx.violation("printer-roundtrip", "printed abstract file does not parse back to itself: " +
                      first_diff(strip(res["in_overlay"]) + strip(res["in_original"]), strip(case["overlay"]) + strip(case["original"])),
                      rep, concrete=False)
        return True
    if case["wild"]:
        return False
    K, exp_ov, exp_orig = law(case["overlay"], case["original"], case["import_path"], const_blank=CONST_BLANK)
    got_ov, got_orig = strip(res["out_overlay"]), strip(res["out_original"])
    bad = False
    want_k = sorted((k, v["keep"], v["purge"], v["sig"] is not None) for k, v in K.items())
    got_k = sorted((e["key"], e["keep"], e["purge"], e["sig"]) for e in res["overrides"])
    if want_k != got_k:
        diff = sorted(set(want_k) ^ set(got_k))[:4]
        ctx.violation("overrides-map-differs", "overrides collected from the overlay differ from the directives: %r" % (diff,),
                      dict(rep, impl=got_k, expected=want_k))
        bad = True
    if got_ov != strip(exp_ov):
        ctx.violation("overlay-result-differs", "pruned overlay is not (overlay minus purged / override-signature stubs): " + first_diff(got_ov, strip(exp_ov)),
                      dict(rep, impl=got_ov, expected=strip(exp_ov)))
        bad = True
    if got_orig != strip(exp_orig):
        what = first_diff(got_orig, strip(exp_orig))
        sig = "original-result-differs"
        for f1, f2 in zip(got_orig, strip(exp_orig)):
            i1 = [s for d in f1["decls"] if d["k"] == "gen" and d["tok"] == "import" for s in d["specs"]]
            i2 = [s for d in f2["decls"] if d["k"] == "gen" and d["tok"] == "import" for s in d["specs"]]
            n1 = [d for d in f1["decls"] if not (d["k"] == "gen" and d["tok"] == "import")]
            n2 = [d for d in f2["decls"] if not (d["k"] == "gen" and d["tok"] == "import")]
            if n1 == n2 and i1 != i2:
                sig = "imports-law-differs"
        ctx.violation(sig, "rewritten originals differ from the law: " + what, dict(rep, impl=got_orig, expected=strip(exp_orig)))
        bad = True
    # type-check / values
    tco, tcm, tce = res["tc_original"], res["tc_merged"], res["tc_expected"]
    consistent = tco is not None and not tco["errors"] and tce is not None and not tce["errors"]
    dist["consistent"] += consistent
    if consistent:
        groups = const_groups(case["original"])
        hit_groups = [g for n, g in groups.items() if n in K]
        if tcm["errors"]:
            fragile = any(fr for _, fr in hit_groups) and all(re.search(r"init expr|iota", e) for e in tcm["errors"])
            sig = "const-group-iota-shift-on-override" if fragile else "merged-package-does-not-typecheck"
            ctx.violation(sig, "a consistent pair (original and reference merge type-check) merges into a package that does not type-check: %s"
                          % "; ".join(tcm["errors"][:3]), dict(rep, impl=tcm, reference=tce))
            dist["defect_hits"] += fragile
            return True
        for n, v in sorted(tco["consts"].items()):
            if n in K or n == "_":
                continue
            if tcm["consts"].get(n) != v:
                g = groups.get(n)
                fragile = g is not None and g[1] and any(x in K for x in g[0])
                sig = "const-group-iota-shift-on-override" if fragile else "const-value-changed"
                ctx.violation(sig, "constant %s is not overridden but its value changes from %s to %s after the merge (group %s, overridden: %s)"
                              % (n, v, tcm["consts"].get(n), g[0] if g else None, [x for x in (g[0] if g else []) if x in K]),
                              dict(rep, constant=n, original_value=v, merged_value=tcm["consts"].get(n)))
                dist["defect_hits"] += fragile
                return True
    return bad


def merge_stream(ctx):
    r = ctx.rng("pairs")
    n_ok = N_OK or int(SCALE * (700 if ctx.quick else 12000))
    n_wild = N_WILD or int(SCALE * (150 if ctx.quick else 2500))
    cases = [gen_pair(r) for _ in range(n_ok)] + [gen_pair(r, wild=True) for _ in range(n_wild)]
    cases += corpus()
    inputs = []
    for c in cases:
        ref = law(c["overlay"], c["original"], c["import_path"], const_blank=True)
        inputs.append(dict(mode="merge", import_path=c["import_path"], overlay=[pr_file(f) for f in c["overlay"]],
                           original=[pr_file(f) for f in c["original"]], typecheck=True,
                           expected=[pr_file(f) for f in ref[1] + ref[2]] if not c["wild"] else None))
    chunks = [list(range(i, min(i + 250, len(inputs)))) for i in range(0, len(inputs), 250)]
    results = [None] * len(inputs)
    for idxs, out in zip(chunks, C.parallel_map(lambda idxs: harness([inputs[i] for i in idxs]), chunks)):
        if out is None:
            ctx.notes.append("harness timed out on a chunk of %d pairs (infrastructure), skipped" % len(idxs))
            continue
        for i, o in zip(idxs, out):
            results[i] = o
    keep = [i for i in range(len(cases)) if results[i] is not None]
    cases, inputs, results = [cases[i] for i in keep], [inputs[i] for i in keep], [results[i] for i in keep]
    ctx.log("harness done: %d pairs" % len(cases))
    dist = dict(pairs=len(cases), wild=n_wild, consistent=0, defect_hits=0, overridden_decls=0, with_keep=0, with_sig=0, with_purge=0,
                imports_dropped=0, files_emptied=0, nosync_paths=0)
    vcases, vidx = [], []
    for i, (c, res) in enumerate(zip(cases, results)):
        srcs = inputs[i]["overlay"] + inputs[i]["original"]
        ctx.count(srcs, nontrivial=c["overridden"] > 0)
        dist["overridden_decls"] += c["overridden"]
        dist["nosync_paths"] += c["import_path"] in NOSYNC_PKGS
        if not res["panic"]:
            dist["with_keep"] += any(e["keep"] for e in res["overrides"])
            dist["with_sig"] += any(e["sig"] for e in res["overrides"])
            dist["with_purge"] += any(e["purge"] for e in res["overrides"])
            ni = sum(1 for f in res["in_original"] for d in f["decls"] if d["k"] == "gen" and d["tok"] == "import" for s in d["specs"])
            no = sum(1 for f in res["out_original"] for d in f["decls"] if d["k"] == "gen" and d["tok"] == "import" for s in d["specs"])
            dist["imports_dropped"] += ni - no
            dist["files_emptied"] += sum(1 for a, b in zip(res["in_original"], res["out_original"]) if a["decls"] and not b["decls"])
        judge_pair(ctx, c, res, dist)
        if res["panic"]:
            continue
        try:
            vcases.append(cq_case_merge(c, res))
            vidx.append(i)
        except (ValueError, KeyError) as e:
            ctx.violation("projection-outside-model", "the implementation produced syntax outside the modelled fragment: %s" % e,
                          dict(kind="merge", overlay=inputs[i]["overlay"], original=inputs[i]["original"]), concrete=False)
        if i < 2:
            ctx.sample(dict(kind="merge", import_path=c["import_path"], overlay=inputs[i]["overlay"], original=inputs[i]["original"],
                            overrides=res["overrides"]))
    bad, failed = run_coq(ctx, vcases, "merge")
    for k, err in failed:
        ctx.violation("model-eval-failed", "Coq evaluation of the model failed", dict(shard=k, log=err), concrete=False)
    for j in bad[:50]:
        i = vidx[j]
        ctx.violation("merge-model-mismatch", "model and the real augment*/pruneImports disagree on a package pair (correspondence C12/merge broken)",
                      dict(kind="merge", import_path=cases[i]["import_path"], overlay=inputs[i]["overlay"], original=inputs[i]["original"],
                           impl=dict(overrides=results[i]["overrides"], out_overlay=strip(results[i]["out_overlay"]), out_original=strip(results[i]["out_original"])),
                           correspondence="Corr/C12_Eval.case_ok (merge, file_consts) vs build.augmentOverlayFile/augmentOriginalFile/pruneImports"),
                      concrete=False)
    dist["model_mismatches"] = len(bad)
    ctx.cov["pair_distribution"] = dist
    ctx.cov["pairs_validated_against_model"] = len(vcases)


def corpus():
    """hand-written pairs: the known finding's minimal witness and shapes the random stream rarely hits"""
    def vs(names, values=(), typ=False):
        return dict(k="value", names=list(names), typ=typ, values=list(values), doc=[], cmt=[])

    def gd(tok, specs, paren=True, doc=()):
        return dict(k="gen", tok=tok, paren=paren, doc=list(doc), specs=specs)
    iota0 = dict(iota="0")
    cs = []
    # F13 witness
    cs.append(dict(import_path="x/p", wild=False, overridden=1,
                   overlay=[dict(decls=[gd("const", [vs(["B"], [dict(lit="100")])], paren=False)])],
                   original=[dict(decls=[gd("const", [vs(["A"], [iota0]), vs(["B"]), vs(["C"])])])]))
    # head of the group overridden -> does not type-check
    cs.append(dict(import_path="x/p", wild=False, overridden=1,
                   overlay=[dict(decls=[gd("const", [vs(["A"], [dict(lit="100")])], paren=False)])],
                   original=[dict(decls=[gd("const", [vs(["A"], [iota0]), vs(["B"]), vs(["C"])])])]))
    # explicit group without iota: harmless
    cs.append(dict(import_path="x/p", wild=False, overridden=1,
                   overlay=[dict(decls=[gd("const", [vs(["B"], [dict(lit="100")])], paren=False)])],
                   original=[dict(decls=[gd("const", [vs(["A"], [dict(lit="1")]), vs(["B"], [dict(lit="2")]), vs(["C"], [dict(lit="3")])])])]))
    # file that becomes import-only
    imp = dict(k="import", name=None, path="p/alpha", doc=[], cmt=[])
    blank = dict(k="import", name="_", path="p/side", doc=[], cmt=[])
    cs.append(dict(import_path="time", wild=False, overridden=1,
                   overlay=[dict(decls=[gd("var", [vs(["a"], [dict(lit="1")])], paren=False)])],
                   original=[dict(decls=[gd("import", [imp, blank]), gd("var", [vs(["a"], [dict(sel="alpha", f="X")])], paren=False)])]))
    return cs


def prune_stream(ctx):
    """single files through pruneImports alone (also unchanged / unused-from-the-start shapes)"""
    r = ctx.rng("prune")
    n = N_PRUNE or int(SCALE * (150 if ctx.quick else 2500))
    files = []
    for _ in range(n):
        g = Gen(r, wild=r.random() < 0.5)
        orig, _ = g.package()
        f = r.choice(orig)
        c = r.random()
        ds = f["decls"]
        if c < 0.45 and ds:
            # drop some declarations so imports become unused
            ds = [d for d in ds if (d["k"] == "gen" and d["tok"] == "import") or r.random() < 0.5]
        elif c < 0.55:
            ds = [d for d in ds if d["k"] == "gen" and d["tok"] == "import"]
        files.append(dict(decls=ds))
    inputs = [dict(mode="prune", original=[pr_file(f)]) for f in files]
    results = harness(inputs)
    if results is None:
        ctx.notes.append("harness timed out on the prune stream (infrastructure), skipped")
        return
    vcases = []
    dropped = 0
    for f, inp, res in zip(files, inputs, results):
        ctx.count(["prune", inp["original"][0]], nontrivial=True)
        if res["panic"] or strip(res["in_original"]) != [strip(f)]:
            ctx.violation("printer-roundtrip", "prune stream: file does not parse back to itself " + res["panic"][:100], dict(kind="prune", source=inp["original"][0]), concrete=False)
            continue
        got = strip(res["out_original"][0])
        want = strip(dict(decls=law_imports(f["decls"])))
        names = [import_name(s) for d in f["decls"] if d["k"] == "gen" and d["tok"] == "import" for s in d["specs"]]
        names = [x for x in names if x]
        if len(set(names)) == len(names) and got != want:
            ctx.violation("imports-law-differs", "pruneImports: " + first_diff([got], [want]), dict(kind="prune", source=inp["original"][0], impl=got, expected=want))
        dropped += got != strip(f)
        vcases.append("CPrune %s %s" % (cq_file(f), cq_file(res["out_original"][0])))
    bad, failed = run_coq(ctx, vcases, "prune")
    for k, err in failed:
        ctx.violation("model-eval-failed", "Coq evaluation of the model failed (prune)", dict(shard=k, log=err), concrete=False)
    for j in bad[:20]:
        ctx.violation("prune-model-mismatch", "model prune_imports and build.pruneImports disagree (correspondence C12/prune broken)",
                      dict(kind="prune", source=inputs[j]["original"][0], impl=strip(results[j]["out_original"])), concrete=False)
    ctx.cov["prune_files"] = dict(files=n, changed_by_prune=dropped, model_mismatches=len(bad))


def documented_prefix(ctx):
    """the keep-original prefix the model/law use comes from build.go; the property says it is the documented one"""
    doc = open(os.path.join(C.REPO, "doc", "pargma.md")).read()
    m = re.search(r"prepend `([^`]+)` to the original", doc)
    dp = m.group(1) if m else None
    ctx.cov["documented_keep_prefix"] = dp
    if dp != KEEP_PREFIX:
        ctx.violation("keep-original-prefix-not-the-documented-one",
                      "augmentOriginalFile renames kept originals with %r, doc/pargma.md documents %r" % (KEEP_PREFIX, dp),
                      dict(kind="doc", code=KEEP_PREFIX, documented=dp))


def correspond(ctx):
    documented_prefix(ctx)
    merge_stream(ctx)
    ctx.log("merge stream done")
    prune_stream(ctx)
    ctx.log("prune stream done")


def replay(ctx, data):
    rp = data["replay"]
    if rp.get("kind") == "merge":
        out = harness([dict(mode="merge", import_path=rp["import_path"], overlay=rp["overlay"], original=rp["original"], typecheck=True, print=True)])[0]
        print("overrides now:", json.dumps(out["overrides"]))
        for s in out["printed"] or []:
            print("-----\n" + s)
        print("type-check original:", json.dumps(out["tc_original"]))
        print("type-check merged:  ", json.dumps(out["tc_merged"]))
        print("recorded:", json.dumps({k: rp[k] for k in rp if k not in ("overlay", "original", "kind")})[:3000])
    elif rp.get("kind") == "prune":
        out = harness([dict(mode="prune", original=[rp["source"]], print=True)])[0]
        print(out["printed"][0] if out["printed"] else out)
    else:
        print(json.dumps(data, indent=1)[:4000])
    return 0
