"""C15 — maps use Go key equality for every comparable key type.
Model: coq/Model/C15_Keys.v (keyFor family), coq/Model/C15_JsMap.v (JS Map, emitted map operations, emitted
range loop); theorems: coq/Props/C15.v.

Correspondence:
 (1) node driver (harness/js/c15_driver.js) with the REAL prelude: key types are built with the real
     $newType/$structType/$arrayType/$ptrType/$chanType, values as the compiler's output builds them, and
     operation histories run with the map-operation snippets the compiler EMITS (format strings extracted from
     expressions.go/statements.go on every run).  After every operation the whole Map (keys in insertion order,
     entry.k, entry.v) and $idCounter are observed.  Direct oracle: an abstract Go map (association by Go's ==,
     written from the spec in c15_gen.py) must give the same answers and contents.  Model: the Coq model must
     predict the exact key strings, contents and counter.
 (2) compiled Go programs (histories and range-with-mutation loops) run under GopherJS+node and under native Go;
     outputs must agree (direct oracle), the range laws are evaluated on GopherJS's own trace, and the model must
     predict the exact visiting order and final contents.
"""
import json, os, re, sys
import common as C
import c15_gen as G

ID = "C15"
SCALE = float(os.environ.get("VERIF_C15_SCALE", "1"))     # development aid only: shrink the case counts
PROPS_FILE = "Props/C15.v"
MODEL_TARGETS = ["Corr/C15_Eval.v"]
# also in the second make: in alternate-repository mode every make is preceded by an rsync of /verif/coq that puts back the
# Corr/C15_Eval.vo compiled against /repo's Gen table; it depends on Gen/C15_Tables (the $ifaceKeyFor variant) and must be rebuilt
EXTRA_TARGETS = ["Corr/C15_Eval.v"]
ALLOWED_AXIOMS = []
RULE = ("node histories: a type universe per case (basic kinds, pointers, channels, interfaces, arrays 0-3, structs 0-3 fields, "
        "nested to depth 3, named types incl. several distinct types with the same name), a key pool of 4-9 values drawn from "
        "adversarial pools (strings with $ \\ \\$ and look-alikes of other kinds' keys, +-0, NaN, 64-bit halves, nil/non-nil pointers "
        "and channels, equal-looking values of different dynamic types), 10-40 operations set/get/comma-ok/delete/len/literal/nil; "
        "non-trivial = at least two pool keys and one overwrite-or-delete; distinct by (types, ops). programs: the same histories as "
        "Go source plus range loops whose body mutates the map, compared with native Go")
TRUSTED = ["models of the keyFor family / JS Map / emitted map operations / emitted range loop written by hand "
           "(coq/Model/C15_Keys.v, C15_JsMap.v), tied by this correspondence",
           "V8 Number-to-string for non-zero non-NaN floats: Section variable nts with the hypotheses nts_inj (injective), nts_nonzero "
           "(never \"0\"), nts_not_nan (never \"NaN\") and nts_plain (no '$' / '\\' in the text); checked on every float used by the driver",
           "ECMAScript Map semantics (insertion order, tombstones, live iterator) as modelled in C15_JsMap.v; checked against node's Map",
           "pointer identity (equal Go pointers are one JS object) is C-other; identity objects are abstract references here",
           "harness/js/c15_driver.js and the template extraction in harness/py/props/c15.py"]
ASSUMPTIONS = ["single goroutine: no map mutation by other goroutines during a range loop",
               "key_iff_eq: the dynamic types met form one record per type id (true by construction of $typeIDCounter)",
               "the type objects' comparable flags are exact (true when types are initialised in dependency order, as the node driver "
               "does; NOT true in compiled programs for composite types created before a named struct element type's init(): known "
               "finding stale-comparable-flag-no-panic, probed by a compiled program)",
               "range_law: live keys of the Map are pairwise distinct (proved for every Map reachable from new Map() by set/delete)",
               "the map's own copy of an array/struct key (cloning at m[k] = v) is not part of the Coq model (values are immutable there); "
               "it is checked on compiled programs: every store goes through one reused key variable and what range yields is compared with native Go"]
TECHNIQUE = ("Coq proof (induction over key types/values and over operation histories) + differential correspondence with the real "
             "prelude type constructors, the emitted map operations and compiled programs vs native Go")
LEVEL_TEXT = ("Machine-checked theorems over an executable model of the keyFor family, the JS Map, the emitted map operations and the "
              "emitted range loop (the code after the fix commits): escape+join is injective for fixed arity (any lists of strings); FULL "
              "key_iff_eq: for every key type and any two keys computed at any two moments of a run the JS Map identifies them iff Go's == "
              "holds (NaN, +-0, complex, blank fields, interfaces by type id, nesting); every history of set/get/comma-ok/delete/len/"
              "literal/nil answers and holds what an abstract Go map does; nil maps; unhashable keys throw (full, "
              "given exact comparable flags); range over a map for every body script: visits only live entries with current values, final map = "
              "initial + body's mutations, an entry present throughout is visited exactly once.")
LEVEL_NOTE = ("Proof is about the hand-written model; the tie to /repo is differential on every run: node histories on the real prelude "
              "type constructors with the emitted operation snippets (exact key text / contents / $idCounter comparison) + compiled "
              "programs vs native Go (incl. key aliasing through a reused key variable) + per-kind keyFor table regenerated from types.js. "
              "Number printing is a trusted parameter with stated hypotheses (checked on the floats used). One defect class of /repo (stale "
              "comparable flag of composite types created before a named struct's init) is recorded as a known finding.")


# ---------------------------------------------------------------- templates: the map operations as the compiler emits them
def _between(src, start_pat, length=1500):
    m = re.search(start_pat, src)
    if not m:
        raise C.BuildError("C15: cannot find %r in the compiler source (shape changed; tie to the emitted map operations lost)" % start_pat)
    return src[m.start():m.start() + length]


def _lit(src, pat, what):
    m = re.search(pat, src, re.S)
    if not m:
        raise C.BuildError("C15: cannot extract the emitted code for %s (source shape changed)" % what)
    return m.group(1)


def _subst(fmt, args):
    """instantiate a gopherjs formatExpr/Sprintf format: %s %e %f (sequential) and %1s %2e ... (indexed)"""
    seq = [0]

    def rep(m):
        if m.group(1):
            return args[int(m.group(1)) - 1]
        i = seq[0]
        seq[0] += 1
        return args[i]
    return re.sub(r"%(\d*)[sefdv]", rep, fmt)


def extract_templates():
    ex = open(os.path.join(C.REPO, "compiler", "expressions.go")).read()
    stt = open(os.path.join(C.REPO, "compiler", "statements.go")).read()
    idx = _between(ex, r"key := fmt\.Sprintf\(", 900)
    keyfmt = _lit(idx, r'key := fmt\.Sprintf\("([^"]*)"', "map key expression")
    get2 = _lit(idx, r"isTuple\s*\{\s*return fc\.formatExpr\(\s*`([^`]*)`", "comma-ok map index")
    get = _lit(idx, r"\}\s*return fc\.formatExpr\(\s*`([^`]*)`", "map index")
    dele = _lit(_between(ex, r'case "delete":', 500), r"fc\.formatExpr\(\s*`([^`]*)`", "delete")
    ln = _lit(_between(ex, r'case "len":', 1500), r'case \*types\.Map:\s*return fc\.formatExpr\("([^"]*)"', "len(map)")
    mk = _lit(_between(ex, r'case "make":', 1500), r'case \*types\.Map:.*?\}\s*return fc\.formatExpr\("([^"]*)"\)', "make(map)")
    lit = _lit(ex, r'case \*types\.Map:\s*entries := .*?return fc\.formatExpr\("([^"]*)", fc\.typeName\(t\.Key\(\)\)', "map literal")
    ent = _lit(ex, r'entries\[i\] = fmt\.Sprintf\("([^"]*)"', "map literal entry")
    nilv = _lit(ex, r'case \*types\.Map:\s*return fc\.formatExpr\("(\w+)"\)\s*case \*types\.Interface:\s*return fc\.formatExpr\("\$ifaceNil"\)', "nil map value")
    st = _lit(_between(stt, r"func \(fc \*funcContext\) translateAssign", 1800), r"return fmt\.Sprintf\(\s*`([^`]*)`", "map store")
    key = _subst(keyfmt, ["T", "k"])
    tpl = dict(
        set="function(m, T, k, v) { var _key; " + _subst(st, ["_key", "k", "m", "T", "_key", "_key", "v"]) + " }",
        get="function(m, T, k) { var _entry; return " + _subst(get, ["_entry", "m", key, "0"]) + "; }",
        get2="function(m, T, k) { var _entry; return " + _subst(get2, ["_entry", "m", key, "0"]) + "; }",
        **{"del": "function(m, T, k) { " + _subst(dele, ["m", "T", "k"]) + "; }"},
        len="function(m) { return " + _subst(ln, ["m", "m"]) + "; }",
        make="function() { return " + mk + "; }",
        lit="function(T, es) { return " + _subst(lit, ["T", "@@"]).replace("[@@]", "es.map(function(e) { return " + _subst(ent, ["e.k", "e.v"]) + "; })") + "; }",
    )
    if nilv != "false":
        raise C.BuildError("C15: the nil map is no longer emitted as `false` (%r); the model's nil map no longer mirrors the code" % nilv)
    return tpl


KINDCLASS_RE = re.compile(r"case \$kind(\w+):")


def gen_tables():
    """coq/Gen/C15_Tables.v: which keyFor each kind gets in $newType, the escape characters, the separator"""
    src = open(os.path.join(C.REPO, "compiler", "prelude", "types.js")).read()
    body = _between(src, r"var \$newType = ", 12000)
    rows, pending = [], []
    # walk the first switch: group of case labels, then the body up to `break;`
    body = body[:body.index("typ.id = $typeIDCounter")]
    body = body[:body.rindex("switch (kind)")]
    for m in re.finditer(r"case \$kind(\w+):|break;", body):
        if m.group(1):
            if not pending:
                start = m.end()
            pending.append(m.group(1))
        else:
            blk = body[start:m.start()]
            cls = "none"
            ki = blk.find("typ.keyFor = ")
            km = None
            if ki >= 0:
                # the assigned expression: up to the `;` at brace depth 0
                depth, j = 0, ki + len("typ.keyFor = ")
                while j < len(blk) and not (blk[j] == ";" and depth == 0):
                    depth += blk[j] in "{(" 
                    depth -= blk[j] in "})"
                    j += 1
                km = blk[ki + len("typ.keyFor = "):j]
            if km:
                e = re.sub(r"\s+", " ", re.sub(r"/\*.*?\*/", "", km, flags=re.S))
                if e == "$identity": cls = "identity"
                elif e == "$idKey": cls = "idkey"
                elif e == "$ifaceKeyFor": cls = "iface"
                elif e == 'x => { return "$" + x; }': cls = "string"
                elif e == "x => { return $floatKey(x); }": cls = "float"
                elif e == 'x => { return x.$high + "$" + x.$low; }': cls = "halves"
                elif e == 'x => { return $floatKey(x.$real) + "$" + $floatKey(x.$imag); }': cls = "complex"
                elif e == 'x => { if (!typ.comparable) { $throwRuntimeError("hash of unhashable type " + typ.string); } return Array.prototype.map.call(x, e => { return String(elem.keyFor(e)).replace(/\\\\/g, "\\\\\\\\").replace(/\\$/g, "\\\\$"); }).join("$"); }': cls = "array"
                elif e == 'x => { var val = x.$val; return $mapArray(fields.filter(f => { return f.name !== "_"; }), f => { return String(f.typ.keyFor(val[f.prop])).replace(/\\\\/g, "\\\\\\\\").replace(/\\$/g, "\\\\$"); }).join("$"); }': cls = "struct"
                else: cls = "changed"
            for k in pending:
                if k not in [x for x, _ in rows]:
                    rows.append((k, cls))
            pending = []
    fk = _between(open(os.path.join(C.REPO, "compiler", "prelude", "numeric.js")).read(), r"var \$floatKey = ", 200)
    fk_ok = re.sub(r"\s+", "", fk).startswith('var$floatKey=f=>{if(f!==f){$idCounter++;return"NaN$"+$idCounter;}returnString(f);};')
    ik = re.sub(r"\s+", "", _between(src, r"var \$idKey = ", 200))
    ik_ok = ik.startswith("var$idKey=x=>{if(x.$id===undefined){$idCounter++;x.$id=$idCounter;}returnString(x.$id);};")
    ifk = re.sub(r"\s+", "", re.sub(r"/\*.*?\*/", "", _between(src, r"var \$ifaceKeyFor = ", 400), flags=re.S))
    ifk_ok = ifk.startswith("var$ifaceKeyFor=x=>{if(x===$ifaceNil){return'nil';}varc=x.constructor;returnc.string+'$'+c.keyFor(x.$val);};")
    variant = probe_iface_variant()
    if variant != "string":
        ifk_ok = variant == "id" and ifk.startswith("var$ifaceKeyFor=x=>{if(x===$ifaceNil){return'nil';}varc=x.constructor;if(c.comparable===false){$throwRuntimeError(\"hashofunhashabletype\"+c.string);}returnc.id+'$'+c.keyFor(x.$val);};")
    native = re.findall(r"case \$kind(\w+):\s*return (\w+);", _between(src, r"var \$nativeArray = ", 900))
    txt = ["(* generated by harness/py/props/c15.py from compiler/prelude/types.js and numeric.js — do not edit *)",
           "From Coq Require Import List String NArith.", "Import ListNotations.", "Local Open Scope string_scope.",
           "Definition c15_keyfor_class : list (string * string) := [%s]." % "; ".join('("%s", "%s")' % r for r in rows),
           "Definition c15_native_array_kinds : list string := [%s]." % "; ".join('"%s"' % k for k, a in native if a != "Array"),
           "Definition c15_floatkey_as_modelled : bool := %s." % ("true" if fk_ok else "false"),
           "Definition c15_idkey_as_modelled : bool := %s." % ("true" if ik_ok else "false"),
           "Definition c15_ifacekey_as_modelled : bool := %s." % ("true" if ifk_ok else "false"),
           "(* probe of the real runtime: two distinct types with the same string; does $ifaceKeyFor use the type id? *)",
           "Definition c15_iface_by_id : bool := %s." % ("true" if variant == "id" else "false"),
           ""]
    C.write_if_changed(os.path.join(C.COQ, "Gen", "C15_Tables.v"), "\n".join(txt))


PROBE_JS = r"""
globalThis.require = require;
const P = require(process.argv[2]).load(process.argv[3]);
const nt = P.get('$newType'), kI = P.get('$kindInt');
const A = nt(4, kI, 'main.T', true, 'main', true, null), B = nt(4, kI, 'main.T', true, 'main', true, null);
const f = P.get('$ifaceKeyFor');
const ka = f(new A(1)), kb = f(new B(1));
let v = 'unknown';
if (ka === 'main.T$1' && kb === 'main.T$1') v = 'string';
else if (ka === A.id + '$1' && kb === B.id + '$1') v = 'id';
console.log(JSON.stringify({variant: v, ka: ka, kb: kb}));
"""


def probe_iface_variant():
    """ask the real $ifaceKeyFor which text it puts in front of '$' (the type string, or the type id after the repair)"""
    os.makedirs(C.WORK, exist_ok=True)
    pj = os.path.join(C.WORK, "c15_probe.js")
    C.write_if_changed(pj, PROBE_JS)
    rc, out, err = C.sh2(["node", pj, os.path.join(C.JS, "prelude_loader.js"), C.REPO], timeout=60)
    try:
        return json.loads(out.strip().split("\n")[-1])["variant"]
    except Exception:
        raise C.BuildError("C15: probe of $ifaceKeyFor failed: " + (err or out)[-500:])


def prepare(ctx):
    C.ensure_gopherjs()
    C.sync_alt_coq()
    gen_tables()
    ctx.tpl = extract_templates()


# ---------------------------------------------------------------- node histories
def gen_history_case(r, idx, quick):
    """one case for the node driver"""
    mode = r.random()
    opts = dict(same_name=0.0, blank=0.0, unhashable=0.0, cnan=0.15, anan=0.15, blank_unhashable=0.0)
    # a minority of cases contains the ingredients of the recorded defect classes, so that most histories
    # exercise everything else to the end
    if mode < 0.10: opts["same_name"] = 1.0
    elif mode < 0.16: opts["blank"] = 0.6
    elif mode < 0.24: opts["unhashable"] = 0.25
    elif mode < 0.26: opts["unhashable"] = 0.25; opts["blank_unhashable"] = 0.3
    elif mode < 0.29: opts["cnan"] = 0.5
    elif mode < 0.34: opts["anan"] = 0.5
    g = G.Gen(r, opts)
    # named types: a few, possibly with clashing names
    nn = r.choice([0, 1, 2, 3])
    names = ["T", "U", "V"]
    for i in range(nn):
        g.gen_named(r.choice(names), r.choice([0, 1, 2]))
    if opts["same_name"]:
        u = g.T.add(r.choice(G.BASIC))
        for _ in range(2):
            g.named_pool.append(g.T.add(dict(k="named", name="T", under=u)))
        if r.random() < 0.4:      # same-named types hidden one level down: struct { a main.T } twice
            a, b = g.named_pool[-2], g.named_pool[-1]
            g.T.add(dict(k="struct", fields=[dict(name="a", t=a)]))
            g.T.add(dict(k="struct", fields=[dict(name="a", t=b)]))
    c = r.random()
    if c < 0.45 or opts["same_name"] or opts["unhashable"]:
        # interface-typed key (possibly inside a composite)
        key = g.T.add(dict(k="iface")) if r.random() < 0.7 else g.gen_type(2)
        if not _mentions_iface(g.T, key):
            key = g.T.add(dict(k="iface"))
    elif opts["blank"] and g.named_pool:
        key = r.choice(g.named_pool)
    else:
        key = g.gen_type(3)
    if not g.T.comparable(key):
        key = g.T.add(dict(k="iface"))
    npool = r.randint(4, 9)
    pool = [g.gen_value(key, 3) for _ in range(npool)]
    # near-duplicates: rebuild a pool value, flip a zero's sign
    for _ in range(r.randint(0, 3)):
        v = json.loads(json.dumps(r.choice(pool)))
        pool.append(_tweak(r, v))
    nops = r.randint(10, 40 if quick else 60)
    nil = r.random() < 0.08
    ops = []
    for _ in range(nops):
        x = r.random()
        if x < 0.40: ops.append(["set", r.choice(pool), r.randint(1, 99)])
        elif x < 0.55: ops.append(["get", r.choice(pool)])
        elif x < 0.70: ops.append(["get2", r.choice(pool)])
        elif x < 0.85: ops.append(["del", r.choice(pool)])
        elif x < 0.93: ops.append(["len"])
        elif x < 0.97: ops.append(["lit", [[r.choice(pool), r.randint(1, 99)] for _ in range(r.randint(0, 4))]])
        else: ops.append(["nil"])
    for h in _floats_in(pool):
        g.floats.add(h)
    return dict(types=g.T.t, objs=g.objs, key=key, nilmap=nil, ops=ops, floats=sorted(g.floats), _T=g.T, _pool=pool)


def _mentions_iface(T, ti):
    u = T.under(ti)
    if u["k"] == "iface": return True
    if u["k"] == "array": return _mentions_iface(T, u["elem"])
    if u["k"] == "struct": return any(_mentions_iface(T, f["t"]) for f in u["fields"])
    return False


def _floats_in(x):
    out = []
    if isinstance(x, list):
        if len(x) >= 2 and x[0] == "f" and isinstance(x[1], str):
            out.append(x[1])
        elif len(x) == 3 and x[0] == "c" and isinstance(x[1], str):
            out += [x[1], x[2]]
        else:
            for y in x:
                out += _floats_in(y)
    return out


def _tweak(r, v):
    """flip the sign of a zero somewhere in the value (Go-equal, different bits)"""
    if isinstance(v, list):
        if len(v) == 2 and v[0] == "f" and isinstance(v[1], str):
            if v[1] == G.f64hex(0.0): return ["f", G.NEG0]
            if v[1] == G.NEG0: return ["f", G.f64hex(0.0)]
            return v
        if len(v) == 3 and v[0] == "c" and isinstance(v[1], str):
            flip = lambda h: G.NEG0 if h == G.f64hex(0.0) else (G.f64hex(0.0) if h == G.NEG0 else h)
            return ["c", flip(v[1]), flip(v[2])]
        return [_tweak(r, x) for x in v]
    return v


def run_node(ctx, cases, shard_size=60):
    shards = [cases[i:i + shard_size] for i in range(0, len(cases), shard_size)]

    def one(k):
        inp = dict(repo=C.REPO, tpl=ctx.tpl,
                   cases=[dict((kk, vv) for kk, vv in c.items() if not kk.startswith("_")) for c in shards[k]])
        rc, out, err = C.sh2(["node", "--stack-size=4000", os.path.join(C.JS, "c15_driver.js")], inp=json.dumps(inp).encode(), timeout=900)
        if rc == 124:
            ctx.notes.append("node driver shard %d timed out: %d cases skipped (infrastructure)" % (k, len(shards[k])))
            return [dict(skipped=True) for _ in shards[k]]
        if rc != 0:
            raise C.BuildError("c15 node driver failed: " + (err or out)[-1500:])
        return json.loads(out)
    res = []
    for part in C.parallel_map(one, range(len(shards))):
        res += part
    return res


def classify_err(err):
    if err is None: return None
    if "assignment to entry in nil map" in err: return "nilmap"
    if err.startswith("js:") and ("keyFor is not a function" in err or "is not a function" in err): return "nokeyfor"
    if "hash of unhashable type" in err: return "nokeyfor"
    return "other:" + err[:80]


def oracle_history(ctx, c, res, tstr):
    """the property's own predicate on the implementation's output: every answer and the contents after every
    operation are those of a Go map (association by ==).  Returns None or (signature, what, detail)."""
    T, ti = c["_T"], c["key"]
    am = G.AbsMap(T, ti, nil=c["nilmap"])
    for i, (op, stp) in enumerate(zip(c["ops"], res["steps"])):
        before = list(am.e)
        kind, want = am.apply(op)
        err = classify_err(stp["err"])
        where = "op %d %s" % (i, json.dumps(op)[:160])
        if kind == "panic":
            if err is None:
                if want == "unhashable":
                    k = op[1] if op[0] != "lit" else next(k for k, _ in op[1] if not G.hashable(T, ti, k))
                    if G.only_blank_fields_unhashable(T, ti, k):
                        return ("blank-unhashable-field-no-panic", "a key whose dynamic type is uncomparable only because of a blank struct field does not panic (Go: hash of unhashable type); " + where, dict(op_index=i))
                    if G.has_zero_len_unhashable_array(T, ti, k):
                        return ("zero-length-array-of-unhashable-no-panic", "a key whose dynamic type is a zero-length array of an uncomparable type does not panic (Go: hash of unhashable type); " + where, dict(op_index=i))
                    return ("unhashable-key-no-panic", "an unhashable dynamic key type does not panic; " + where, dict(op_index=i))
                return ("nil-map-store-no-panic", "store into a nil map does not panic; " + where, dict(op_index=i))
            if want == "nilmap" and err != "nilmap":
                return ("nil-map-store-wrong-panic", "store into a nil map: " + str(stp["err"]), dict(op_index=i))
            # Go leaves the map untouched on a panic
            got = [(k, v) for _, k, v in stp["snap"]]
            if not _same_contents(T, ti, got, am.e):
                return ("panic-changed-map", "a panicking operation changed the map; " + where, dict(op_index=i))
            continue
        if err is not None:
            return ("unexpected-panic-" + re.sub(r"[^a-z]+", "-", err.lower())[:40], "operation on hashable keys threw %s; %s" % (stp["err"], where), dict(op_index=i))
        bad = None
        if op[0] in ("get", "get2", "len") and stp["r"] != want:
            bad = "%s answered %r, Go's map answers %r" % (op[0], stp["r"], want)
        got = [(k, v) for _, k, v in stp["snap"]]
        if not bad and not _same_contents(T, ti, got, am.e):
            bad = "contents after the operation are %s, Go's map holds %s" % (json.dumps(got)[:300], json.dumps(am.e)[:300])
        if bad:
            # which defect class (if any) explains it: look at the key of this op against the keys held before
            feats = set()
            keys = [op[1]] if op[0] in ("set", "get", "get2", "del") else [k for k, _ in op[1]] if op[0] == "lit" else []
            others = [k for k, _ in before] + keys
            for k in keys:
                for k2 in others:
                    if G.hashable(T, ti, k) and G.hashable(T, ti, k2):
                        G.collision_features(T, ti, k, k2, tstr, feats)
            sig = None        # no collision class is a recorded finding any more (all repaired in /repo)
            if sig is None:
                sig = "map-history-diverges-" + T.under(ti)["k"]
            return (sig, bad + "; " + where, dict(op_index=i))
    return None


def _same_contents(T, ti, got, want):
    """order-insensitive: same multiset of (key bits, value)"""
    want = list(want)
    if len(got) != len(want):
        return False
    for k, v in got:
        for j, (k2, v2) in enumerate(want):
            if v == v2 and G.same_value(T, ti, _norm_desc(T, ti, k), _norm_desc(T, ti, k2)):
                del want[j]
                break
        else:
            return False
    return True


def _norm_desc(T, ti, v):
    """the driver's description of nil pointers carries a number; drop it"""
    u = T.under(ti)
    k = u["k"]
    if k in ("ptr", "chan"):
        return v[:1] if v[0] in ("pn", "cn") else v[:2]
    if k == "iface":
        return v if len(v) == 1 else ["i", v[1], _norm_desc(T, v[1], v[2])]
    if k == "array":
        return ["a", [_norm_desc(T, u["elem"], x) for x in v[1]]]
    if k == "struct":
        return ["t", [x if f["name"] == "_" else _norm_desc(T, f["t"], x) for f, x in zip(u["fields"], v[1])]]
    return v


def canon(T, ti, v):
    """canonical description of a value: NaNs are one value, nil pointers carry no number"""
    u = T.under(ti)
    k = u["k"]
    if k == "float":
        return ["f", G.NAN1 if G.is_nan_hex(v[1]) else v[1]]
    if k == "complex":
        return ["c"] + [G.NAN1 if G.is_nan_hex(x) else x for x in v[1:3]]
    if k in ("ptr", "chan"):
        return v[:1] if v[0] in ("pn", "cn") else v[:2]
    if k == "iface":
        return v if len(v) == 1 else ["i", v[1], canon(T, v[1], v[2])]
    if k == "array":
        return ["a", [canon(T, u["elem"], x) for x in v[1]]]
    if k == "struct":
        return ["t", [["_"] if f["name"] == "_" else canon(T, f["t"], x) for f, x in zip(u["fields"], v[1])]]
    if k in ("slice", "map", "func"):
        return ["u"]
    return v


class Pool:
    def __init__(self, T, ti):
        self.T, self.ti, self.vals, self.idx, self.reps = T, ti, [], {}, []

    def of(self, v):
        cv = canon(self.T, self.ti, v)
        key = json.dumps(cv)
        if key not in self.idx:
            self.idx[key] = len(self.vals)
            self.vals.append(cv)
            self.reps.append(v)
        return self.idx[key]


def iop_term(pool, op):
    if op[0] == "set": return "ISet %d %s" % (pool.of(op[1]), G.cz(op[2]))
    if op[0] == "get": return "IGet %d" % pool.of(op[1])
    if op[0] == "get2": return "IGet2 %d" % pool.of(op[1])
    if op[0] == "del": return "IDel %d" % pool.of(op[1])
    if op[0] == "len": return "ILen"
    if op[0] == "nil": return "INil"
    if op[0] == "lit": return "ILit [%s]" % "; ".join("(%d, %s)" % (pool.of(k), G.cz(v)) for k, v in op[1])
    raise ValueError(op[0])


def coq_hcase(c, res, full=True):
    T, ti = c["_T"], c["key"]
    tstr = [G.S(s) for s in res["tstr"]]
    pool = Pool(T, ti)
    ops = [iop_term(pool, op) for op in c["ops"]]
    keys, kidx = [], {}
    exp = []
    for op, stp in zip(c["ops"], res["steps"]):
        err = classify_err(stp["err"])
        if err == "nilmap": ob = [4, 0, 0]
        elif err == "nokeyfor": ob = [5, 0, 0]
        elif err is not None: ob = [9, 0, 0]        # something the model never produces
        elif op[0] == "get": ob = [1, stp["r"], 0]
        elif op[0] == "get2": ob = [2, stp["r"][0], 1 if stp["r"][1] else 0]
        elif op[0] == "len": ob = [3, stp["r"], 0]
        else: ob = [0, 0, 0]
        exp += ob
        if full:
            exp += [1, len(stp["snap"])]
            for key, k, v in stp["snap"]:
                kk = json.dumps(key)
                if kk not in kidx:
                    kidx[kk] = len(keys)
                    keys.append(G.ckey(key))
                exp += [kidx[kk], pool.of(k), v]
            exp.append(stp["ctr"])
        else:
            exp.append(0)
    return ("{| h_t := %s; h_nts := %s; h_ctr := %d; h_nil := %s;\n     h_pool := [%s];\n     h_keys := [%s];\n     h_ops := [%s];\n     h_expect_flat := [%s] |}" % (
        T.shape(ti), G.cnts(res.get("nts", {})), res.get("ctr0", 0), "true" if c["nilmap"] else "false",
        ";\n       ".join(G.cval(T, ti, v, tstr, res.get("tid")) for v in pool.reps), "; ".join(keys),
        "; ".join(ops), ";".join(str(x) for x in exp)))


HEADER = ("From Coq Require Import List ZArith NArith Bool.\nFrom Verif Require Import Model.C15_Keys Model.C15_JsMap Corr.C15_Eval.\n"
          "Import ListNotations.\nLocal Open Scope N_scope.\n")


def coq_run_noglob(vfile, timeout=1200, mem_gb=12):
    """C.coq_run without the .glob file (case files are big, the glob is several MB)"""
    cmd = "ulimit -s 4000000 2>/dev/null || ulimit -s unlimited 2>/dev/null; ulimit -v %d; exec coqc -noglob -Q %s Verif %s" % (mem_gb * 1024 * 1024, C.COQ, vfile)
    return C.sh(["bash", "-c", cmd], cwd=os.path.dirname(vfile), timeout=timeout)


def coq_mismatches(ctx, terms, typ, fn, tag, shard=150):
    """evaluate the model on the cases; returns (list of mismatching indices, list of error logs)"""
    shards = [terms[i:i + shard] for i in range(0, len(terms), shard)]

    def one(k):
        p = os.path.join(ctx.work, "cases_%s_%d.v" % (tag, k))
        with open(p, "w") as f:
            f.write(HEADER)
            f.write("Definition cases : list %s := [\n%s].\n" % (typ, ";\n".join(shards[k])))
            f.write("Definition M := Eval vm_compute in %s cases.\nPrint M.\n" % fn)
        rc, out = coq_run_noglob(p)
        m = re.search(r"M\s*=\s*(\[[^\]]*\])", out.replace("\n", " "))
        if rc != 0 or not m:
            return k, None, out[-1200:]
        return k, [int(x) for x in re.findall(r"\d+", m.group(1).replace("%N", ""))], ""
    bad, errs = [], []
    for k, idxs, err in C.parallel_map(one, range(len(shards))):
        if idxs is None:
            errs.append((k, err))
        else:
            bad += [k * shard + i for i in idxs]
    return bad, errs


def check_nts(ctx, res):
    """hypotheses on the trusted number printer, on every float met: injective, no '$' / '\\'"""
    seen = {}
    for rs in res:
        for h, u in (rs.get("nts") or {}).items():
            if G.is_nan_hex(h) or h in (G.f64hex(0.0), G.NEG0):
                continue
            seen[h] = tuple(u)
    inv = {}
    for h, u in seen.items():
        if list(u) == [78, 97, 78] or list(u) == [48]:
            ctx.violation("number-printing-assumption", "String(x) is \"NaN\" or \"0\" for a non-zero non-NaN x=%s" % h, dict(bits=h, text=list(u)), concrete=False)
        if 36 in u or 92 in u or not u:
            ctx.violation("number-printing-assumption", "String(x) contains '$' or '\\' or is empty for x=%s" % h, dict(bits=h, text=list(u)), concrete=False)
        if u in inv and inv[u] != h:
            ctx.violation("number-printing-assumption", "String(x) is not injective: %s and %s" % (h, inv[u]), dict(a=h, b=inv[u]), concrete=False)
        inv[u] = h
    ctx.cov["floats_checked_for_nts_hypotheses"] = len(seen)


def public(c):
    return dict((k, v) for k, v in c.items() if not k.startswith("_"))


def histories(ctx):
    r = ctx.rng("histories")
    n = int((1000 if ctx.quick else 8000) * SCALE)
    cases = [gen_history_case(r, i, ctx.quick) for i in range(n)] + fixed_history_cases()
    res = run_node(ctx, cases)
    check_nts(ctx, res)
    dist = dict(key_kinds={}, ops=0, panics=0, max_depth=0, oracle_failures={}, model_mismatches=0,
                cases_with_same_named_types=0, keys_with_dollar_or_backslash=0)
    terms, keep = [], []
    for i, (c, rs) in enumerate(zip(cases, res)):
        if rs.get("skipped"):
            continue
        if "fatal" in rs:
            ctx.violation("driver-crash", "node driver crashed on a case", dict(kind="history", case=public(c), error=rs["fatal"][-800:]), concrete=False)
            continue
        T = c["_T"]
        kk = T.under(c["key"])["k"]
        dist["key_kinds"][kk] = dist["key_kinds"].get(kk, 0) + 1
        dist["ops"] += len(c["ops"])
        dist["panics"] += sum(1 for s in rs["steps"] if s["err"])
        dist["max_depth"] = max(dist["max_depth"], T.depth(c["key"]))
        names = [d["name"] for d in T.t if d["k"] == "named"]
        dist["cases_with_same_named_types"] += len(names) != len(set(names))
        dist["keys_with_dollar_or_backslash"] += sum(1 for s in rs["steps"] for key, _, _ in s["snap"][-1:] if key[0] == "s" and (36 in key[1][1:] or 92 in key[1]))
        nontriv = len(c["_pool"]) >= 2 and any(o[0] in ("del",) for o in c["ops"]) and any(o[0] == "set" for o in c["ops"])
        ctx.count([c["types"], c["ops"], c["key"]], nontrivial=nontriv)
        bad = oracle_history(ctx, c, rs, rs["tstr"])
        if bad:
            sig, what, det = bad
            dist["oracle_failures"][sig] = dist["oracle_failures"].get(sig, 0) + 1
            ctx.violation(sig, what, dict(kind="history", case=public(c), impl=rs["steps"][:det["op_index"] + 1][-3:], type_strings=rs["tstr"], **det))
        terms.append(coq_hcase(c, rs))
        keep.append(i)
        if i < 2:
            ctx.sample(dict(kind="history", key_type=T.shape(c["key"]), ops=c["ops"][:6], first_snapshots=[s["snap"] for s in rs["steps"][:3]]))
    badidx, errs = coq_mismatches(ctx, terms, "hcase", "mismatches_h", "h")
    for k, err in errs:
        ctx.violation("model-eval-failed", "Coq evaluation of the model failed", dict(shard=k, log=err), concrete=False)
    for j in badidx:
        c, rs = cases[keep[j]], res[keep[j]]
        dist["model_mismatches"] += 1
        ctx.violation("keyfor-model-mismatch", "model and real keyFor/Map operations disagree on a history (keys, contents or $idCounter)",
                      dict(kind="history", case=public(c), impl=rs["steps"][:4], type_strings=rs["tstr"],
                           correspondence="Corr/C15_Eval.mismatches_h vs prelude keyFor + emitted map operations"), concrete=False)
    ctx.cov["history_distribution"] = dist
    ctx.cov["traces_validated_against_impl"] = len(terms)


def fixed_history_cases():
    """hand-written regression histories: one per adversarial class named in the property"""
    out = []

    def mk(types, key, ops, objs=(), nil=False, floats=()):
        T = G.Types()
        for d in types:
            T.t.append(d)
        return dict(types=types, objs=list(objs), key=key, nilmap=nil, ops=ops, floats=list(floats), _T=T, _pool=[o[1] for o in ops if len(o) > 1 and o[0] != "lit"])
    s = lambda x: ["s", G.S(x)]
    # struct{a,b string}: ("a$","b") vs ("a","$b") vs ("a\\","$b") ...
    st = [dict(k="string"), dict(k="struct", fields=[dict(name="a", t=0), dict(name="b", t=0)])]
    ks = [["t", [s("a$"), s("b")]], ["t", [s("a"), s("$b")]], ["t", [s("a\\"), s("$b")]], ["t", [s("a\\$"), s("b")]], ["t", [s(""), s("")]], ["t", [s("$"), s("")]], ["t", [s(""), s("$")]]]
    out.append(mk(st, 1, [["set", k, i + 1] for i, k in enumerate(ks)] + [["len"]] + [["get2", k] for k in ks] + [["del", ks[1]], ["len"]] + [["get2", k] for k in ks]))
    # interface keys: equal-looking values of different dynamic types
    it = [dict(k="iface"), dict(k="int", kind="Int"), dict(k="float", bits=64), dict(k="string"), dict(k="int", kind="Int8"), dict(k="bool"),
          dict(k="named", name="T", under=1), dict(k="int64"), dict(k="uint64")]
    one = G.f64hex(1.0)
    ki = [["i", 1, 1], ["i", 2, ["f", one]], ["i", 3, s("1")], ["i", 4, 1], ["i", 5, True], ["i", 3, s("true")], ["i", 6, 1], ["i", 7, ["q", 0, 1]], ["i", 8, ["q", 0, 1]], ["i"], ["i", 3, s("nil")]]
    out.append(mk(it, 0, [["set", k, i + 1] for i, k in enumerate(ki)] + [["len"]] + [["get2", k] for k in ki], floats=[one]))
    # floats: +-0, NaN
    ft = [dict(k="float", bits=64)]
    z, nz, nan = G.f64hex(0.0), G.NEG0, G.NAN1
    out.append(mk(ft, 0, [["set", ["f", z], 1], ["set", ["f", nz], 2], ["len"], ["get2", ["f", z]], ["set", ["f", nan], 3], ["set", ["f", nan], 4], ["len"],
                          ["get2", ["f", nan]], ["del", ["f", nan]], ["len"], ["del", ["f", nz]], ["len"]], floats=[z, nz]))
    # nil map
    out.append(mk([dict(k="int", kind="Int")], 0, [["len"], ["get2", 1], ["del", 1], ["set", 1, 1], ["len"], ["lit", [[1, 2]]], ["len"], ["nil"], ["get", 1]], nil=True))
    # pointers / channels by identity, nil pointer, through an interface
    pt = [dict(k="int", kind="Int"), dict(k="ptr", elem=0), dict(k="iface"), dict(k="chan", elem=0, dir=0), dict(k="chan", elem=0, dir=1)]
    kp = [["i", 1, ["p", 0]], ["i", 1, ["p", 1]], ["i", 1, ["pn"]], ["i", 3, ["p", 2]], ["i", 3, ["cn"]], ["i", 4, ["cn"]], ["i", 0, 1], ["i", 0, 2]]
    out.append(mk(pt, 2, [["set", k, i + 1] for i, k in enumerate(kp)] + [["len"]] + [["get2", k] for k in kp] + [["del", kp[0]], ["get2", kp[0]], ["get2", kp[1]]], objs=[1, 1, 3]))
    # 64-bit halves / complex parts / element texts that concatenate ambiguously: (1,23) vs (12,3) ...
    kq = [["q", 1, 23], ["q", 12, 3], ["q", 0, 1], ["q", 1, 0], ["q", 0, 4294967295], ["q", -1, 4294967295], ["q", 0, 0]]
    out.append(mk([dict(k="int64")], 0, [["set", k, i + 1] for i, k in enumerate(kq)] + [["len"]] + [["get2", k] for k in kq]))
    ku = [["q", 1, 23], ["q", 12, 3], ["q", 0, 1], ["q", 1, 0], ["q", 4294967295, 4294967295], ["q", 0, 0]]
    out.append(mk([dict(k="uint64")], 0, [["set", k, i + 1] for i, k in enumerate(ku)] + [["len"]] + [["get2", k] for k in ku]))
    f = lambda x: G.f64hex(float(x))
    kc = [["c", f(1), f(23)], ["c", f(12), f(3)], ["c", f(0), f(1)], ["c", f(1), f(0)], ["c", G.NEG0, f(0)], ["c", f(1.5), f(-2.5)]]
    out.append(mk([dict(k="complex", bits=128)], 0, [["set", k, i + 1] for i, k in enumerate(kc)] + [["len"]] + [["get2", k] for k in kc],
                  floats=[f(1), f(23), f(12), f(3), f(0), G.NEG0, f(1.5), f(-2.5)]))
    ka = [["a", [1, 23]], ["a", [12, 3]], ["a", [0, 0]], ["a", [-1, 1]], ["a", [1, -1]]]
    out.append(mk([dict(k="int", kind="Int8"), dict(k="array", n=2, elem=0)], 1, [["set", k, i + 1] for i, k in enumerate(ka)] + [["len"]] + [["get2", k] for k in ka]))
    kt = [["t", [1, 23]], ["t", [12, 3]], ["t", [0, 0]], ["t", [-1, 1]], ["t", [1, -1]]]
    out.append(mk([dict(k="int", kind="Int"), dict(k="struct", fields=[dict(name="a", t=0), dict(name="b", t=0)])], 1,
                  [["set", k, i + 1] for i, k in enumerate(kt)] + [["len"]] + [["get2", k] for k in kt]))
    kas = [["a", [s("a$"), s("b")]], ["a", [s("a"), s("$b")]], ["a", [s("a\\"), s("$b")]], ["a", [s("a\\$"), s("b")]], ["a", [s(""), s("$")]], ["a", [s("$"), s("")]]]
    out.append(mk([dict(k="string"), dict(k="array", n=2, elem=0)], 1, [["set", k, i + 1] for i, k in enumerate(kas)] + [["len"]] + [["get2", k] for k in kas]))
    # backslash right before a component boundary and '$' right after it
    kb = [["t", [s("x\\"), s("$y")]], ["t", [s("x$\\"), s("y")]], ["t", [s("\\"), s("$")]], ["t", [s("$\\"), s("")]], ["t", [s("\\\\"), s("")]], ["t", [s("\\"), s("\\")]]]
    out.append(mk(st, 1, [["set", k, i + 1] for i, k in enumerate(kb)] + [["len"]] + [["get2", k] for k in kb] + [["del", kb[0]], ["len"]] + [["get2", k] for k in kb]))
    kba = [["a", x[1]] for x in kb]
    out.append(mk([dict(k="string"), dict(k="array", n=2, elem=0)], 1, [["set", k, i + 1] for i, k in enumerate(kba)] + [["len"]] + [["get2", k] for k in kba]))
    # 64-bit keys beyond float64 precision
    H = 1 << 21
    kq2 = [["q", H, 0], ["q", H, 1], ["q", H, 2], ["q", -H, 0], ["q", -H - 1, 4294967295], ["q", 2147483647, 4294967295], ["q", 2147483647, 4294967294]]
    out.append(mk([dict(k="int64")], 0, [["set", k, i + 1] for i, k in enumerate(kq2)] + [["len"]] + [["get2", k] for k in kq2]))
    ku2 = [["q", H, 0], ["q", H, 1], ["q", 4294967295, 4294967295], ["q", 4294967295, 4294967294], ["q", 4294967295, 0]]
    out.append(mk([dict(k="uint64"), dict(k="iface")], 1, [["set", ["i", 0, k], i + 1] for i, k in enumerate(ku2)] + [["len"]] + [["get2", ["i", 0, k]] for k in ku2]))
    # NaN inside complex / array keys: never equal
    kn = [["c", G.NAN1, f(1)], ["c", f(1), G.NAN1], ["c", f(1), f(1)]]
    out.append(mk([dict(k="complex", bits=128)], 0, [["set", kn[0], 1], ["set", kn[0], 2], ["set", kn[1], 3], ["set", kn[2], 4], ["len"], ["get2", kn[0]], ["get2", kn[2]], ["del", kn[0]], ["len"]],
                  floats=[f(1)]))
    kan = [["a", [["f", G.NAN1], ["f", f(1)]]], ["a", [["f", f(1)], ["f", f(1)]]]]
    out.append(mk([dict(k="float", bits=64), dict(k="array", n=2, elem=0)], 1, [["set", kan[0], 1], ["set", kan[0], 2], ["set", kan[1], 3], ["len"], ["get2", kan[0]], ["get2", kan[1]]], floats=[f(1)]))
    # blank fields are ignored
    bt = [dict(k="int", kind="Int"), dict(k="struct", fields=[dict(name="a", t=0), dict(name="_", t=0)]), dict(k="named", name="S", under=1)]
    kbl = [["t", [1, 2]], ["t", [1, 3]], ["t", [2, 2]]]
    out.append(mk(bt, 2, [["set", kbl[0], 1], ["set", kbl[1], 2], ["len"], ["get2", kbl[0]], ["set", kbl[2], 3], ["len"], ["del", kbl[1]], ["len"]]))
    return out


# ---------------------------------------------------------------- compiled programs
from c15_prog import programs   # noqa: E402


def correspond(ctx):
    histories(ctx)
    ctx.log("node histories done")
    programs(ctx)
    ctx.log("programs done")


def replay(ctx, data):
    rp = data["replay"]
    if rp.get("kind") == "history":
        c = rp["case"]
        rc, out, err = C.sh2(["node", os.path.join(C.JS, "c15_driver.js")], inp=json.dumps(dict(repo=C.REPO, tpl=ctx.tpl, cases=[c])).encode())
        print("implementation now:")
        for op, s in zip(c["ops"], json.loads(out)[0].get("steps", [])):
            print("  ", json.dumps(op)[:120], "->", json.dumps(s)[:400])
        print("recorded:", json.dumps(rp.get("impl"))[:2000])
    elif rp.get("kind") == "program":
        d = os.path.join(ctx.work, "replay")
        C.write_go_program(d, {"main.go": rp["source"]}, module="verifc15")
        rc, log = C.gopherjs_build(d)
        print(log)
        rc, out, err = C.run_node(os.path.join(d, "out.js"), cwd=d)
        print("gopherjs:\n" + err + out)
        rc, out, err = C.sh2(["go", "run", "."], cwd=d, env=C.goenv())
        print("native go:\n" + err + out)
    else:
        print(json.dumps(data, indent=1))
    return 0
