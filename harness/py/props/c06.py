"""C06 — fixed-width integer (and, by correspondence only, float/complex) arithmetic is exact.

Model: coq/Base/C06_JsNum.v (JS numbers), coq/Model/C06_Prelude64.v (64-bit runtime),
coq/Model/C06_Templates.v (expressions.go, by hand, parametrised by the probed repair variant),
coq/Gen/C06_Tables.v (REGENERATED per run: every (kind, operator, shape) template exactly as the real
compiler emits it today, the fixNumber table, is64Bit, the variant flags); theorems: coq/Props/C06.v.

Correspondence on every run:
 (a) the real prelude helpers ($mul64, $div64, $shift*64, $Int64/$Uint64 constructors, $flatten64) are called
     in node on a boundary grid squared + random pairs + all shift counts 0..70 and huge; each result is checked
     against BigInt arithmetic (the property's own predicate) and, row by row, against the Coq model;
 (b) one Go program per integer kind with ~150-500 typed expressions (every operator with operands as variables,
     as constants, constant shift counts, conversions to and from every other kind, random nested expressions)
     is compiled with the real compiler and run on a grid squared (exhaustive pairs for the 8-bit kinds); every
     result is compared with native Go running the same source (int/uint/uintptr aliased to 32-bit types) and with
     a from-scratch Python evaluation of the specification, and row digests with the Coq model;
 (c) float32/float64/complex64/complex128 arithmetic, comparisons and int<->float conversions: bit patterns
     of compiled programs vs native Go (no model).
"""
import json, os, re, struct, time
import common as C
import c06_gen, c06_exprs as X

ID = "C06"
PROPS_FILE = "Props/C06.v"
MODEL_TARGETS = ["Corr/C06_Eval.v", "Corr/C06_P4_Eval.v"]
ALLOWED_AXIOMS = []
RULE = ("(a) helper calls: x, y from the 64-bit boundary set {0, +-1, +-2^k, +-2^k+-1, min, max, 0x55.., 0xAA..} squared, random "
        "pairs, shift counts 0..70 and {2^31, 2^32, 2^32+1, 2^40, 2^53}; constructor arguments incl. negative/overflowing low and "
        "dyadic non-integers; (b) per kind: every operator on variables, variable-op-constant and constant-op-variable, constant "
        "shift counts (14 sampled + 4 more), conversions to/from each other kind, random nested trees of depth 2-4, evaluated on "
        "(boundary set + random values)^2, all 65536 pairs for int8/uint8; a case = one (expression, x, y); non-trivial = result "
        "differs from both operands or panics; distinct by (kind, expression, x, y); (c) float grids incl. +-0, subnormals, "
        "+-Inf, NaN, 2^24/2^53 neighbourhoods, halfway cases for float32 rounding")
TRUSTED = [
    "V8's IEEE-754 double arithmetic and ToInt32/ToUint32/Math.imul/Math.fround as summarised at the top of coq/Base/C06_JsNum.v",
    "c06_jsgen.py: parser/translator from the emitted JavaScript expression of each template into Gallina (shallow embedding); "
    "coq/Proofs/C06_Tie.v and C06_P4_Conv.v re-check by conversion that the hand-written model equals the translation for all 631 templates",
    "Model/C06_Prelude64.v: $mul64/$div64 (both loops)/$shift*64/$flatten64/constructors transliterated by hand from numeric.js and types.js "
    "(now proved correct for all operands; the transliteration itself is tied by correspondence (a): real helpers in node vs the model, row by row)",
    "native Go 1.23 and BigInt as references for the specification side; harness/js/c06_helpers.js; generated Go programs",
    "float32/float64/complex arithmetic and float32 rounding of 64-bit values: not modelled, compared bit-exactly with native Go only; "
    "a float64 operand of a conversion is modelled as the exact rational n/d it denotes (Model/C06_P4_Conv.jreal)",
]
ASSUMPTIONS = [
    "operands of an integer template are in range for their kind (established inductively by the result-in-range theorems; a -0 "
    "operand is covered by the value-level theorems)",
    "shift counts are non-negative (a negative run-time count not panicking is a documented permitted difference, C01); a 64-bit shift "
    "count reaches the helper as the JS number Fin n (theorems: every n >= 0; counts above 2^53 are rounded doubles >= 2^53, compared only)",
    "float -> integer conversions are only specified (and only generated) for values whose truncation is in range of the target kind; "
    "the float64 -> 64-bit theorem assumes the constructor variant probed in this run (v_ctor = Math.trunc), the Math.ceil variant is refuted",
    "64-bit -> float64 is proved exact for |x| <= 2^53 only (above, the correctly rounded double is compared with Number(BigInt) and native Go)",
]
TECHNIQUE = ("Coq proofs over a JS-number model of every emitted integer template (regenerated from the compiler's real output each run) and of "
             "the 64-bit runtime helpers (loop invariants for $div64, case analysis on the count for the 64-bit shifts, digit arithmetic for $mul64) "
             "+ differential correspondence with the real prelude helpers (vs BigInt, and row by row vs the model) and compiled programs (vs native Go)")
LEVEL_TEXT = ("Machine-checked: for every integer kind (8..64 bits) and EVERY binary operator, unary operator, comparison, shift (any "
              "count >= 0, variable or constant) and integer conversion the emitted template equals the Go specification for all in-range "
              "operands (unbounded, by proof): the 9 kinds of at most 32 bits as before; for int64/uint64 now also / and % through $div64 "
              "(both loops by stated invariants; truncated quotient, remainder with the dividend's sign, throw exactly on a zero divisor, "
              "MinInt64 / -1) and $shiftLeft64/$shiftRightInt64/$shiftRightUint64 for every count (0, <32, 32, 32..63, >=64), so "
              "C06_int64_full_statement is closed (C06_int64_binop_correct, no _partial). float64 -> int64/uint64 through the constructor "
              "truncates toward zero for every in-range value (Math.trunc variant; Math.ceil variant refuted), int64/uint64 -> float64 "
              "($flatten64) is exact for |x| <= 2^53. The hand model is re-proved convertible with the compiler's real output (631 templates) on every run.")
LEVEL_NOTE = ("Still correspondence only (bit patterns vs native Go, no model): float32/float64/complex arithmetic, float32 rounding of 64-bit "
              "values (recorded finding int64-to-float32-double-rounding stays a known finding), 64-bit -> float64 above 2^53 (rounded double vs "
              "Number(BigInt)), shift counts above 2^53. The prelude helpers are hand-transliterated (tied differentially, not parsed).")

GEN = {}


def prepare(ctx):
    C.ensure_gopherjs()
    GEN.clear()
    GEN.update(c06_gen.generate(ctx.work, C.REPO))
    for n in GEN["notes"][:10]:
        ctx.log("gen note: " + n)


# --------------------------------------------------------------------------- digests

P = 4294967291


def hstep(h, ws):
    for w in ws:
        h = (h * 1000003 + w) % P
    return h


def words(v):
    return [v % (1 << 32), (v >> 32) % (1 << 32)]


def tok_words(t):
    if t == "P":
        return [3]
    if t == "-0":
        return [2]
    if ":" in t:
        h, l = t.split(":")
        return [1, int(l), int(h)]
    return [1] + words(int(t))


def tok_value(t, k):
    """Go value printed by the program, or 'P' / '-0'"""
    if t in ("P", "-0"):
        return t
    if ":" in t:
        h, l = t.split(":")
        return X.wrap(k, (int(h) << 32) | int(l))
    return int(t)


def coq_z(v):
    return str(v) if v >= 0 else "(%d)" % v


def coq_eval_jobs(ctx, name, jobs):
    """jobs: list of (definitions text using names suffixed by the caller, call text).  One coqc process evaluates all of
    them (the fixed cost of a process - loading the libraries, compiling the model for the VM - dominates small jobs).
    Returns (list of lists of N | None, log); log == "TIMEOUT" for an infrastructure timeout."""
    p = os.path.join(ctx.work, name + ".v")
    with open(p, "w") as f:
        f.write("From Coq Require Import ZArith List NArith.\nFrom Verif Require Import Base.C06_JsNum Model.C06_Prelude64 Model.C06_Spec "
                "Gen.C06_Tables Model.C06_Templates Corr.C06_Eval Model.C06_P4_Conv Corr.C06_P4_Eval.\nImport ListNotations.\nLocal Open Scope Z_scope.\n")
        for j, (defs, call) in enumerate(jobs):
            f.write(defs)
            f.write("Definition M%d := Eval vm_compute in %s.\nPrint M%d.\n" % (j, call, j))
    rc, out = C.coq_run(p, timeout=900 if ctx.quick else 3600)
    if rc == 124 or "[timeout after" in out[-200:]:
        return None, "TIMEOUT"
    flat = out.replace("\n", " ")
    res = []
    for j in range(len(jobs)):
        m = re.search(r"M%d\s*=\s*(\[[^\]]*\])" % j, flat)
        if rc != 0 or not m:
            return None, out[-1200:]
        res.append([int(x) for x in re.findall(r"\d+", m.group(1).replace("%N", ""))])
    return res, ""


# --------------------------------------------------------------------------- (a) helpers

def grid64(r, nrand, small=False):
    vs = {0, 1, 2, 3, -1, -2, -3, (1 << 63) - 1, -(1 << 63), (1 << 63) - 2, -(1 << 63) + 1, int("55" * 8, 16), int("AA" * 8, 16), int("33" * 8, 16)}
    ks = range(1, 64) if not small else [1, 16, 31, 32, 33, 48, 53, 63]
    for j in ks:
        for d in (-1, 0, 1):
            vs.add((1 << j) + d)
            vs.add(-(1 << j) + d)
    vs = sorted(vs)
    return vs + [r.getrandbits(64) - (1 << 63) for _ in range(nrand)] + [r.getrandbits(r.choice([20, 33, 40, 50])) * r.choice([1, -1]) for _ in range(nrand)]


def split64(sg, v):
    v %= 1 << 64
    if sg and v >= 1 << 63:
        v -= 1 << 64
    lo = v % (1 << 32)
    return [(v - lo) >> 32, lo]


COUNTS = list(range(0, 71)) + [100, 2 ** 31, 2 ** 32, 2 ** 32 + 1, 2 ** 40, 2 ** 53]
HNAME = dict(mul="HMul", quo="HQuo", rem="HRem", shl="HShl", shr="HShr", ushr="HUshr", ctor="HCtor")


def helpers(ctx):
    r = ctx.rng("helpers")
    quick = ctx.quick
    full = grid64(r, 10 if quick else 150)
    if quick:
        full = [v for i, v in enumerate(full) if i % 2 == 0 or abs(v) < 4 or abs(v) >= 2 ** 62]
    sub = grid64(r, 3 if quick else 12, small=quick)       # rows evaluated by the Coq model
    sub = sub[::3] if quick else sub[::2]
    jobs = []
    for sg in (True, False):
        fx = [split64(sg, v) for v in full]
        sx = [split64(sg, v) for v in sub]
        for h in ("mul", "quo", "rem"):
            jobs.append(dict(id="%s/%d/full" % (h, sg), h=h, sg=sg, xs=fx, ys=fx))
            jobs.append(dict(id="%s/%d/sub" % (h, sg), h=h, sg=sg, xs=sx, ys=sx))
        cys = [[0, c] for c in COUNTS]
        for h in ("shl", "shr" if sg else "ushr"):
            jobs.append(dict(id="%s/%d/full" % (h, sg), h=h, sg=sg, xs=fx, ys=cys))
            jobs.append(dict(id="%s/%d/sub" % (h, sg), h=h, sg=sg, xs=sx, ys=cys))
        # constructor: raw (high, low) arguments as the templates produce them: sums/differences/negations of halves
        raws = []
        for _ in range(300 if quick else 5000):
            hi = r.choice([0, 1, -1, 2 ** 31 - 1, -2 ** 31, 2 ** 32 - 1, 2 ** 32, -2 ** 32, r.randint(-2 ** 33, 2 ** 33)])
            lo = r.choice([0, 1, -1, 2 ** 32 - 1, 2 ** 32, 2 ** 32 + 1, -2 ** 32, -2 ** 32 + 1, 2 ** 33 - 2, r.randint(-2 ** 34, 2 ** 34), r.randint(-2 ** 52, 2 ** 52)])
            raws.append([hi, lo])
        jobs.append(dict(id="ctor/%d/sub" % sg, h="ctor", sg=sg, xs=fx[:1], ys=raws))
        # float -> 64-bit conversion: low = num/den exactly representable (den a power of two), value in range
        reals = []
        for _ in range(400 if quick else 6000):
            den = 2 ** r.choice([0, 1, 1, 2, 3, 10, 20])
            kind = r.random()
            if kind < 0.4:        # just below / above a multiple of 2^32
                base = r.choice([1, 2, 3, 1000, 2 ** 20, 2 ** 19 + 1]) * 2 ** 32 * r.choice([1, -1] if sg else [1])
                num = base * den + r.choice([-1, 1, -den + 1, den - 1, 0, -3, 3])
            elif kind < 0.7:
                num = r.randint(-2 ** 52 if sg else 0, 2 ** 52)
            else:
                num = r.randint(-2 ** 34 if sg else 0, 2 ** 34)
            if abs(num) < 2 ** 53 and (sg or num >= 0):
                reals.append([num, den])
        jobs.append(dict(id="ctorreal/%d/sub" % sg, h="ctorreal", sg=sg, xs=fx[:1], ys=reals, raw=True))
        # phase 4: 64-bit -> float64 ($flatten64): neighbourhoods of 0, 2^31, 2^32 multiples, 2^53 (the exactness bound), extremes
        fl = set(v for v in full if sg or v >= 0)
        for base in (0, 2 ** 31, 2 ** 32, 2 ** 33, 2 ** 52, 2 ** 53, 3 * 2 ** 32, (2 ** 21 - 1) * 2 ** 32, 2 ** 63 - 2 ** 10):
            for dlt in (-2, -1, 0, 1, 2, 2 ** 31, 2 ** 32 - 1):
                for sgn in ((1, -1) if sg else (1,)):
                    fl.add(sgn * (base + dlt))
        for _ in range(150 if quick else 3000):
            fl.add(r.randint(-2 ** 53 if sg else 0, 2 ** 53))
            fl.add(r.getrandbits(r.choice([31, 32, 33, 40, 54, 63])) * (r.choice([1, -1]) if sg else 1))
        fl = sorted(v for v in fl if (-(1 << 63) <= v < (1 << 63) if sg else 0 <= v < (1 << 64)))
        jobs.append(dict(id="flatten/%d/sub" % sg, h="flatten", sg=sg, xs=[split64(sg, v) for v in fl], ys=[[0, 0]], raw=True))
    inp = json.dumps(dict(repo=C.REPO, jobs=jobs)).encode()
    rc, out, err = C.sh2(["node", os.path.join(C.JS, "c06_helpers.js")], inp=inp, timeout=1800)
    if rc == 124:
        ctx.notes.append("prelude helper harness timed out: helper correspondence skipped")
        return
    if rc != 0:
        ctx.violation("helpers-harness-failed", "the prelude helper harness failed (prelude does not load?)", dict(stderr=err[-1500:]), concrete=False)
        return
    results = {x["id"]: x for x in json.loads(out)["results"]}
    jobsby = {j["id"]: j for j in jobs}
    ncalls = 0
    for jid, res in results.items():
        ncalls += res["calls"]
        job = jobsby[jid]
        for b in res["bad"][:3]:
            sig = "%s64-%s-wrong" % (job["h"], "signed" if job["sg"] else "unsigned")
            if job["h"] == "flatten":
                big = abs(b["x"][0] * 2 ** 32 + b["x"][1]) > 2 ** 53
                sig = "flatten64-%s-%s" % ("signed" if job["sg"] else "unsigned", "rounding-wrong" if big else "inexact-below-2p53")
            if job["h"] == "ctorreal":
                n, d = b["y"]
                if n > 0 and n % d != 0 and isinstance(b["got"], list) and isinstance(b["want"], list) and b["got"][0] != b["want"][0]:
                    sig = "float-to-int64-ceil-carry"
            ctx.violation(sig, "%s(%s) on x=%r y=%r returns %r, exact integer arithmetic (BigInt) gives %r" % (
                dict(mul="$mul64", quo="$div64", rem="$div64 rem", shl="$shiftLeft64", shr="$shiftRightInt64", ushr="$shiftRightUint64",
                     ctor="new $Int64/$Uint64", ctorreal="new $Int64/$Uint64(0, float)", flatten="$flatten64")[job["h"]],
                "signed" if job["sg"] else "unsigned", b["x"], b["y"], b["got"], b["want"]),
                dict(kind="helper", h=job["h"], sg=job["sg"], x=b["x"], y=b["y"], got=b["got"], want=b["want"], total_bad=res.get("nbad", 0)))
    ctx.evaluations += ncalls
    for jid in list(results)[:400]:
        ctx.distinct.add(C.sha(jid + str(results[jid]["digests"][:50]))[:16])
    ctx.cov["helper_calls_vs_bigint"] = ncalls
    ctx.sample(dict(kind="helper", job="mul/1/full", x=jobsby["mul/1/full"]["xs"][5], rows=len(results["mul/1/full"]["digests"])))

    # ---- the same rows through the Coq model: one coqc process per signedness
    files = {True: [], False: []}
    for jid, job in jobsby.items():
        if not jid.endswith("/sub") or job["h"] in ("ctorreal", "flatten"):
            continue
        n = len(files[job["sg"]])
        ys = "[" + "; ".join("(%s, %s)" % (coq_z(a), coq_z(b)) for a, b in job["ys"]) + "]"
        rows = "[" + "; ".join("(%s, %s, %d)" % (coq_z(x[0]), coq_z(x[1]), d) for x, d in zip(job["xs"], results[jid]["digests"])) + "]"
        defs = "Definition ys%d : list (Z * Z) := %s.\nDefinition rows%d : list (Z * Z * Z) := %s.\n" % (n, ys, n, rows)
        files[job["sg"]].append((defs, "bad_hrows %s %s ys%d rows%d" % (HNAME[job["h"]], "true" if job["sg"] else "false", n, n), job))
    real_rows = []
    for sg in (True, False):
        jid = "ctorreal/%d/sub" % sg
        for (n, d), got in zip(jobsby[jid]["ys"], results[jid]["raw"]):
            if isinstance(got, list):
                real_rows.append("(%s, %s, %s, %s, %s)" % ("true" if sg else "false", coq_z(n), coq_z(d), coq_z(got[0]), coq_z(got[1])))
    files[True].append(("Definition rrows := [%s].\n" % "; ".join(real_rows), "bad_reals rrows", None))
    # phase 4: the same constructor rows through the EMITTED float64 -> 64-bit template, and the $flatten64 rows through the
    # emitted 64-bit -> float64 template (only |value| <= 2^53: above, the model says "inexact")
    files[False].append(("Definition forows := [%s].\n" % "; ".join(real_rows), "bad_fo forows", "fo"))
    flat_rows = []
    for sg in (True, False):
        jid = "flatten/%d/sub" % sg
        for x, got in zip(jobsby[jid]["xs"], results[jid]["raw"]):
            if isinstance(got, int) and abs(x[0] * 2 ** 32 + x[1]) <= 2 ** 53:
                flat_rows.append("(%s, %s, %s, %s)" % ("true" if sg else "false", coq_z(x[0]), coq_z(x[1]), coq_z(got)))
            elif abs(x[0] * 2 ** 32 + x[1]) <= 2 ** 53:
                flat_rows.append("(%s, %s, %s, %s)" % ("true" if sg else "false", coq_z(x[0]), coq_z(x[1]), coq_z(2 ** 60)))   # -0 / non-integer: never equal
    files[False].append(("Definition ofrows := [%s].\n" % "; ".join(flat_rows), "bad_of ofrows", "of"))

    def run(sg):
        return sg, coq_eval_jobs(ctx, "h_%d" % sg, [(d, c) for d, c, _ in files[sg]])

    nrows = 0
    for sg, (res, log) in C.parallel_map(run, [True, False]):
        if res is None:
            if log == "TIMEOUT":
                ctx.notes.append("helper model rows skipped: Coq evaluation timed out (signed=%s)" % sg)
            else:
                ctx.violation("model-eval-failed", "Coq evaluation of the helper model failed", dict(signed=sg, log=log), concrete=False)
            continue
        for (defs, call, job), bad in zip(files[sg], res):
            if job == "fo":
                nrows += len(real_rows)
                for i in bad[:2]:
                    ctx.violation("float-to-int64-template-model-mismatch", "emitted float64 -> 64-bit conversion template (model) and the real constructor disagree",
                                  dict(kind="conv-fo", row=real_rows[i], correspondence="Corr/C06_P4_Eval.fo_model vs new $Int64/$Uint64(0, n/d)"), concrete=False)
                continue
            if job == "of":
                nrows += len(flat_rows)
                ctx.cov["flatten_rows_vs_model"] = len(flat_rows)
                for i in bad[:2]:
                    ctx.violation("int64-to-float64-template-model-mismatch", "emitted 64-bit -> float64 conversion template (model) and the real $flatten64 disagree",
                                  dict(kind="conv-of", row=flat_rows[i], correspondence="Corr/C06_P4_Eval.of_model vs $flatten64"), concrete=False)
                continue
            if job is None:
                nrows += len(real_rows)
                for i in bad[:2]:
                    ctx.violation("ctor-real-model-mismatch", "model and constructor disagree on new $Int64/$Uint64(0, n/d)", dict(kind="ctorreal", row=real_rows[i]), concrete=False)
                continue
            nrows += len(job["xs"])
            for i in bad[:2]:
                ctx.violation("helper-model-mismatch", "model and prelude helper %s disagree on the row x=%r (all y of the grid)" % (job["h"], job["xs"][i]),
                              dict(kind="helper-row", h=job["h"], sg=job["sg"], x=job["xs"][i], correspondence="Corr/C06_Eval.call_helper vs compiler/prelude/numeric.js"), concrete=False)
    ctx.cov["helper_rows_vs_model"] = nrows


# --------------------------------------------------------------------------- (b) programs

def build_and_run(ctx, name, src_js, src_native):
    """compile with the real compiler and run in node; build natively and run; outputs go through files
    (the Go runtime's println drops data on a full non-blocking pipe).  Error text starting with TIMEOUT marks an
    infrastructure failure (never a violation)."""
    d = os.path.join(ctx.work, name)
    C.write_go_program(d, {"main.go": src_js}, module="verifc06")
    rc, log = C.gopherjs_build(d, timeout=900)
    if rc == 124:
        return None, None, "TIMEOUT: gopherjs build"
    if rc != 0:
        return None, None, "gopherjs build failed: " + log[-1500:]
    rc, log = C.sh("node --stack-size=4000 out.js > impl.out 2>&1", cwd=d, timeout=1800)
    if rc == 124:
        return None, None, "TIMEOUT: node"
    impl = open(os.path.join(d, "impl.out"), errors="replace").read()
    if rc != 0:
        return None, None, "node failed rc=%d: %s" % (rc, impl[-1500:])
    dn = os.path.join(ctx.work, name + "_native")
    C.write_go_program(dn, {"main.go": src_native}, module="verifc06n")
    rc, log = C.sh(["go", "build", "-o", "prog", "."], cwd=dn, env=C.goenv(), timeout=1800)
    if rc == 124:
        return None, None, "TIMEOUT: native go build"
    if rc != 0:
        return None, None, "HARNESS: native go build failed: " + log[-1500:]
    rc, log = C.sh("./prog > native.out 2>&1", cwd=dn, timeout=1800)
    if rc == 124:
        return None, None, "TIMEOUT: native program"
    nat = open(os.path.join(dn, "native.out"), errors="replace").read()
    if rc != 0:
        return None, None, "HARNESS: native program failed rc=%d: %s" % (rc, nat[-1500:])
    return impl, nat, ""


def parse_rows(text):
    rows = {}
    for line in text.split("\n"):
        m = re.match(r"(\d+) (\d+) (\d+):(.*)$", line.strip())
        if m:
            rows[(int(m.group(1)), int(m.group(2)), int(m.group(3)))] = m.group(4).split()
    return rows


def top_op(e):
    return "-".join(str(p) for p in e[:3] if not isinstance(p, tuple)).lower()


def kind_program(ctx, k):
    r = ctx.rng("prog/" + k)
    quick = ctx.quick
    bnd, rnd = X.boundary_grid(k, r, 8 if quick else 60)
    if X.BITS[k] == 8:
        gridA = list(range(X.kmin(k), X.kmax(k) + 1))
    else:
        gridA = bnd + rnd
        cap = 90 if quick else 220
        if len(gridA) > cap:
            must = [v for v in gridA if abs(v) <= 3 or v in (X.kmin(k), X.kmax(k), X.kmin(k) + 1, X.kmax(k) - 1)]
            rest = [v for v in gridA if v not in must]
            gridA = sorted(set(must + r.sample(rest, cap - len(must))))
    gridB = sorted(set(bnd))
    capB = 18 if quick else 34
    if len(gridB) > capB:
        gridB = r.sample(gridB, capB)
    gridB = gridB + rnd[:4 if quick else 8]
    for must in (0, 1, X.kmin(k), X.kmax(k), -1 if k in X.SIGNED else 2):
        if must not in gridB:
            gridB.append(must)
    exA = X.basic_exprs(k)
    exB = X.shape_exprs(k, r, quick)
    exC = X.shape_exprs(k, r, quick)
    half = lambda es, odd: [e for i, e in enumerate(es) if i % 2 == odd]
    gridS = sorted(set([0, 1, X.kmin(k), X.kmax(k), -1 if k in X.SIGNED else 2, X.wrap(k, int("55" * (X.BITS[k] // 8), 16))] + r.sample(bnd, 4) + rnd[:2]))
    nest = [X.nested(k, k, r, r.choice([2, 3])) for _ in range(6 if quick else 40)]
    # (expressions, grid, type style: t = aliases / d = defined types, operand shape)
    sections = [(exA, gridA, "t", "plain"),
                (half(exB, 0), gridB, "t", "plain"),
                (half(exC, 1), gridB, "d", "plain"),
                (exA + nest, gridS, "d", "index"),
                (exA + nest, gridS, "t", "call"),
                (exA, gridS, "t", "map"),
                (exA, gridS, "d", "field")]
    impl, nat, err = build_and_run(ctx, "prog_" + k, X.program(k, sections, False), X.program(k, sections, True))
    if impl is None:
        if err.startswith("TIMEOUT"):
            ctx.notes.append("kind %s skipped: %s" % (k, err))
        else:
            ctx.violation("program-build-or-run-failed", "kind %s: %s" % (k, err[:300]), dict(kind="program", base=k, log=err), concrete=False)
        return None
    ri, rn = parse_rows(impl), parse_rows(nat)
    stats = dict(rows=0, evals=0, panics=0, spec_disagreements_with_native=0)
    viol = []
    coq_rows = {si: [] for si in range(len(sections))}
    for si, (exprs, grid, prefix, leaf) in enumerate(sections):
        for ei, e in enumerate(exprs):
            rk = X.kind_of(e, k)
            for xi, x in enumerate(grid):
                key = (si, ei, xi)
                a, b = ri.get(key), rn.get(key)
                stats["rows"] += 1
                if a is None or b is None or len(a) != len(grid) or len(b) != len(grid):
                    viol.append(("program-output-missing", "row %r missing in the %s output" % (key, "compiled" if a is None else "native"), dict(expr=X.go(e)), False))
                    continue
                stats["evals"] += len(grid)
                if a != b:
                    for yi, (ta, tb) in enumerate(zip(a, b)):
                        if ta != tb:
                            y = grid[yi]
                            trig = []
                            try:
                                want = X.spec_eval(e, x, y, trig)
                            except X.GoPanic:
                                want = "P"
                            sig = trig[0] if trig else "int-%s-%s-wrong" % (k.lower(), top_op(e))
                            if not trig and leaf != "plain":
                                sig = "int-%s-%s-operand-%s-wrong" % (k.lower(), top_op(e), leaf)
                            if not trig and leaf == "plain" and prefix == "d":
                                sig += "-defined-type"
                            gosrc = X.go(e, X.Style(prefix, leaf))
                            viol.append((sig, "%s: x=%d y=%d: compiled program gives %s, native Go %s (spec in Python: %s) for `%s`" % (k, x, y, ta, tb, want, gosrc),
                                         dict(kind="expr", base=k, expr=list_tree(e), go=gosrc, prefix=prefix, leaf=leaf, x=x, y=y, impl=ta, native=tb, spec=str(want)), True))
                            break
                # native Go vs the from-scratch Python spec (guards the harness itself): sampled
                if (xi + ei) % 7 == 0:
                    for yi in range(0, len(grid), 5):
                        try:
                            want = X.spec_eval(e, x, grid[yi])
                        except X.GoPanic:
                            want = "P"
                        if tok_value(b[yi], rk) != want:
                            stats["spec_disagreements_with_native"] += 1
                            viol.append(("harness-spec-vs-native-go", "Python spec and native Go disagree on `%s` x=%d y=%d: %s vs %s" % (X.go(e), x, grid[yi], want, b[yi]),
                                         dict(kind="expr", base=k, go=X.go(e), x=x, y=grid[yi]), False))
                            break
                stats["panics"] += a.count("P")
                coq_rows[si].append((ei, x, a, key))        # digest computed only for the rows handed to Coq
    return dict(k=k, sections=sections, coq_rows=coq_rows, stats=stats, viol=viol, sample=(X.go(exB[-1]), gridB[:5]))


def list_tree(e):
    return [list_tree(c) if isinstance(c, tuple) else c for c in e]


def tuple_tree(e):
    return tuple(tuple_tree(c) if isinstance(c, list) else c for c in e)


def X_digest(tokens):
    h = 2166136261
    for t in tokens:
        h = hstep(h, tok_words(t))
    return h


def programs(ctx):
    quick = ctx.quick
    res = [x for x in C.parallel_map(lambda k: kind_program(ctx, k), X.KINDS) if x]
    ctx.log("programs built and run")
    work = {}
    r = ctx.rng("coqrows")
    tot = dict(rows=0, evals=0, panics=0)
    for pr in res:
        k = pr["k"]
        for kk in tot:
            tot[kk] += pr["stats"][kk]
        seen = {}
        for sig, what, rep, conc in pr["viol"]:
            seen[sig] = seen.get(sig, 0) + 1
            if seen[sig] <= 2:
                ctx.violation(sig, what, rep, concrete=conc)
        ctx.evaluations += pr["stats"]["evals"]
        for si, (exprs, grid, prefix, leaf) in enumerate(pr["sections"]):
            rows = pr["coq_rows"][si]
            # Coq evaluates a sample of rows (x values) per expression: the boundary rows plus random ones
            budget = (2 if si == 0 else 2) if quick else (40 if si == 0 else 10)
            byexpr = {}
            for row in rows:
                byexpr.setdefault(row[0], []).append(row)
            rows = []
            for ei, rs in byexpr.items():
                keep = [x for x in rs if x[1] in (X.kmin(k), X.kmax(k), 0, -1)]
                keep = keep[:2] if quick else keep
                rows += keep + r.sample(rs, min(budget, len(rs)))
            work.setdefault(k, []).append((si, exprs, grid, rows))
        for e in pr["sections"][0][0][:3]:
            ctx.distinct.add(C.sha(k + X.go(e))[:16])
    ctx.cov["program_expression_evaluations"] = tot["evals"]
    ctx.cov["program_rows"] = tot["rows"]
    ctx.cov["program_panics_observed"] = tot["panics"]
    if res:
        ctx.sample(dict(kind="expr", base=res[0]["k"], go=res[0]["sample"][0], grid_head=res[0]["sample"][1]))

    def run(k):
        jobs = []
        for si, exprs, grid, rows in work[k]:
            defs = "Definition exprs%d : list gexpr := [%s].\nDefinition grid%d : list Z := [%s].\nDefinition rows%d : list (nat * Z * Z) := [%s].\n" % (
                si, ";\n ".join(X.coq(e) for e in exprs), si, "; ".join(coq_z(v) for v in grid), si,
                "; ".join("(%d%%nat, %s, %d)" % (ei, coq_z(x), X_digest(toks)) for ei, x, toks, _ in rows))
            jobs.append((defs, "bad_rows %s exprs%d grid%d rows%d" % (k, si, si, si)))
        t0 = time.time()
        res = coq_eval_jobs(ctx, "p_" + k, jobs)
        ctx.log("model evaluation kind %s: %.0fs" % (k, time.time() - t0))
        return k, res

    nrows = nevals = 0
    ctx.log("model evaluation: %d processes, %d rows, %d evaluations" % (len(work), sum(len(w[3]) for ws in work.values() for w in ws),
                                                                         sum(len(w[3]) * len(w[2]) for ws in work.values() for w in ws)))
    for k, (mres, log) in C.parallel_map(run, list(work)):
        if mres is None:
            if log == "TIMEOUT":
                ctx.notes.append("model rows skipped: Coq evaluation timed out (kind %s)" % k)
            else:
                ctx.violation("model-eval-failed", "Coq evaluation of the model failed (kind %s)" % k, dict(log=log), concrete=False)
            continue
        for (si, exprs, grid, rows), bad in zip(work[k], mres):
            nrows += len(rows)
            nevals += len(rows) * len(grid)
            for bi in bad[:2]:
                ei, x, toks, key = rows[bi]
                ctx.violation("program-model-mismatch", "model and compiled program disagree on `%s` (kind %s) in the row x=%d" % (X.go(exprs[ei]), k, x),
                              dict(kind="expr-row", base=k, expr=list_tree(exprs[ei]), go=X.go(exprs[ei]), x=x,
                                   correspondence="Corr/C06_Eval.eval over Gen/C06_Tables vs the compiled program"), concrete=False)
    ctx.cov["model_rows_vs_program"] = nrows
    ctx.cov["model_evaluations_vs_program"] = nevals
    # distinct non-trivial cases: count per (kind, expression, x-row) digest
    for pr in res:
        for si in pr["coq_rows"]:
            for ei, x, toks, key in pr["coq_rows"][si]:
                ctx.distinct.add("%s/%d/%d/%d" % (pr["k"], si, ei, x))


# --------------------------------------------------------------------------- (c) floats / complex

FLOAT_PROG = r'''package main

import "math"

%(alias)s

func hex(u uint32) string {
	const d = "0123456789abcdef"
	var b [8]byte
	for i := 7; i >= 0; i-- {
		b[i] = d[u&15]
		u >>= 4
	}
	return string(b[:])
}
func h64(f float64) string {
	if f != f {
		return "nan"
	}
	u := math.Float64bits(f)
	return hex(uint32(u>>32)) + hex(uint32(u))
}
func h32(f float32) string {
	if f != f {
		return "nan"
	}
	return hex(math.Float32bits(f))
}
func b(v bool) string {
	if v {
		return "1"
	}
	return "0"
}
func i64(v int64) string  { return hex(uint32(v>>32)) + hex(uint32(v)) }
func u64(v uint64) string { return hex(uint32(v>>32)) + hex(uint32(v)) }

var g64 = []float64{%(g64)s}
var g32 = []float32{%(g32)s}
var conv = []float64{%(conv)s}
var ints = []int64{%(ints)s}

//go:noinline
func c128(a, b float64) complex128 { return complex(a, b) }

func pick(c *int) int {
	*c++
	if *c == 1 {
		return 0
	}
	return 1
}

func main() {
	for i, x := range g64 {
		s := "A " + hex(uint32(i)) + ":"
		for _, y := range g64 {
			s += " " + h64(x+y) + h64(x-y) + h64(x*y) + h64(x/y) + b(x < y) + b(x <= y) + b(x == y) + b(x != y) + b(x > y) + b(x >= y)
		}
		println(s + " " + h64(-x) + h32(float32(x)))
	}
	for i, x := range g32 {
		s := "B " + hex(uint32(i)) + ":"
		for _, y := range g32 {
			s += " " + h32(x+y) + h32(x-y) + h32(x*y) + h32(x/y) + b(x < y) + b(x == y) + h32(x*y+x) + h32((x+y)*(x-y))
		}
		println(s + " " + h32(-x) + h64(float64(x)))
	}
	for i, x := range g32 {
		s := "C " + hex(uint32(i)) + ":"
		for _, y := range g32 {
			p := complex(x, y)
			q := complex(y, x+1)
			r := p * q
			t := p + q
			u := p - q
			s += " " + h32(real(r)) + h32(imag(r)) + h32(real(t)) + h32(imag(u)) + b(p == q)
		}
		println(s)
	}
	for i, x := range g64 {
		s := "D " + hex(uint32(i)) + ":"
		for j, y := range g64 {
			if (i+j)%%3 != 0 {
				continue
			}
			p := c128(x, y)
			q := c128(y, 3)
			r := p * q
			t := p - q
			s += " " + h64(real(r)) + h64(imag(r)) + h64(real(t)) + h64(imag(t)) + b(p == q) + b(p != q)
		}
		println(s)
	}
	for i, x := range g64 {
		s := "G " + hex(uint32(i)) + ":"
		for j, y := range g64 {
			if (i+j)%%4 != 0 {
				continue
			}
			// operands that are element expressions with a side-effecting index: evaluated exactly once
			pa := [2]complex128{c128(x, y), c128(y, x)}
			qa := [2]complex128{c128(y, 3), c128(3, y)}
			fa := [2]complex64{complex64(c128(x, y)), complex64(c128(y, x))}
			var c [9]int
			r := pa[pick(&c[0])] * qa[pick(&c[1])]
			t := pa[pick(&c[2])] - qa[pick(&c[3])]
			u := -pa[pick(&c[4])]
			w := fa[pick(&c[7])] + fa[pick(&c[8])]
			s += " " + h64(real(r)) + h64(imag(r)) + h64(real(t)) + h64(imag(t)) + h64(real(u)) + h64(imag(u)) + b(pa[pick(&c[5])] == qa[pick(&c[6])]) + h32(real(w)) + h32(imag(w))
		}
		println(s)
	}
	for i, f := range conv {
		s := "E " + hex(uint32(i)) + ":"
		if f >= -128 && f < 128 {
			s += " a" + hex(uint32(int32(int8(f))))
		}
		if f >= 0 && f < 256 {
			s += " b" + hex(uint32(uint8(f)))
		}
		if f >= -32768 && f < 32768 {
			s += " c" + hex(uint32(int32(int16(f))))
		}
		if f >= -2147483648 && f < 2147483648 {
			s += " d" + hex(uint32(int32(f))) + " D" + hex(uint32(tInt(f)))
		}
		if f >= 0 && f < 4294967296 {
			s += " e" + hex(uint32(f)) + " E" + hex(uint32(tUint(f)))
		}
		if f >= -9223372036854775808 && f < 9223372036854775808 {
			s += " f" + i64(int64(f))
		}
		if f >= 0 && f < 18446744073709551616 {
			s += " g" + u64(uint64(f))
		}
		g := float32(f)
		if g >= -2147483648 && g < 2147483648 {
			s += " h" + hex(uint32(int32(g)))
		}
		println(s)
	}
	for i, v := range ints {
		s := "F " + hex(uint32(i)) + ":"
		s += " " + h64(float64(v)) + h32(float32(v)) + h64(float64(uint64(v))) + h32(float32(uint64(v)))
		s += " " + h64(float64(int32(v))) + h32(float32(int32(v))) + h64(float64(uint32(v))) + h32(float32(uint32(v))) + h64(float64(int8(v))) + h32(float32(uint16(v)))
		println(s)
	}
}
'''


def f64lit(v):
    if v != v:
        return "math.NaN()"
    if v in (float("inf"), float("-inf")):
        return "math.Inf(%d)" % (1 if v > 0 else -1)
    if v == 0 and struct.pack(">d", v)[0] == 0x80:
        return "math.Copysign(0, -1)"
    return "math.Float64frombits(0x%016x)" % struct.unpack(">Q", struct.pack(">d", v))[0]


def f32lit(v):
    if v != v:
        return "float32(math.NaN())"
    return "math.Float32frombits(0x%08x)" % struct.unpack(">I", struct.pack(">f", v))[0]


def floats(ctx):
    r = ctx.rng("floats")
    n = 10 if ctx.quick else 120
    g64 = [0.0, -0.0, 1.0, -1.0, 0.5, 1.5, 2.5, 3.0, 1e-320, 5e-324, 2.2250738585072014e-308, 1.7976931348623157e308, float("inf"), float("-inf"), float("nan"),
           2.0 ** 53, 2.0 ** 53 + 2, 2.0 ** 53 - 1, 16777216.0, 16777217.0, 16777219.0, 0.1, 0.2, 0.3, 1.0000000596046448, 1.0000001788139343, 1e22, 1e23, 3.4028234663852886e38, 3.4028235677973366e38,
           1.401298464324817e-45, 7.006492321624085e-46, 4294967295.5, -4294967296.5]
    for _ in range(n):
        g64.append(struct.unpack(">d", struct.pack(">Q", r.getrandbits(64)))[0])
        g64.append(r.uniform(-1e6, 1e6))
        g64.append(float(r.randint(-2 ** 26, 2 ** 26)) + r.choice([0, 0.5, 0.25]))
    g32 = [0.0, -0.0, 1.0, -1.0, 0.5, 3.0, 16777216.0, 16777215.0, 1.1754943508222875e-38, 1.401298464324817e-45, 3.4028234663852886e38, float("inf"), float("-inf"), float("nan"),
           0.1, 0.2, 1e10, 1e-10, 8388608.0, 8388609.0, 4194305.5]
    for _ in range(n):
        g32.append(struct.unpack(">f", struct.pack(">I", r.getrandbits(32)))[0])
        g32.append(r.uniform(-1e4, 1e4))
    g32 = [struct.unpack(">f", struct.pack(">f", v))[0] if v == v and abs(v) < 3.5e38 else v for v in g32]
    conv = [0.0, -0.0, 0.5, -0.5, 0.999, -0.999, 1.5, -1.5, 127.0, 127.9, -128.0, -128.9, 255.0, 255.9, 32767.9, -32768.9, 65535.9, 2147483647.0, 2147483647.9, -2147483648.0, -2147483648.9,
            4294967295.0, 4294967295.9, 4294967295.5, 4294967296.0, 4294967296.5, -4294967296.5, 8589934591.25, 8589934592.0, 9007199254740991.0, -9007199254740991.0, 4503599627370495.5,
            9223372036854774784.0, -9223372036854775808.0, 18446744073709549568.0, 1e15, -1e15, 123456789012.75, -123456789012.75]
    for _ in range(n * 4):
        kk = r.choice([1, 2, 3, 5, 1000, 2 ** 20])
        conv.append(kk * 4294967296.0 + r.choice([-0.5, 0.5, -0.25, 0.0, 0.75, -1.0, 1.0]))
        conv.append(-(kk * 4294967296.0) + r.choice([-0.5, 0.5, 0.0]))
        conv.append(r.uniform(-300, 300))
        conv.append(r.uniform(-2 ** 33, 2 ** 33))
        conv.append(r.uniform(-2 ** 62, 2 ** 62))
    ints = [0, 1, -1, 2 ** 53, 2 ** 53 + 1, 2 ** 53 + 3, -(2 ** 53) - 1, 2 ** 63 - 1, -2 ** 63, 2 ** 24 + 1, 2 ** 24 + 3, 2 ** 31, 2 ** 32 - 1, 2 ** 32, 2 ** 62 + 2 ** 8 + 1, 0x7fffffbfffffffff, 0x7fffff4000000001,
            2 ** 54 + 2, 2 ** 54 + 6, -(2 ** 54) - 2]
    for _ in range(n * 4):
        ints.append(r.getrandbits(64) - 2 ** 63)
        ints.append(r.getrandbits(r.choice([25, 33, 54, 55, 60])))
    def src(native):
        alias = "type tInt = int32\ntype tUint = uint32" if native else "type tInt = int\ntype tUint = uint"
        return FLOAT_PROG % dict(alias=alias, g64=", ".join(f64lit(v) for v in g64), g32=", ".join(f32lit(v) for v in g32),
                                 conv=", ".join(f64lit(v) for v in conv), ints=", ".join(str(v) for v in ints))
    impl, nat, err = build_and_run(ctx, "prog_float", src(False), src(True))
    if impl is None:
        if err.startswith("TIMEOUT"):
            ctx.notes.append("float program skipped: " + err)
        else:
            ctx.violation("float-program-build-or-run-failed", err[:300], dict(kind="float-program", log=err), concrete=False)
        return
    def rows(t):
        out = {}
        for line in t.split("\n"):
            m = re.match(r"([A-G]) ([0-9a-f]{8}):(.*)$", line.strip())
            if m:
                out[(m.group(1), int(m.group(2), 16))] = m.group(3).split()
        return out
    ri, rn = rows(impl), rows(nat)
    ncmp = 0
    seen = {}
    NAMES = dict(A="float64 + - * / comparisons, negation, float64->float32", B="float32 + - * / comparisons, fused-looking shapes, float32->float64",
                 C="complex64 * + - ==", D="complex128 * - == !=", E="float -> integer conversions (in range)", F="integer -> float conversions", G="complex operands that are element expressions with a side-effecting index")
    for key in sorted(rn):
        a, b = ri.get(key), rn[key]
        if a is None:
            ctx.violation("float-program-output-missing", "row %r missing" % (key,), dict(kind="float-program"), concrete=False)
            continue
        ncmp += len(b)
        if a != b:
            sec, i = key
            j = next((j for j, (p, q) in enumerate(zip(a, b)) if p != q), min(len(a), len(b)))
            x = dict(A=g64, B=g32, C=g32, D=g64, E=conv, F=ints, G=g64)[sec][i]
            sig = "float-%s-wrong" % dict(A="float64-arith", B="float32-arith", C="complex64", D="complex128", E="to-int-conversion", F="from-int-conversion", G="complex-indexed-operand")[sec]
            if sec == "E" and j < len(b) and b[j][0] in "fg" and x > 0 and x != int(x):
                sig = "float-to-int64-ceil-carry"
            if sec == "F" and j == 0 and j < len(a) and len(a[j]) == 48 and a[j][:16] == b[j][:16] and a[j][24:40] == b[j][24:40]:
                sig = "int64-to-float32-double-rounding"      # float64(v) agrees, float32(v) differs
            seen[sig] = seen.get(sig, 0) + 1
            if seen[sig] <= 2:
                ctx.violation(sig, "%s: operand #%d = %r, item %d: compiled program gives %s, native Go %s" % (NAMES[sec], i, x, j, a[j] if j < len(a) else None, b[j] if j < len(b) else None),
                              dict(kind="float", section=sec, x=repr(x), item=j, impl=a[j] if j < len(a) else None, native=b[j] if j < len(b) else None))
    ctx.evaluations += ncmp
    ctx.cov["float_complex_items_vs_native_go"] = ncmp
    for key in list(rn)[:200]:
        ctx.distinct.add(C.sha("f" + str(key) + "".join(rn[key][:3]))[:16])


# --------------------------------------------------------------------------- driver hooks

def correspond(ctx):
    ctx.cov["probed_variant"] = GEN.get("flags")
    ctx.cov["templates_emitted_and_translated"] = "%d/%d" % (GEN.get("translated", 0), GEN.get("templates", 0))
    ctx.cov["fixNumber_table"] = GEN.get("fix")
    if GEN.get("notes"):
        ctx.cov["generator_notes"] = GEN["notes"][:20]
    helpers(ctx)
    ctx.log("helpers done")
    programs(ctx)
    ctx.log("programs done")
    floats(ctx)
    ctx.log("floats done")


def search(ctx, proof_state):
    # the correspondence already evaluates the property directly (BigInt / native Go) on the grids
    return any(v["concrete"] for v in ctx.violations)


def replay(ctx, data):
    rp = data["replay"]
    if rp.get("kind") == "expr":
        e = tuple_tree(rp["expr"]) if "expr" in rp else None
        k = rp["base"]
        if e is None:
            print(json.dumps(rp, indent=1))
            return 0
        sections = [([e], [rp["x"], rp["y"]], rp.get("prefix", "t"), rp.get("leaf", "plain"))]
        impl, nat, err = build_and_run(ctx, "replay", X.program(k, sections, False), X.program(k, sections, True))
        print("expression:", X.go(e), " x=%d y=%d" % (rp["x"], rp["y"]))
        print("compiled program now (rows over [x, y]):\n" + (impl or err))
        print("native Go:\n" + (nat or ""))
        print("recorded: impl=%s native=%s spec=%s" % (rp.get("impl"), rp.get("native"), rp.get("spec")))
    elif rp.get("kind") == "helper":
        job = dict(id="replay", h=rp["h"], sg=rp["sg"], xs=[rp["x"]], ys=[rp["y"]], raw=True)
        rc, out, err = C.sh2(["node", os.path.join(C.JS, "c06_helpers.js")], inp=json.dumps(dict(repo=C.REPO, jobs=[job])).encode())
        print("helper harness now:", out, err)
        print("recorded:", json.dumps(rp))
    else:
        print(json.dumps(data, indent=1))
    return 0
