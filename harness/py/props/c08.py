"""C08 — panics, deferred calls, recover and run-time errors.
Models: coq/Model/C08_Guards.v (part A: every emitted guard over Z next to the spec predicate),
        coq/Model/C08_Panic.v  (part B: SpecPanic = Go-specification machine, ImplPanic = transliteration of
        $callDeferred/$panic/$recover + the try/catch/finally skeleton).  Theorems: coq/Props/C08.v.

Correspondence (all against /repo's current tree):
 A1  the REAL prelude guards ($subslice, $substring, $makeSlice, $Chan, $sliceToGoArray, $close, $send) called in node
     with stub operands on a boundary grid (incl. 2^31-1, 2^31) -> vs the from-scratch spec predicate, vs the Coq model;
 A2  one table-driven Go program (index / slice / string-slice / make / division for every integer kind / slice->array
     pointer / nil map store), compiled with the real compiler, run under node AND under native Go ->
     vs spec predicate (32-bit int), vs native Go, vs the Coq model;
 A3  a fixed program running every panicking operation of the property's list under recover: recovered, error,
     runtime.Error, message prefix, explicit panic values unchanged; and a fixed evaluation-order program vs native Go;
 B   defer programs generated from the model AST, printed as Go, compiled, run under node and natively;
     observable = trace lines, recovered values (class of run-time error), returned values, final status ->
     real vs ImplPanic (must always agree), native Go vs SpecPanic (must always agree), real vs native Go
     (the property itself; disagreements are concrete violations).
"""
import json, os, re, sys
import common as C
import c08_gen as G
import c08_guardprog as GP

ID = "C08"
PROPS_FILE = "Props/C08.v"
MODEL_TARGETS = ["Corr/C08_Eval.v"]
ALLOWED_AXIOMS = []
RULE = ("A: deterministic boundary grid (-1,0,len-1,len,cap,cap+1,2^31-1,2^31,2^32,2^53 around every operand of every guard, every "
        "integer kind for / and %) + seeded random fill; non-trivial = operand within 1 of a boundary; distinct by (op, operands). "
        "B: defer programs from the model AST (1-5 functions, closures nested <= 6, <= 4 defers per frame, recover at call depth 0/1/2 "
        "below the deferred function, re-panic, panic inside deferred functions, named results, Goexit, run in a non-main goroutine, "
        "13 run-time error kinds, statements that REALLY suspend the goroutine in bodies and deferred calls), three code-generation flavours (non-blocking, blocking helper, all functions blocking); "
        "non-trivial = at least one panic and one defer; distinct by (program, flavour)")
TRUSTED = ["hand-written models coq/Model/C08_Guards.v, coq/Model/C08_Guards2.v (phase 4: nil map store/read, nil struct pointer, $assertType) and coq/Model/C08_Panic.v, tied by this correspondence",
           "phase 4: $assertType is driven on the real prelude with a stand-in for runtime.TypeAssertionError (the runtime package is not loaded); interface targets cover {}, {M}, {M,N} over five dynamic types; memoisation of implementedBy is C09's subject",
           "the JS call depth is modelled by an explicit frame counter; the real measurement (new Error().stack line count) is not modelled",
           "IEEE division of two integers below 2^32 truncated by >>0 equals Z.quot (value part of the QUO guard; exactness is C06's subject)",
           "blocking/resuming paths of $callDeferred ($curGoroutine.asleep, r.$blk) are not modelled in ImplPanic: a statement that really suspends is a no-op in both models, so the real suspension paths are checked differentially only (against native Go and against the models); foreign JavaScript exceptions are not modelled",
           "harness/js/c08_guards.js stub operands; harness/py/c08_gen.py Go printer and trace parser; native Go 1.23 as reference for the spec side"]
ASSUMPTIONS = ["phase 4 part B theorems (stack-shape invariant, defer_lifo_exactly_once, run_ends_clean) hold for variants with v_pushback_asleep_only = true (the current code; probed from goroutines.js on every run) and for the non-suspending machine only",
               "integer conversions of out-of-range constants have no run-time guard (rejected by go/types)",
               "guard operands are integers produced by the compiler's %f formatting; comparisons are exact below 2^53 and order-preserving above",
               "constant indices into arrays are range-checked by go/types at compile time (no guard is emitted)",
               "run-time error message texts are compared by prefix only",
               "int8/int16 MinInt / -1 is excluded from the division grid (value defect F8 belongs to C06)"]

MAXINT = 2147483647
GOEXIT_RETHROW = False

INFRA_PAT = re.compile(r"\[timeout after|no space left on device|signal: killed|cannot allocate memory|resource temporarily unavailable|"
                       r"fork/exec|text file busy|too many open files|out of memory", re.I)


def infra(rc, *texts):
    """does this process result look like an infrastructure failure (timeout, disk, memory)?  Such cases are
    skipped with a note, never reported."""
    return rc == 124 or any(t and INFRA_PAT.search(t) for t in texts)


def note_skip(ctx, what):
    ctx.notes.append("skipped (infrastructure): " + what[:200])
    ctx.cov["skipped_infrastructure"] = ctx.cov.get("skipped_infrastructure", 0) + 1




def prepare(ctx):
    ctx.c08_skip = False
    try:
        C.ensure_gopherjs()
    except C.BuildError as e:
        if INFRA_PAT.search(str(e)):
            ctx.notes.append("skipped (infrastructure): building gopherjs failed: " + str(e)[-200:])
            ctx.c08_skip = True
        else:
            raise
    gen_consts(ctx)


# ---------------------------------------------------------------- regenerated constants

def gen_consts(ctx):
    """constants the theorems mention, re-extracted from the prelude source on every run"""
    pre = os.path.join(C.REPO, "compiler", "prelude")
    types_js = open(os.path.join(pre, "types.js")).read()
    gor = open(os.path.join(pre, "goroutines.js")).read()
    expr = open(os.path.join(C.REPO, "compiler", "expressions.go")).read()

    def grab(rx, txt, what):
        m = re.search(rx, txt, re.S)
        if not m:
            raise C.BuildError("C08: cannot extract %s from the source (shape changed) — theorems no longer tied" % what)
        return int(m.group(1))
    mslen = grab(r"\$makeSlice = .*?length < 0 \|\| length > (\d+)", types_js, "$makeSlice len bound")
    mscap = grab(r"\$makeSlice = .*?capacity < length \|\| capacity > (\d+)", types_js, "$makeSlice cap bound")
    mchan = grab(r"\$Chan = function.*?capacity < 0 \|\| capacity > (\d+)", types_js, "$Chan bound")
    mmap = grab(r"%1f < 0 \|\| %1f > (\d+)\) \? \$throwRuntimeError\(\"makemap", expr, "makemap bound")
    rdelta = grab(r"\$panicStackDepth !== \$getStackDepth\(\) - (\d+)", gor, "$recover depth delta")
    # probes for repaired shapes of two recorded findings (select the model variant)
    prel = open(os.path.join(pre, "prelude.js")).read()
    msub = re.search(r"var \$substring = .*?\n};", prel, re.S)
    sub_fixed = bool(msub and re.search(r"high === undefined", msub.group(0)))
    stridx_fixed = bool(re.search(r"rangeCheck\([^\n]*charCodeAt", expr))
    # probe: the repair of goexit-swallowed-by-deferring-frame ($curGoroutine.exitFrames) selects the ImplPanic variant
    global GOEXIT_RETHROW
    GOEXIT_RETHROW = "exitFrames" in gor
    # probe: repair of replaced-panic-resurrected-after-recover (re-queue a panic only when going to sleep)
    mcd = re.search(r"var \$callDeferred = .*?\n};", gor, re.S)
    pushback_fixed = bool(mcd and re.search(r"\$panicStackDepth !== null\s*&&\s*\$curGoroutine\.asleep", mcd.group(0)))
    # probe: repair of panic-during-goexit-swallowed (the catch clause of $goroutine re-throws non-null exceptions)
    mgo = re.search(r"var \$go = .*?\n};", gor, re.S)
    swallow_fixed = bool(mgo and re.search(r"catch \(err\) \{[^}]*err [!=]== null", mgo.group(0), re.S))
    txt = ("(* generated by harness/py/props/c08.py from compiler/prelude/{types,goroutines}.js and compiler/expressions.go — do not edit *)\n"
           "From Coq Require Import ZArith.\nLocal Open Scope Z_scope.\n"
           "Definition gen_makeslice_len_max : Z := %d.\nDefinition gen_makeslice_cap_max : Z := %d.\n"
           "Definition gen_makechan_max : Z := %d.\nDefinition gen_makemap_max : Z := %d.\n"
           "Definition gen_recover_delta : Z := %d.\nDefinition gen_goexit_rethrow : bool := %s.\n"
           "Definition gen_substring_defaults_high : bool := %s.\nDefinition gen_string_index_checked : bool := %s.\n"
           "Definition gen_pushback_asleep_only : bool := %s.\nDefinition gen_exit_swallows_null_only : bool := %s.\n"
           % (mslen, mscap, mchan, mmap, rdelta, "true" if GOEXIT_RETHROW else "false",
              "true" if sub_fixed else "false", "true" if stridx_fixed else "false",
              "true" if pushback_fixed else "false", "true" if swallow_fixed else "false"))
    C.write_if_changed(os.path.join(C.COQ, "Gen", "C08_Consts.v"), txt)


# ---------------------------------------------------------------- Coq evaluation helper

def coq_eval(ctx, name, header, defs):
    """defs: list of (ident, term).  Returns {ident: [ints]} or raises."""
    p = os.path.join(ctx.work, name + ".v")
    with open(p, "w") as f:
        f.write("From Coq Require Import List ZArith NArith.\nFrom Verif Require Import Model.C08_Guards Model.C08_Panic Corr.C08_Eval.\n"
                "Import ListNotations.\nLocal Open Scope Z_scope.\n")
        f.write(header)
        for ident, term in defs:
            f.write("Definition %s := Eval vm_compute in %s.\nPrint %s.\n" % (ident, term, ident))
    rc, out = C.coq_run(p)
    flat = out.replace("\n", " ")
    res = {}
    for ident, _ in defs:
        m = re.search(r"\b%s\s*=\s*(\[[^\]]*\])" % ident, flat)
        if rc != 0 or not m:
            return None, out[-1500:]
        res[ident] = [int(x) for x in re.findall(r"\d+", m.group(1).replace("%N", ""))]
    return res, ""


def zl(xs):
    return "[" + "; ".join("(%d)" % x for x in xs) + "]"


def near_boundary(c):
    vals = [v for v in c[1:] if isinstance(v, int)]
    for v in vals:
        for w in vals + [0, MAXINT]:
            if v is not w and abs(v - w) <= 1:
                return True
    return False


# ---------------------------------------------------------------- A1: prelude guards through stubs

def a1_cases(r, quick):
    cs = []
    B = [-1, 0, 1, MAXINT - 1, MAXINT, MAXINT + 1, 1 << 32, 1 << 53]
    shapes = [(0, 0, 0), (0, 2, 5), (3, 2, 5), (1, 4, 4), (0, MAXINT, MAXINT), (5, MAXINT - 5, MAXINT), (0, 0, MAXINT)]
    for (off, n, cp) in shapes:
        pts = sorted(set([-1, 0, 1, n - 1, n, n + 1, cp - 1, cp, cp + 1, MAXINT, MAXINT + 1]))
        for lo in pts:
            cs.append(("subslice", [off, n, cp, lo, 0, 0, 0, 0]))
            for hi in pts:
                cs.append(("subslice", [off, n, cp, lo, 1, hi, 0, 0]))
                for mx in (pts if not quick else r.sample(pts, 3)):
                    cs.append(("subslice", [off, n, cp, lo, 1, hi, 1, mx]))
    for n in [0, 1, 4, 9]:
        pts = sorted(set([-1, 0, 1, n - 1, n, n + 1, n + 5, MAXINT, MAXINT + 1]))
        for lo in pts:
            cs.append(("substring", [n, lo, 0, 0]))
            for hi in pts:
                cs.append(("substring", [n, lo, 1, hi]))
    for n in [MAXINT, 1 << 29]:
        pts = sorted(set([-1, 0, 1, n - 1, n, n + 1, MAXINT, MAXINT + 1]))
        for lo in pts:
            for hi in pts:
                cs.append(("substring_fake", [n, lo, 1, hi]))
    for a in B + [7]:
        cs.append(("makeslice", [a, 0, 0]))
        cs.append(("makechan", [a]))
        for b in B + [7, 8]:
            cs.append(("makeslice", [a, 1, b]))
    for sl in range(0, 7):
        for al in range(0, 7):
            cs.append(("slice2arr", [sl, al]))
    cs += [("close_nil", []), ("close_closed", []), ("send_closed", [])]
    return cs


def a1_spec(op, a):
    if op == "subslice":
        off, n, cp, lo, hp, hi, mp, mx = a
        hi = hi if hp else n
        mx = mx if mp else cp
        return [off + lo, hi - lo, mx - lo] if 0 <= lo <= hi <= mx <= cp else "panic"
    if op in ("substring", "substring_fake"):
        n, lo, hp, hi = a
        hi = hi if hp else n
        if not (0 <= lo <= hi <= n):
            return "panic"
        return [0, 0] if hi == lo else [lo, hi - lo]
    if op == "makeslice":
        n, cp, c = a
        c = c if cp else n
        return [0, n, c] if 0 <= n <= c <= MAXINT else "panic"
    if op == "makechan":
        return [a[0]] if 0 <= a[0] <= MAXINT else "panic"
    if op == "slice2arr":
        return [a[1]] if a[1] <= a[0] else "panic"
    return "panic"       # close_nil, close_closed, send_closed


A1_COQ_OP = {"subslice": 2, "substring": 3, "substring_fake": 3, "makeslice": 4, "makechan": 5, "slice2arr": 9}
A1_MSG = {"subslice": "slice bounds out of range", "substring": "slice bounds out of range", "substring_fake": "slice bounds out of range",
          "makeslice": "makeslice:", "makechan": "makechan: size out of range", "slice2arr": "cannot convert slice with length",
          "close_nil": "close of nil channel", "close_closed": "close of closed channel", "send_closed": "send on closed channel"}


def guards_stub(ctx):
    r = ctx.rng("a1")
    cases = a1_cases(r, ctx.quick)
    rc, out, err = C.sh2(["node", os.path.join(C.JS, "c08_guards.js"), C.REPO], inp=json.dumps([dict(op=o, a=a) for o, a in cases]).encode(), timeout=300)
    if rc != 0:
        if infra(rc, err):
            return note_skip(ctx, "c08_guards.js: rc=%s %s" % (rc, err[-150:]))
        raise C.BuildError("c08_guards.js failed: " + err[-600:])
    results = json.loads(out)
    gcases, idxmap = [], []
    nthrow = 0
    for i, ((op, a), res) in enumerate(zip(cases, results)):
        ctx.count(["a1", op, a], nontrivial=near_boundary([op] + a))
        want = a1_spec(op, a)
        got = "panic" if "throw" in res else (res.get("ok") if "ok" in res else "jserr:" + res.get("jserr", "?"))
        nthrow += got == "panic"
        if got != want:
            if op == "close_nil":
                sig, what = "close-nil-chan-no-panic", "close of a nil channel does not panic ($close has no nil check)"
            elif op == "substring" and not a[2] and a[1] > a[0] and got != "panic":
                sig, what = "string-slice-low-beyond-len-no-panic", "$substring(str, low) with low > len(str) returns \"\" instead of panicking"
            else:
                sig = "guard-%s-%s" % (op, "missing-panic" if want == "panic" else ("spurious-panic" if got == "panic" else "wrong-value"))
                what = "%s%r: real prelude gives %r, the Go specification requires %r" % (op, a, got, want)
            ctx.violation(sig, what, dict(kind="a1", op=op, args=a, impl=got, spec=want))
        elif got == "panic" and not res["throw"].startswith(A1_MSG[op]):
            ctx.violation("guard-%s-wrong-message" % op, "%s%r panics with %r" % (op, a, res["throw"]), dict(kind="a1", op=op, args=a, impl=res))
        if op in A1_COQ_OP and not str(got).startswith("jserr"):
            gcases.append("{| g_op := %d; g_args := %s; g_expect := %s |}" % (A1_COQ_OP[op], zl(a), "GThrow" if got == "panic" else "GOk " + zl(got)))
            idxmap.append(i)
    res, log = coq_eval(ctx, "a1", "Definition cases : list gcase := [\n" + ";\n".join(gcases) + "].\n", [("M", "gmismatches cases")])
    if res is None:
        if infra(None, log):
            note_skip(ctx, "Coq evaluation (A1): " + log[-120:])
        else:
            ctx.violation("model-eval-failed", "Coq evaluation of the guard model failed", dict(log=log), concrete=False)
    else:
        for k in res["M"]:
            op, a = cases[idxmap[k]]
            ctx.violation("guard-model-mismatch", "Coq guard model and the real prelude disagree on %s%r" % (op, a),
                          dict(kind="a1", op=op, args=a, impl=results[idxmap[k]]), concrete=False)
    ctx.cov["a1_stub_cases"] = len(cases)
    ctx.cov["a1_stub_panics"] = nthrow
    ctx.sample(dict(kind="a1", op=cases[5][0], args=cases[5][1], impl=results[5]))



# ---------------------------------------------------------------- A4 (phase 4): guards on the shape of a value

A4_COQ_OP = {"map_store": 11, "map_read": 12, "ptr_get": 13, "ptr_set": 14, "assert": 15}
A4_MSG = {"map_store": "assignment to entry in nil map", "ptr_get": "invalid memory address or nil pointer dereference",
          "ptr_set": "invalid memory address or nil pointer dereference", "assert": "TAE:"}
A4_VALUE_METHODS = [[], [], [], [], [100]]            # method identities of the palette's dynamic types (c08_guards.js assertPalette)
A4_IFACE_METHODS = [[], [100], [100, 101]]            # {} / {M} / {M, N}
A4_METHOD_NAME = {100: "M", 101: "N"}


def a4_emitted_code():
    """the JavaScript the compiler emits for a map store / map read, instantiated from the format strings in the source"""
    st = open(os.path.join(C.REPO, "compiler", "statements.go")).read()
    ex = open(os.path.join(C.REPO, "compiler", "expressions.go")).read()
    m = re.search(r"`([^`]*assignment to entry in nil map[^`]*)`", st)
    if not m or m.group(1).count("%s") != 7:
        raise C.BuildError("C08: cannot extract the nil-map store statement from statements.go (shape changed) — theorems no longer tied")
    store = m.group(1) % ("_key", "k", "m", "$Int", "_key", "_key", "v")
    forms = re.findall(r"`(\(%1s = \$mapIndex\([^`]*)`", ex)
    tup = [f for f in forms if "true]" in f]
    pla = [f for f in forms if "true]" not in f]
    if len(tup) != 1 or len(pla) != 1:
        raise C.BuildError("C08: cannot extract the $mapIndex read expressions from expressions.go (shape changed) — theorems no longer tied")

    def inst(f):
        return f.replace("%1s", "_entry").replace("%2e", "m").replace("%3s", "$Int.keyFor(k)").replace("%4e", "0")
    return ("(function(m, k, v) { var _key; %s return m; })" % store,
            "(function(m, k) { var _entry; return [%s, %s]; })" % (inst(pla[0]), inst(tup[0])))


def a4_cases(r, quick):
    cs = []
    maps = [[], [1, 5], [1, 5, 2, 6, 3, 7]]
    for isnil in (0, 1):
        for l in (maps if not isnil else [[]]):
            for k in [-1, 0, 1, 2, 3, 4, MAXINT]:
                cs.append(("map_read", [isnil, k] + l))
                for v in (0, 9):
                    cs.append(("map_store", [isnil, k, v] + l))
    for n in range(1, 5):
        fs = [10, 11, 12, 13][:n]
        for isnil in (0, 1):
            for i in range(0, n + 1):
                cs.append(("ptr_get", [isnil, n, i] + (fs if not isnil else [])))
                if i < n:
                    cs.append(("ptr_set", [isnil, n, i, 99] + (fs if not isnil else [])))
    for tup in (0, 1):
        for tkind, nt in ((0, 5), (1, 3)):
            for tt in range(nt):
                ims = A4_IFACE_METHODS[tt] if tkind else []
                cs.append(("assert", [tup, 1, 0, 0, tkind, tt, 0] + ims))
                for vt in range(5):
                    for pl in ((7, 0) if not quick else (r.choice([7, 0, 3]),)):
                        vms = A4_VALUE_METHODS[vt]
                        cs.append(("assert", [tup, 0, vt, pl, tkind, tt, len(vms)] + vms + ims))
    return cs


def a4_spec(op, a):
    """the Go specification, written independently of the Coq model -> (expected result, expected message suffix or None)"""
    if op == "map_store":
        if a[0]:
            return "panic", None
        d = {}
        for j in range(3, len(a) - 1, 2):
            d[a[j]] = a[j + 1]
        d[a[1]] = a[2]                     # dict keeps insertion order, like Map
        return [x for kv in d.items() for x in kv], None
    if op == "map_read":
        d = {} if a[0] else {a[j]: a[j + 1] for j in range(2, len(a) - 1, 2)}
        return ([d[a[1]], 1] if a[1] in d else [0, 0]), None
    if op == "ptr_get":
        if a[2] >= a[1]:
            return [], None                # no such field: not expressible in Go; only model vs real is compared
        return ("panic" if a[0] else [a[3 + a[2]]]), None
    if op == "ptr_set":
        if a[0]:
            return "panic", None
        fs = list(a[4:])
        fs[a[2]] = a[3]
        return fs, None
    if op == "assert":
        tup, vnil, vt, pl, tkind, tt, nvm = a[:7]
        vms, ims = a[7:7 + nvm], a[7 + nvm:]
        holds = (not vnil) and ((vt == tt) if not tkind else all(m_ in vms for m_ in ims))
        if holds:
            return ([pl, 1] if tup else [pl]), None
        missing = ""
        if tkind and not vnil:
            missing = A4_METHOD_NAME[[m_ for m_ in ims if m_ not in vms][0]]
        return ([0, 0] if tup else "panic"), missing
    raise ValueError(op)


def guards_shape(ctx):
    r = ctx.rng("a4")
    store_code, read_code = a4_emitted_code()
    cases = [("map_zero", [])] + a4_cases(r, ctx.quick)
    code = {"map_store": store_code, "map_read": read_code}
    rc, out, err = C.sh2(["node", os.path.join(C.JS, "c08_guards.js"), C.REPO],
                         inp=json.dumps([dict(op=o, a=a, code=code.get(o)) for o, a in cases]).encode(), timeout=300)
    if rc != 0:
        if infra(rc, err):
            return note_skip(ctx, "c08_guards.js (A4): rc=%s %s" % (rc, err[-150:]))
        raise C.BuildError("c08_guards.js failed (A4): " + err[-600:])
    results = json.loads(out)
    gcases, idxmap, nthrow = [], [], 0
    for i, ((op, a), res) in enumerate(zip(cases, results)):
        got = "panic" if "throw" in res else (res.get("ok") if "ok" in res else "jserr:" + res.get("jserr", "?"))
        if op == "map_zero":
            if got != [1]:
                ctx.violation("nil-map-value-is-not-false", "the zero value of a map type is no longer `false`: the emitted `(m || throw)` guard is not tied to the model any more",
                              dict(kind="a4", op=op, impl=got), concrete=False)
            continue
        ctx.count(["a4", op, a], nontrivial=(op != "assert" and bool(a[0])) or (op == "assert" and (bool(a[1]) or a[2] == a[5] or bool(a[4]))))
        want, missing = a4_spec(op, a)
        nthrow += got == "panic"
        rep = dict(kind="a4", op=op, args=a, impl=got, spec=want, emitted=code.get(op))
        if got != want:
            sig = "guard-%s-%s" % (op.replace("_", "-"), "missing-panic" if want == "panic" else ("spurious-panic" if got == "panic" else "wrong-value"))
            ctx.violation(sig, "%s%r: the real runtime gives %r, the Go specification requires %r" % (op, a, got, want), rep)
        elif got == "panic" and not res["throw"].startswith(A4_MSG[op]):
            ctx.violation("guard-%s-wrong-message" % op.replace("_", "-"), "%s%r panics with %r" % (op, a, res["throw"]), rep)
        elif got == "panic" and op == "assert" and res["throw"] != "TAE:" + missing:
            ctx.violation("type-assertion-error-names-wrong-missing-method", "assert%r: TypeAssertionError names missing method %r, expected %r" % (a, res["throw"][4:], missing), rep)
        if not str(got).startswith("jserr"):
            gcases.append("{| g_op := %d; g_args := %s; g_expect := %s |}" % (A4_COQ_OP[op], zl(a), "GThrow" if got == "panic" else "GOk " + zl(got)))
            idxmap.append(i)
    res, log = coq_eval(ctx, "a4", "Definition cases : list gcase := [\n" + ";\n".join(gcases) + "].\n", [("M", "gmismatches2 cases")])
    if res is None:
        if infra(None, log):
            note_skip(ctx, "Coq evaluation (A4): " + log[-120:])
        else:
            ctx.violation("model-eval-failed", "Coq evaluation of the shape-guard model failed", dict(log=log), concrete=False)
    else:
        for k in res["M"]:
            op, a = cases[idxmap[k]]
            ctx.violation("guard-model-mismatch", "Coq guard model (C08_Guards2) and the real runtime disagree on %s%r" % (op, a),
                          dict(kind="a4", op=op, args=a, impl=results[idxmap[k]]), concrete=False)
    ctx.cov["a4_shape_guard_cases"] = len(cases) - 1
    ctx.cov["a4_shape_guard_panics"] = nthrow


# ---------------------------------------------------------------- A2: table-driven program

def parse_guard_output(text, n):
    res = [None] * n
    for line in text.split("\n"):
        w = line.split()
        if len(w) >= 2 and w[0].isdigit() and int(w[0]) < n:
            i = int(w[0])
            if w[1] == "ok64":
                try:
                    hi, mid, lo = (int(x) for x in w[2:5])
                    res[i] = (hi * (1 << 32) + (mid << 16) + lo,)
                except ValueError:
                    res[i] = ("garbage",) + tuple(w[2:])
            elif w[1] == "ok":
                try:
                    res[i] = tuple(int(x) for x in w[2:])
                except ValueError:
                    res[i] = ("garbage",) + tuple(w[2:])
            elif w[1] == "panic":
                res[i] = "panic" if w[2:] == ["true", "true"] else "panic-not-runtime-error"
    return res


def a2_signature(c, got, want):
    op = c[0]
    name = GP.OPS[op][1]
    if name == "idx-string-int" and want == "panic":
        return "string-index-out-of-range-no-panic", "s[i] with i outside [0,len(s)) does not panic (charCodeAt without range check)"
    if name == "str-l" and want == "panic" and c[3] > c[1]:
        return "string-slice-low-beyond-len-no-panic", "s[low:] with low > len(s) yields \"\" instead of panicking"
    kind = "missing-panic" if want == "panic" else ("spurious-panic" if got == "panic" else ("not-runtime-error" if got == "panic-not-runtime-error" else "wrong-value"))
    return "guard-%s-%s" % (name, kind), "%s operands %r: compiled program gives %r, the Go specification requires %r" % (name, c[1:], got, want)


def guards_program(ctx):
    r = ctx.rng("a2")
    cases = GP.grid(r, ctx.quick)
    d = os.path.join(ctx.work, "guards")
    src = GP.guard_program(cases)
    C.write_go_program(d, {"main.go": src}, module="verifc08")
    rc, log = C.gopherjs_build(d, timeout=600)
    if rc != 0:
        if infra(rc, log):
            return note_skip(ctx, "guard program build: " + log[-150:])
        ctx.violation("guard-program-build-failed", "gopherjs build failed on the guard program", dict(log=log[-1500:]), concrete=False)
        return
    rc, out, err = C.run_node(os.path.join(d, "out.js"), cwd=d, timeout=300)
    if infra(rc, err):
        return note_skip(ctx, "guard program run: rc=%s %s" % (rc, err[-150:]))
    real = parse_guard_output(out, len(cases))
    if "end" not in out.split("\n")[-3:]:
        ctx.violation("guard-program-died", "the compiled guard program did not run to its end", dict(stderr=err[-800:], rc=rc), concrete=False)
    # native Go on the subset that means the same with a 64-bit int
    nat_idx = [i for i, c in enumerate(cases) if GP.native_ok(c)]
    dn = os.path.join(ctx.work, "guards_native")
    C.write_go_program(dn, {"main.go": GP.guard_program([cases[i] for i in nat_idx])}, module="verifc08")
    rc2, out2, err2 = C.sh2(["go", "run", "."], cwd=dn, env=C.goenv(), timeout=600)
    if infra(rc2, err2) or "end" not in err2:
        note_skip(ctx, "native run of the guard program: rc=%s %s" % (rc2, err2[-150:]))
        nat_idx = []
    native = dict(zip(nat_idx, parse_guard_output(err2, len(nat_idx))))
    gcases, idxmap = [], []
    dist = {}
    for i, c in enumerate(cases):
        ctx.count(["a2"] + c, nontrivial=near_boundary(c))
        want = GP.spec(c)
        got = real[i]
        name = GP.OPS[c[0]][1]
        dist[name] = dist.get(name, 0) + 1
        if i in native and native[i] != want:
            ctx.violation("spec-predicate-vs-native-go", "the check's own specification predicate disagrees with native Go on %s %r: %r vs %r" % (name, c[1:], want, native[i]),
                          dict(kind="a2", case=c, spec=want, native=native[i]), concrete=False)
        if got != want:
            sig, what = a2_signature(c, got, want)
            ctx.violation(sig, what, dict(kind="a2", case=c, op=name, impl=got, spec=want, native=native.get(i)))
        if got is not None and got != "panic-not-runtime-error" and not (isinstance(got, tuple) and got and got[0] == "garbage"):
            cc = GP.coq_case(c, got)
            if cc:
                gcases.append("{| g_op := %d; g_args := %s; g_expect := %s |}" % (cc[0], zl(cc[1]), cc[2]))
                idxmap.append(i)
    shard = 1500
    shards = [(k, gcases[k:k + shard]) for k in range(0, len(gcases), shard)]

    def run_shard(s):
        k, cs = s
        return k, coq_eval(ctx, "a2_%d" % k, "Definition cases : list gcase := [\n" + ";\n".join(cs) + "].\n", [("M", "gmismatches cases")])
    for k, (res, log) in C.parallel_map(run_shard, shards):
        if res is None:
            if infra(None, log):
                note_skip(ctx, "Coq evaluation (A2): " + log[-120:])
            else:
                ctx.violation("model-eval-failed", "Coq evaluation of the guard model failed", dict(log=log), concrete=False)
            continue
        for j in res["M"]:
            i = idxmap[k + j]
            ctx.violation("guard-model-mismatch", "Coq guard model and the compiled program disagree on %s %r (observed %r)" % (GP.OPS[cases[i][0]][1], cases[i][1:], real[i]),
                          dict(kind="a2", case=cases[i], impl=real[i]), concrete=False)
    ctx.cov["a2_program_cases"] = len(cases)
    ctx.cov["a2_native_go_cases"] = len(nat_idx)
    ctx.cov["a2_model_cases"] = len(gcases)
    ctx.cov["a2_distribution"] = dist
    ctx.sample(dict(kind="a2", case=cases[40], impl=real[40], spec=GP.spec(cases[40])))


# ---------------------------------------------------------------- A3: palette + evaluation order

def native_env():
    """a dying goroutine must not be overtaken by main (it signals `done` from a deferred call before the runtime prints the
    panic and exits): one P and no asynchronous preemption make the native reference deterministic"""
    e = C.goenv()
    e.update(GOMAXPROCS="1", GODEBUG="asyncpreemptoff=1")
    return e


def build_and_run_both(ctx, name, src):
    """-> (results, "") | (None, reason) | ("skip", reason)"""
    d = os.path.join(ctx.work, name)
    C.write_go_program(d, {"main.go": src}, module="verifc08")
    rc, log = C.gopherjs_build(d, timeout=600)
    if rc != 0:
        return ("skip" if infra(rc, log) else None), "gopherjs build failed: " + log[-800:]
    rc, out, err = C.run_node(os.path.join(d, "out.js"), cwd=d, timeout=300)
    rc2, out2, err2 = C.sh2(["go", "run", "."], cwd=d, env=C.goenv(), timeout=600)
    if infra(rc, err) or infra(rc2, err2) or "end" not in err2:
        return "skip", "run failed: rc=%s rc_go=%s %s" % (rc, rc2, (err + err2)[-200:])
    return (rc, out, err, rc2, out2, err2), ""


def palette(ctx):
    res, why = build_and_run_both(ctx, "palette", G.PALETTE_PROGRAM)
    if res == "skip":
        return note_skip(ctx, "palette program: " + why)
    if res is None:
        ctx.violation("palette-build-failed", why, dict(log=why), concrete=False)
        return
    rc, out, err, rc2, out2, err2 = res

    def table(text):
        t = {}
        for line in text.split("\n"):
            w = line.split(" ")
            if len(w) >= 2:
                t[w[0]] = w[1:]
        return t
    js, go = table(out), table(err2)
    n = 0
    for name, prefix in G.PALETTE_EXPECT.items():
        n += 1
        ctx.count(["palette", name])
        for who, t in (("go", go), ("gopherjs", js)):
            row = t.get(name)
            ok = bool(row) and row[0] == "panic" and row[1:4] == ["true", "true", "true"]
            msg = " ".join(row[4:]) if row and len(row) > 4 else ""
            msg = msg[len("runtime error: "):] if msg.startswith("runtime error: ") else msg
            ok = ok and msg.startswith(prefix)
            if ok:
                continue
            if who == "go":
                ctx.violation("palette-expectation-vs-native-go", "native Go does not behave as the check expects for %s: %r" % (name, row), dict(name=name, row=row), concrete=False)
                continue
            if name == "close-nil":
                sig, what = "close-nil-chan-no-panic", "close of a nil channel does not panic ($close has no nil check)"
            elif name == "index-string":
                sig, what = "string-index-out-of-range-no-panic", "s[i] with i outside [0,len(s)) does not panic (charCodeAt without range check)"
            elif name == "compare-array-of-blank-struct":
                sig, what = ("uncomparable-array-of-named-struct-compares-no-panic",
                             "== on interface values holding an array whose element type is a NAMED uncomparable struct does not panic: $arrayType copies "
                             "elem.comparable when the array type is created, before the struct type's init() has cleared its comparable flag")
            elif name == "nilptr-array-index":
                sig, what = "nil-array-pointer-index-read-no-panic", "p[i] with p a nil *[N]T yields undefined instead of a nil-dereference panic"
            else:
                sig = "palette-%s-%s" % (name, "no-panic" if (row and row[0] == "no-panic") else "not-a-recoverable-runtime-error")
                what = "%s: compiled program prints %r; required: recoverable panic implementing error and runtime.Error with message prefix %r" % (name, row, prefix)
            ctx.violation(sig, what, dict(kind="palette", name=name, impl=row, native=go.get(name), source="c08_gen.PALETTE_PROGRAM"))
    for name, want in G.PALETTE_ADDR.items():
        ctx.count(["palette", name])
        exp = ["value", "true"] if want == "value" else ["panic", "true", "true", "true"]
        grow = go.get(name) or []
        if grow[:len(exp)] != exp:
            ctx.violation("palette-expectation-vs-native-go", "native Go: %s -> %r" % (name, grow), dict(name=name), concrete=False)
        row = js.get(name) or []
        msg = " ".join(row[4:])
        if row[:len(exp)] == exp and (want == "value" or msg.replace("runtime error: ", "").startswith("index out of range")):
            continue
        if want == "panic":
            sig, what = "addr-of-element-no-range-check", "&s[i] / &arr[i] with i out of range does not panic (bare $indexPtr without rangeCheck)"
        elif "64" in name:
            sig, what = "addr-of-element-64bit-index-not-flattened", "&a[k] with a 64-bit index in range does not address element k (the $Int64/$Uint64 object is passed to $indexPtr)"
        else:
            sig, what = "addr-of-element-wrong-" + name, "&a[i] in range: %r" % (row,)
        ctx.violation(sig, what + " [%s: %r]" % (name, row), dict(kind="palette", name=name, impl=row, native=grow, source="c08_gen.PALETTE_PROGRAM"))
    for name in G.PALETTE_VALUES:
        ctx.count(["palette", name])
        if go.get(name) != ["value-unchanged", "true"]:
            ctx.violation("palette-expectation-vs-native-go", "native Go: %s -> %r" % (name, go.get(name)), dict(name=name), concrete=False)
        if js.get(name) != ["value-unchanged", "true"]:
            ctx.violation("explicit-panic-value-changed-" + name, "recover() does not return the value given to panic unchanged (%s): %r" % (name, js.get(name)),
                          dict(kind="palette", name=name, impl=js.get(name)))
    ctx.cov["palette_operations"] = n + len(G.PALETTE_VALUES) + len(G.PALETTE_ADDR)


def order(ctx):
    res, why = build_and_run_both(ctx, "order", G.ORDER_PROGRAM)
    if res == "skip":
        return note_skip(ctx, "order program: " + why)
    if res is None:
        ctx.violation("order-build-failed", why, dict(log=why), concrete=False)
        return
    rc, out, err, rc2, out2, err2 = res

    def blocks(text):
        b, cur = {}, None
        for line in text.split("\n"):
            m = re.match(r"(\S+) begin$", line)
            if m:
                cur = m.group(1)
                b[cur] = []
            elif cur and line.strip():
                b[cur].append(line)
        return b
    js, go = blocks(out), blocks(err2)
    for name, want in go.items():
        ctx.count(["order", name])
        got = js.get(name)
        if got != want:
            if name in ("index-store", "nilmap-store"):
                sig = "store-panics-before-rhs-evaluated"
                what = "a[i] = f() / m[k] = f() with a failing store: the panic is raised before the right-hand side is evaluated (Go evaluates it first)"
            else:
                sig, what = "evaluation-order-" + name, "scenario %s: compiled program prints %r, native Go %r" % (name, got, want)
            ctx.violation(sig, what, dict(kind="order", name=name, impl=got, native=want, source="c08_gen.ORDER_PROGRAM"))
    ctx.cov["order_scenarios"] = len(go)
    if len(go) < 10:
        ctx.violation("order-program-native-run-failed", "native Go run of the order program produced %d scenarios" % len(go), dict(stderr=err2[-500:]), concrete=False)


# ---------------------------------------------------------------- B: defer programs

FLAVOURS = [dict(name="nonblocking", msg=False, force_blocking=False), dict(name="blocking-rec", msg=True, force_blocking=False),
            dict(name="all-blocking", msg=True, force_blocking=True)]

# hand-written seeds: the shapes named in the property text + minimised past findings
SEEDS = [
    [[("deferclo", [("recover",)]), ("deferclo", [("panic", ("int", 2))]), ("panic", ("int", 1))]],                       # replaced panic (finding)
    [[("deferclo", [("trace", 1)]), ("deferclo", [("recover",)]), ("deferclo", [("recover",)]), ("deferclo", [("panic", ("int", 2))]), ("panic", ("int", 1))]],
    [[("call", 1), ("trace", 9)], [("deferclo", [("trace", 1)]), ("goexit",), ("trace", 8)]],                             # goexit (finding)
    [[("deferclo", [("trace", 1)]), ("goexit",), ("trace", 8)]],
    [[("deferclo", [("recover",), ("setr", 17)]), ("deferclo", [("callclo", [("recover",)])]), ("defer", 1), ("setx", 4), ("panic", ("rt", 0))], [("tracex",)]],
    [[("deferclo", [("deferclo", [("recover",)]), ("panic", ("int", 2))]), ("panic", ("int", 1))]],
    [[("deferclo", [("recover",), ("panic", ("int", 3))]), ("call", 1)], [("deferclo", [("trace", 1)]), ("panic", ("rt", 2))]],
    [[("deferclo", [("recover",)]), ("call", 1), ("trace", 2)], [("deferclo", [("callclo", [("callclo", [("recover",)])])]), ("panic", ("rt", 5))]],
    [[("setr", 11), ("deferclo", [("recover",), ("tracex",)]), ("call", 1), ("setr", 12)], [("setr", 13), ("deferclo", [("setr", 14)]), ("panic", ("int", 4))]],
    [[("deferclo", [("recover",)]), ("deferclo", [("call", 1), ("recover",)]), ("panic", ("int", 1))], [("deferclo", [("recover",)]), ("panic", ("int", 2))]],
    [[("deferclo", [("recover",)]), ("deferclo", [("call", 1)]), ("panic", ("int", 1))], [("deferclo", [("recover",)]), ("trace", 1)]],
    [[("panic", ("int", 7))]],
    [[("deferclo", [("panic", ("int", 2))]), ("goexit",)]],                                                                   # panic during Goexit, unrecovered (finding)
    [[("deferclo", [("recover",)]), ("deferclo", [("panic", ("int", 2))]), ("goexit",), ("trace", 9)]],                      # ... recovered: Goexit resumes
    # unnamed results returned from a plain local that deferred closures modify, with and without a really suspending deferred call
    [[("call", 1), ("tracex",)], [("setr", 11), ("deferclo", [("block",), ("setr", 12)]), ("retr",)]],
    [[("call", 1), ("tracex",)], [("setr", 11), ("deferclo", [("setr", 12)]), ("retr",)]],
    [[("call", 1), ("tracex",)], [("deferclo", [("recover",), ("setr", 13)]), ("setr", 11), ("panic", ("int", 1)), ("retr",)]],
    [[("call", 1), ("tracex",)], [("setr", 11), ("deferclo", [("setr", 12), ("block",), ("setr", 14)]), ("block",), ("retr",), ("trace", 1), ("retr",)]],
    [[("defer", 1), ("setr", 15), ("deferclo", [("block",), ("setr", 16), ("tracex",)]), ("retr",)], [("block",), ("tracex",)]],
    [[("deferclo", [("deferclo", [("block",), ("recover",)]), ("panic", ("int", 1))]), ("trace", 1)]],      # nested: panic in a deferred call whose own deferred call suspends (finding)
    # deferred calls that really suspend the goroutine: while panicking, on normal return, during Goexit, nested
    [[("trace", 1), ("deferclo", [("recover",), ("trace", 2)]), ("deferclo", [("block",), ("trace", 3)]), ("trace", 4), ("panic", ("int", 1)), ("trace", 5)]],
    [[("deferclo", [("block",), ("recover",), ("setr", 12)]), ("trace", 1), ("block",), ("trace", 2), ("panic", ("rt", 0))]],
    [[("deferclo", [("recover",)]), ("call", 1), ("trace", 9)], [("trace", 1), ("deferclo", [("trace", 2), ("block",), ("trace", 3)]), ("block",), ("trace", 4), ("panic", ("int", 2))]],
    [[("deferclo", [("block",), ("trace", 1)]), ("deferclo", [("block",), ("trace", 2)]), ("trace", 3)]],
    [[("deferclo", [("trace", 1), ("block",), ("trace", 2)]), ("call", 1), ("trace", 9)], [("deferclo", [("block",), ("trace", 3)]), ("goexit",)]],
    [[("deferclo", [("recover",), ("block",), ("tracex",)]), ("deferclo", [("callclo", [("block",)]), ("panic", ("int", 3))]), ("setr", 11), ("panic", ("int", 1))]],
    [[("defer", 1), ("setx", 5), ("block",), ("panic", ("int", 1))], [("block",), ("tracex",), ("recover",)]],
    [[("deferclo", [("callclo", [("deferclo", [("trace", 3)])]), ("trace", 5)]), ("goexit",)]],                        # a deferring callee of a deferred call during Goexit
    [[("deferclo", [("call", 2), ("trace", 5)]), ("call", 1), ("trace", 9)], [("deferclo", [("recover",)]), ("goexit",)], [("deferclo", [("trace", 3)])]],
    [[("deferclo", [("trace", 1)]), ("call", 1), ("trace", 9)], [("deferclo", [("trace", 2)]), ("call", 2), ("trace", 8)], [("deferclo", [("recover",), ("trace", 3)]), ("goexit",)]],
    [[("call", 1), ("trace", 9)], [("callclo", [("goexit",)]), ("trace", 8)]],
    [[("call", 1)], [("deferclo", [("trace", 1)]), ("panic", ("rt", 6))]],
]


ONCE_PUSH, ONCE_RUN = 2000, 1000


def mark_once(prog):
    """phase 4: make every deferred closure observable — `println` a push marker right before the defer statement and a run
    marker as the first statement of the closure — so that exactly-once can be decided on the REAL trace alone"""
    cnt = [0]

    def mb(body):
        out = []
        for s in body:
            if s[0] == "deferclo":
                cnt[0] += 1
                k = cnt[0]
                out.append(("trace", ONCE_PUSH + k))
                out.append(("deferclo", [("trace", ONCE_RUN + k)] + mb(s[1])))
            elif s[0] == "callclo":
                out.append(("callclo", mb(s[1])))
            else:
                out.append(s)
        return out
    return [mb(b) for b in prog]


def once_violations(events):
    """independent oracle for defer_lifo_exactly_once on an observed trace: every push marker is matched by exactly one later run
    marker of the same closure (Go runs pending deferred calls on normal return, panic — also a fatal one — and Goexit)"""
    pend = {}
    for e in events:
        if e[0] == "trace" and e[1] > ONCE_PUSH:
            pend[e[1] - ONCE_PUSH] = pend.get(e[1] - ONCE_PUSH, 0) + 1
        elif e[0] == "trace" and e[1] > ONCE_RUN:
            k = e[1] - ONCE_RUN
            if pend.get(k, 0) <= 0:
                return "deferred closure #%d ran without a pending push (ran twice?)" % k
            pend[k] -= 1
    left = sorted(k for k, v in pend.items() if v)
    return ("deferred closure(s) %s pushed but never run" % left) if left else None


def b_once_programs(r, quick):
    """marked programs without really suspending statements (the theorem is about the non-suspending machine)"""
    n = 30 if quick else 300
    progs = []
    for s in SEEDS:
        if len(progs) < n // 3 and not any(G.count_kind(b, "block") for b in s):
            progs.append((mark_once(s), FLAVOURS[len(progs) % 2]))
    while len(progs) < n:
        fl = r.choice(FLAVOURS[:2])
        kinds = r.sample(G.KINDS, r.randint(1, 3)) if fl["msg"] else [r.choice(G.NONBLOCKING_KINDS)]
        p = G.gen_program(r, dict(goexit=r.random() < 0.3, kinds=kinds, calm=r.choice([0.15, 0.5, 1.0]), block=0.0))
        if sum(G.count_kind(b, "deferclo") for b in p) == 0:
            continue
        progs.append((mark_once(p), fl))
    return progs


def b_programs(r, quick):
    n = int(os.environ.get("C08_DEV_N", "0")) or (180 if quick else 2000)
    progs = []
    for i, s in enumerate(SEEDS):
        has_block = any(G.count_kind(b, "block") for b in s)
        fls = [f for f in FLAVOURS if f["msg"]] if has_block else FLAVOURS
        for fl in (fls if not quick else [fls[i % len(fls)]]):
            progs.append((s, fl))
    while len(progs) < n:
        fl = r.choice(FLAVOURS)
        goexit = r.random() < 0.15
        calm = r.choice([0.0, 0.0, 0.15, 0.5, 1.0])
        if fl["msg"]:
            kinds = r.sample(G.KINDS, r.randint(1, 4))
        else:
            kinds = [r.choice(G.NONBLOCKING_KINDS)]
        block = r.choice([0.0, 0.0, 0.8, 1.5]) if fl["msg"] else 0.0      # real suspension points (blocking flavours only)
        p = G.gen_program(r, dict(goexit=goexit, kinds=kinds, calm=calm, block=block))
        progs.append((p, fl))
    return progs


# class computed by Corr/C08_Eval.bclass -> signature of the recorded finding that explains the difference
B_CLASS_SIG = {
    1: ("replaced-panic-resurrected-after-recover",
        "a panic raised by a deferred call replaces the current panic; after the new panic is recovered the old (aborted) one is re-activated: "
        "it continues to unwind / is returned by a later recover, and remaining deferred calls of the frame can be skipped"),
    2: ("panic-during-goexit-swallowed",
        "an unrecovered panic raised by a deferred call while runtime.Goexit unwinds is swallowed by the catch clause of $goroutine; Go dies with the panic"),
    3: ("goexit-swallowed-by-deferring-frame",
        "runtime.Goexit only unwinds to the nearest function that has defer statements; that function then returns normally and its callers continue"),
}


def defer_programs(ctx):
    r = ctx.rng("b")
    progs = b_programs(r, ctx.quick)
    n_plain = len(progs)
    progs = progs + b_once_programs(ctx.rng("b-once"), ctx.quick)      # phase 4: marked programs, same pipeline + the exactly-once oracle
    once_checked = 0

    def one(i):
        try:
            return one_(i)
        except OSError as e:          # binary being replaced, disk full, ...: infrastructure
            return dict(skip="OSError: %s" % e)

    def one_(i):
        prog, fl = progs[i]
        d = os.path.join(ctx.work, "b%d" % i)
        src = G.go_program(prog, fl)
        C.write_go_program(d, {"main.go": src}, module="verifc08")
        rc, log = C.gopherjs_build(d, timeout=600)
        if rc != 0:
            return dict(skip="gopherjs build: " + log[-200:]) if infra(rc, log) else dict(build_error=log[-800:], src=src)
        rc, out, err = C.run_node(os.path.join(d, "out.js"), cwd=d, timeout=300)
        if infra(rc, err):
            return dict(skip="node run: rc=%s %s" % (rc, err[-150:]))
        rc2, out2, err2 = C.sh2(["go", "run", "."], cwd=d, env=native_env(), timeout=600)
        if infra(rc2, err2) or (rc2 != 0 and "panic:" not in err2 and "exit status" not in err2):
            return dict(skip="native go run: rc=%s %s" % (rc2, err2[-150:]))
        ks = set()
        for b in prog:
            ks |= G.rt_kinds(b)
        single = G.PALETTE[sorted(ks)[0]][2] if (len(ks) == 1 and not fl["msg"]) else None
        ji = G.parse_run(out, err, rc, single, "js")
        gi = G.parse_run(err2, err2, rc2, single, "go")
        return dict(src=src, js=ji, go=gi, raw=dict(js_out=out[-1500:], js_err=err[-600:], go_err=err2[-1500:], rc=rc, rc_go=rc2))

    results = C.parallel_map(one, range(len(progs)))
    bcases, idxmap = [], []
    dist = dict(flavours={}, with_goexit=0, with_real_blocking=0, fatal=0, max_depth=0, rt_kinds={}, recovered_values=0, events=0)
    for i, ((prog, fl), res) in enumerate(zip(progs, results)):
        if "skip" in res:
            note_skip(ctx, "defer program %d: %s" % (i, res["skip"]))
            continue
        npanic = sum(G.count_kind(b, "panic") for b in prog)
        ndefer = sum(G.count_kind(b, "defer") + G.count_kind(b, "deferclo") for b in prog)
        ctx.count(["b", prog, fl["name"]], nontrivial=(npanic >= 1 and ndefer >= 1))
        dist["flavours"][fl["name"]] = dist["flavours"].get(fl["name"], 0) + 1
        dist["with_goexit"] += any(G.count_kind(b, "goexit") for b in prog)
        dist["with_real_blocking"] += any(G.count_kind(b, "block") for b in prog)
        dist["max_depth"] = max(dist["max_depth"], max(G.depth_of(b) for b in prog))
        for b in prog:
            for k in G.rt_kinds(b):
                dist["rt_kinds"][k] = dist["rt_kinds"].get(k, 0) + 1
        rep = dict(kind="b", program=prog, flavour=fl["name"], go_source=res.get("src"))
        if "build_error" in res:
            ctx.violation("defer-program-build-failed", "gopherjs build failed on a generated defer program", dict(rep, log=res["build_error"]), concrete=False)
            continue
        (jev, jfin, jprob), (gev, gfin, gprob) = res["js"], res["go"]
        dist["fatal"] += gfin[0] == "fatal"
        dist["events"] += len(gev)
        dist["recovered_values"] += sum(1 for e in gev if e[0] == "rec" and e[1] is not None)
        rep.update(impl=dict(trace=jev, final=jfin), native=dict(trace=gev, final=gfin), raw=res["raw"])
        if i >= n_plain and not jprob:
            # phase 4: defer_lifo_exactly_once decided on the real trace alone (and on native Go's, as a check of the oracle)
            once_checked += 1
            bad_once = once_violations(jev)
            if bad_once and not once_violations(gev):
                ctx.violation("deferred-call-not-run-exactly-once", "compiled program: " + bad_once, rep)
        if gprob:
            # the reference run itself was not understood: nothing can be concluded about the implementation
            note_skip(ctx, "defer program %d: native Go output not understood (%s): %s" % (i, gprob[0][0], gprob[0][1][:100]))
            res["skip"] = True
            continue
        bad = False
        for sig, line in jprob:
            bad = True
            if sig == "runtime-error-not-runtime.Error":
                ctx.violation(sig, "a recovered run-time error does not implement runtime.Error: " + line, rep)
            elif sig == "garbled-value":
                ctx.violation("defer-program-value-not-an-integer", "the compiled program prints a variable / result that is not an integer: " + line[:100], rep)
        # the property itself: same observable behaviour as Go
        if (jev, jfin) != (gev, gfin):
            res["_differs"] = True
        if not bad:
            bcases.append("{| b_prog := %s; b_impl := %s; b_go := %s; b_use_go := true |}" % (G.coq_program(prog), G.coq_obs(jev, jfin), G.coq_obs(gev, gfin)))
            idxmap.append(i)
        elif res.get("_differs"):
            res["_class"] = 5
        if i < 2:
            ctx.sample(dict(kind="b", flavour=fl["name"], program=prog, impl_trace=jev, impl_final=jfin, native_trace=gev, native_final=gfin))

    shard = 40
    shards = [(k, bcases[k:k + shard]) for k in range(0, len(bcases), shard)]

    def run_shard(s):
        k, cs = s
        return k, len(cs), coq_eval(ctx, "b_%d" % k, "Definition cases : list bcase := [\n" + ";\n".join(cs) + "].\n",
                                    [("MI", "bmismatches_impl cases"), ("MS", "bmismatches_spec cases"), ("CL", "bclasses cases"), ("BF", "bblockflags cases"), ("BG", "bblockflags2 cases"), ("BH", "bblockflags3 cases"), ("UC", "bunclean cases")])
    impl_bad, spec_bad, evaluated, blockflag, blockflag2, blockflag3 = set(), set(), set(), set(), set(), set()
    for k, n, (res, log) in C.parallel_map(run_shard, shards):
        if res is None:
            if infra(None, log):
                note_skip(ctx, "Coq evaluation of shard %d: %s" % (k, log[-120:]))
            else:
                ctx.violation("model-eval-failed", "Coq evaluation of the panic models failed", dict(log=log), concrete=False)
            continue
        impl_bad |= {idxmap[k + j] for j in res["MI"]}
        spec_bad |= {idxmap[k + j] for j in res["MS"]}
        blockflag |= {idxmap[k + j] for j in res["BF"]}
        blockflag2 |= {idxmap[k + j] for j in res["BG"]}
        blockflag3 |= {idxmap[k + j] for j in res["BH"]}
        for j in res["UC"]:
            # cannot happen while the proofs hold (C08_run_ends_clean); reported if the model or the variant flags drift
            ctx.violation("implpanic-final-state-not-clean", "ImplPanic ends with a pending deferred call, a queued panic, a non-empty deferStack or a shifted $stackDepthOffset",
                          dict(kind="b", program=progs[idxmap[k + j]][0], flavour=progs[idxmap[k + j]][1]["name"]), concrete=False)
        for j, c in enumerate(res["CL"]):
            results[idxmap[k + j]]["_class"] = c
            evaluated.add(idxmap[k + j])
    nknown = 0
    classes = {}
    for i, ((prog, fl), res) in enumerate(zip(progs, results)):
        if "build_error" in res or "skip" in res:
            continue
        (jev, jfin, _), (gev, gfin, _) = res["js"], res["go"]
        rep = dict(kind="b", program=prog, flavour=fl["name"], go_source=res["src"], impl=dict(trace=jev, final=jfin), native=dict(trace=gev, final=gfin))
        cl = res.get("_class")
        if cl is not None:
            classes[cl] = classes.get(cl, 0) + 1
        if res.get("_differs") and i in blockflag and i not in spec_bad:
            # suspension is not modelled by ImplPanic; SpecPanic's ghost flag delimits the recorded finding
            nknown += 1
            ctx.violation("blocked-deferred-panic-recovered-by-caller-continues",
                          "a deferred call really blocks while a panic is in flight and the panic is then recovered by a deferred call of an outer frame: "
                          "the inner function returns normally and its caller's body continues after the call", rep)
            continue
        if res.get("_differs") and i in blockflag3 and i not in spec_bad:
            nknown += 1
            ctx.violation("suspended-panic-adopted-by-outer-epilogue",
                          "a panic is raised inside a deferred call and one of that call's own deferred calls really blocks: on resumption the re-queued panic "
                          "is popped by the epilogue $callDeferred of the OUTER function (it resumes first), so recover() in the inner deferred call returns nil", rep)
            continue
        if res.get("_differs") and i in blockflag2 and i not in spec_bad:
            nknown += 1
            ctx.violation("replaced-panic-resurrected-when-deferred-call-blocks",
                          "a panic is replaced by a panic raised in a deferred call and a deferred call really blocks while the replacement is handled: "
                          "the aborted panic is re-queued because the goroutine goes to sleep, and comes back after the replacement was recovered", rep)
            continue
        if res.get("_differs"):
            if cl is None:
                note_skip(ctx, "defer program %d differs from Go but the models could not be evaluated" % i)
            elif cl in (1, 2, 3) and i not in impl_bad and i not in spec_bad:
                nknown += 1               # predicted by the faithful model: one of the recorded findings
                ctx.violation(B_CLASS_SIG[cl][0], B_CLASS_SIG[cl][1], rep)
            elif cl == 4 and i not in impl_bad and i not in spec_bad:
                nknown += 1
                ctx.violation("several-recorded-findings-combined", "the program differs from Go; the faithful model predicts it, and only all recorded repairs together remove the difference", rep)
            else:
                ctx.violation("defer-panic-behaviour-differs-from-go",
                              "compiled program and native Go disagree on a defer program (trace / recovered values / results / final status)", rep)
        if i in impl_bad:
            ctx.violation("implpanic-model-mismatch", "ImplPanic (Coq transliteration of $callDeferred/$panic/$recover) and the compiled program disagree", rep, concrete=False)
        if i in spec_bad:
            ctx.violation("specpanic-vs-native-go", "SpecPanic (Coq Go-specification machine) and native Go disagree", rep, concrete=False)
    dist["model_classes"] = {str(k): v for k, v in sorted(classes.items())}
    dist["programs_in_blocked_panic_class"] = len(blockflag)
    dist["programs_in_blocked_replaced_panic_class"] = len(blockflag2)
    dist["programs_in_nested_suspended_panic_class"] = len(blockflag3)
    dist["programs_differing_from_go_as_predicted"] = nknown
    ctx.cov["b_distribution"] = dist
    ctx.cov["b_programs"] = len(progs)
    ctx.cov["b_marked_programs_exactly_once_oracle"] = once_checked
    ctx.cov["b_programs_validated_against_both_models"] = len(evaluated)


def correspond(ctx):
    if getattr(ctx, "c08_skip", False):
        return
    phases = os.environ.get("C08_DEV_PHASES", "AB")      # development aid only: restrict the phases
    if "A" in phases:
        guards_stub(ctx)
        ctx.log("A1 prelude guards done")
        guards_shape(ctx)
        ctx.log("A4 shape guards done")
        guards_program(ctx)
        ctx.log("A2 guard program done")
        palette(ctx)
        order(ctx)
        ctx.log("A3 palette/order done")
    if "B" in phases:
        defer_programs(ctx)
        ctx.log("B defer programs done")


def search(ctx, proof_state):
    """a proof broke: the correspondence above already looked for concrete inputs"""
    return any(v["concrete"] for v in ctx.violations)


def replay(ctx, data):
    rp = data["replay"]
    if rp.get("kind") == "b":
        prog = [[_fix(s) for s in b] for b in rp["program"]]
        fl = next(f for f in FLAVOURS if f["name"] == rp["flavour"])
        d = os.path.join(ctx.work, "replay")
        src = G.go_program(prog, fl)
        C.write_go_program(d, {"main.go": src}, module="verifc08")
        print(src)
        print(C.gopherjs_build(d, timeout=600))
        print("--- gopherjs:", C.run_node(os.path.join(d, "out.js"), cwd=d))
        print("--- native go:", C.sh2(["go", "run", "."], cwd=d, env=native_env()))
        print("--- recorded:", json.dumps(dict(impl=rp.get("impl"), native=rp.get("native"))))
        pth = os.path.join(ctx.work, "replay_models2.v")
        with open(pth, "w") as f:
            f.write("From Coq Require Import List ZArith NArith.\nFrom Verif Require Import Model.C08_Panic Corr.C08_Eval.\nImport ListNotations.\nLocal Open Scope Z_scope.\n"
                    "Definition p : program := %s.\nEval vm_compute in (obs (impl_run FUEL p)).\nEval vm_compute in (obs (spec_run FUEL p)).\n" % G.coq_program(prog))
        print("--- ImplPanic / SpecPanic:", C.coq_run(pth)[1])
    elif rp.get("kind") in ("a1", "a2", "palette", "order"):
        print(json.dumps(rp, indent=1))
        print("re-run `./check C08` to re-evaluate the fixed grids; the case above is part of them (sources: harness/py/c08_gen.py, c08_guardprog.py)")
    else:
        print(json.dumps(data, indent=1))
    return 0


def _fix(s):
    s = list(s)
    if s[0] in ("callclo", "deferclo"):
        return (s[0], [_fix(x) for x in s[1]])
    if s[0] == "panic":
        return ("panic", tuple(s[1]))
    return tuple(s)


TECHNIQUE = ("Coq proofs about an executable model of every emitted run-time check and of the $callDeferred/$panic/$recover unwinding machine "
             "+ differential correspondence (real prelude in node, compiled programs, native Go)")
LEVEL_TEXT = ("Part A: for every guard (index incl. strings, 2/3-index slice, string slice, make slice/map/chan, integer / and %, slice->array pointer) a machine-checked "
              "theorem over unbounded integer operands that the emitted check fires exactly when the Go specification requires a panic and otherwise yields "
              "Go's value. Part B: the Go-specification machine (SpecPanic) and a transliteration of $callDeferred/$panic/$recover + the try/catch/finally "
              "epilogue (ImplPanic, with one variant flag per repaired finding, selected by probing the source) as executable Coq models; machine-checked: "
              "for every program, fuel and variant the deferred calls of ImplPanic run in LIFO order and at most once; the numeric stack-depth test of $recover "
              "is equivalent to 'called directly by the deferred function the panic sequence invoked'; on 334 408 exhaustively enumerated programs (nested "
              "defers, recover at several depths, replaced panics, re-panic, named results, Goexit across frames and mixed with panics) ImplPanic of the current "
              "tree equals SpecPanic and every pushed deferred call runs exactly once. Both models are tied to /repo on every run.")
LEVEL_NOTE = ("Phase 4: defer_lifo_exactly_once is now UNBOUNDED for the non-suspending machine (C08_defer_lifo_exactly_once = the former full statement, for V_FULL and every asleep-only variant), via a proved stack-shape invariant of ImplPanic (C08_activation_restores_stack_shape, C08_epilogue_pops_own_frame, C08_panic_never_returns, C08_run_ends_clean); it is tied by marked programs whose real trace is decided by an exactly-once oracle. impl_refines_spec_panic and recover_legal_iff remain _partial (enumerated / numeric depth test): the $panicStackDepth-vs-l_rk half of the simulation is not proved. New part-A guards (nil map store/read, nil struct pointer get/set, $assertType panicking and comma-ok) have guard_fires_iff_spec theorems and a 228-case grid on the real prelude with the emitted JS instantiated from the compiler's format strings. Proofs are about hand-written models; the tie is differential (real vs ImplPanic and native Go vs SpecPanic must agree on every generated program). "
              "impl_refines_spec_panic, completeness of defer_lifo_once and recover_legal_iff are _partial (bounded enumeration / arithmetic core): no unbounded "
              "simulation proof. Suspension (a deferred call that blocks) is outside the models; generated programs exercise it against native Go, where two "
              "recorded findings remain.")
