"""C19 — source maps.  Model: coq/Model/C19_Filter.v; theorems: coq/Props/C19.v.

Correspondence:
 (1) random streams of code pieces and hints (payloads packed by the REAL Hint.Pack, or raw
     adversarial payloads), cut into Write calls in random ways (never / sometimes inside a hint),
     are fed to the REAL sourcemapx.Filter (overlay harness c19); the exact same chunks are
     evaluated by the Coq model; output bytes, mappings and rejection must agree.
     Independently of the model, the property predicate itself (hints erased and nothing else
     changed, no 0x08, mapping = position where the following code lands) is evaluated on the
     implementation's output -> that is what makes a disagreement a concrete violation.
 (2) compiled programs, plain and minified: decode out.js.map, check every mapping is in range of
     out.js and of the Go file, out.js has no 0x08, println(k) statements map to their Go line,
     and a thrown error's stack (node --enable-source-maps) resolves to the first line of the
     statements on the call chain.
"""
import json, os, re, sys
import common as C
import srcmap

ID = "C19"
PROPS_FILE = "Props/C19.v"
MODEL_TARGETS = ["Corr/C19_Eval.v"]
ALLOWED_AXIOMS = []
RULE = ("streams: 1-12 pieces (code over an alphabet biased to newlines/printables/high bytes, never 0x08; hints packed "
        "by the real Hint.Pack for random token.Pos / Identifier, or raw payloads incl. 0x08 bytes and lengths 0..65535), "
        "chunked at random code offsets / 1-byte chunks / one chunk; a separate malformed stream cuts inside a hint. "
        "non-trivial = at least one hint and at least 2 chunks; distinct by (stream bytes, chunk sizes). "
        "programs: generated call chains with println markers and a final out-of-range index, built plain and -m")
TRUSTED = ["model of Filter.Write/ReadHint/FindHint/Hint.WriteTo written by hand (coq/Model/C19_Filter.v), tied by this correspondence",
           "gob encoding of hint payloads, esbuild's own prelude maps (decoded by the modelled decoder, but produced by esbuild): not modelled; the VLQ/mappings codec of github.com/neelance/sourcemap is modelled (Model/C19_Vlq.v) AFTER its sort.Sort, whose result is taken from the real code", "encoding/json of the map object (only the mappings alphabet is proved JSON-safe)",
           "harness/go/repo_overlay/compiler/verifharness/c19 + export_verif.go (sets the unexported callback)",
           "node --enable-source-maps as the consumer of the emitted map"]
ASSUMPTIONS = ["generated code never contains byte 0x08 outside hints (for string literals: C14 encode_string_safe)",
               "Write calls never split a hint (the compiler writes whole Decl blobs); split hints are rejected (checked)"]


def prepare(ctx):
    C.ensure_go_harness("c19")
    C.ensure_gopherjs()


# ---------------------------------------------------------------- streams

ALPH = [10] * 6 + list(range(32, 127)) + [9, 13, 0, 7, 9, 11, 127, 128, 200, 255, 34, 92]


def gen_code(r, maxlen=30):
    n = r.choice([0, 1, 2, 3, 5, 8, 13, r.randint(0, maxlen)])
    return bytes(r.choice(ALPH) for _ in range(n))


def gen_case(r, idx, malformed=False, big=False):
    items, npieces = [], r.randint(1, 12)
    callback = r.random() < 0.7
    pos = 1
    for _ in range(npieces):
        k = r.random()
        if k < 0.5:
            items.append(dict(code=gen_code(r).hex()))
        elif callback:
            pos += r.randint(1, 5000)
            hp = 0 if r.random() < 0.15 else pos        # token.NoPos: a hint that marks code without a Go position
            if r.random() < 0.5:
                items.append(dict(pos=hp))
            else:
                items.append(dict(pos=hp, ident=[r.choice(["a", "x$1", "foo", "$pkg.T"]), r.choice(["main.Foo", "", "p.T.M"])]))
        else:
            ln = r.choice([0, 1, 2, 3, 8, 255, 256, 257]) if not big else r.choice([65535, 65534, 4096])
            items.append(dict(raw=bytes(r.choice([8, 8, 0, 10, 65, 255]) for _ in range(ln)).hex()))
    if malformed and not any(("pos" in i or "raw" in i) for i in items):
        items.append(dict(raw="0801") if not callback else dict(pos=pos + 1))
    return dict(items=items, callback=callback, chunks=[], malformed=malformed, mode=None,
                mapped=bool(callback and not malformed and r.random() < 0.35))


def piece_lengths(res, case):
    """byte length of every piece in the rendered stream (hint = 3 + payload)"""
    lens, pi = [], 0
    for it in case["items"]:
        if "code" in it:
            lens.append(("code", len(it["code"]) // 2))
        else:
            lens.append(("hint", 3 + len(res["payloads"][pi]) // 2))
            pi += 1
    return lens


def choose_chunks(r, lens, malformed):
    total = sum(l for _, l in lens)
    # legal cut offsets: anywhere inside/around code, never strictly inside a hint
    legal, illegal, off = set(), set(), 0
    for kind, l in lens:
        if kind == "code":
            legal.update(range(off, off + l + 1))
        else:
            legal.update([off, off + l])
            illegal.update(range(off + 1, off + l))
        off += l
    legal.discard(0); legal.discard(total)
    mode = r.choice(["one", "bytes", "random", "random", "pieces"])
    if mode == "one":
        cuts = []
    elif mode == "bytes":
        cuts = sorted(legal)
    elif mode == "pieces":
        cuts, off = [], 0
        for _, l in lens[:-1]:
            off += l
            cuts.append(off)
        cuts = sorted(set(c for c in cuts if 0 < c < total))
    else:
        cuts = sorted(c for c in legal if r.random() < 0.25)
    if malformed and illegal:
        cuts = sorted(set(cuts) | {r.choice(sorted(illegal))})
    sizes, prev = [], 0
    for c in cuts:
        sizes.append(c - prev)
        prev = c
    sizes.append(total - prev)
    return sizes, mode


def spec_from_scratch(case, res):
    """the property's own predicate, computed independently of the Coq model"""
    out, maps, pi = b"", [], 0
    for it in case["items"]:
        if "code" in it:
            out += bytes.fromhex(it["code"])
        else:
            line = out.count(b"\n") + 1
            col = len(out) - (out.rfind(b"\n") + 1)
            maps.append((line, col, res["payloads"][pi]))
            pi += 1
    return out, maps


def nlist(bs):
    return "[" + ";".join(str(b) for b in bs) + "]"


def streams(ctx):
    r = ctx.rng("streams")
    n_ok = 1500 if ctx.quick else 30000
    n_bad = 150 if ctx.quick else 3000
    n_big = 6 if ctx.quick else 40
    cases = [gen_case(r, i) for i in range(n_ok)] + [gen_case(r, i, malformed=True) for i in range(n_bad)] + \
            [gen_case(r, i, big=True) for i in range(n_big)]
    h = os.path.join(C.BIN, "h_c19")
    # pass 1: render only (no chunks) to learn the stream layout; pass 2: with chunks
    rc, out, err = C.sh2([h], inp=json.dumps([dict(items=c["items"], chunks=[], callback=False) for c in cases]).encode(), timeout=600)
    if rc != 0:
        raise C.BuildError("c19 harness failed: " + err[-500:])
    first = json.loads(out)
    for c, res in zip(cases, first):
        c["chunks"], c["mode"] = choose_chunks(r, piece_lengths(res, c), c["malformed"])
    rc, out, err = C.sh2([h], inp=json.dumps([dict(items=c["items"], chunks=c["chunks"], callback=c["callback"], mapped=c["mapped"]) for c in cases]).encode(), timeout=1800)
    if rc != 0:
        raise C.BuildError("c19 harness failed: " + err[-500:])
    results = json.loads(out)

    dist = dict(chunk_modes={}, hints=0, with_callback=0, default_callbacks=0, malformed=0, rejected_by_impl=0, max_chunks=0, total_bytes=0)
    vcases = []
    for idx, (c, res) in enumerate(zip(cases, results)):
        stream = bytes.fromhex(res["stream"])
        nh = len(res["payloads"])
        dist["chunk_modes"][c["mode"]] = dist["chunk_modes"].get(c["mode"], 0) + 1
        dist["hints"] += nh
        dist["with_callback"] += c["callback"]
        dist["default_callbacks"] += c["mapped"]
        dist["malformed"] += c["malformed"]
        dist["max_chunks"] = max(dist["max_chunks"], len(c["chunks"]))
        dist["total_bytes"] += len(stream)
        ctx.count([res["stream"], c["chunks"]], nontrivial=(nh >= 1 and len(c["chunks"]) >= 2))
        chunks, off = [], 0
        for sz in c["chunks"]:
            chunks.append(stream[off:off + sz]); off += sz
        panicked = bool(res["panic"])
        dist["rejected_by_impl"] += panicked
        # --- the property predicate on the implementation's own output
        exp_out, exp_maps = spec_from_scratch(c, res)
        got_maps = []
        pos2payload = {}
        pi = 0
        for it in c["items"]:
            if "code" not in it:
                if "pos" in it:
                    pos2payload[max(it["pos"] - 1, 0)] = res["payloads"][pi]   # FileSet base 1 -> offset = pos-1 (NoPos -> 0)
                pi += 1
        mapped_detail = None
        if not c["malformed"]:
            bad = None
            if panicked:
                bad = "Filter.Write panicked on a well-formed chunking: " + res["panic"][:120]
            elif bytes.fromhex(res["out"]) != exp_out:
                bad = "output is not the code with the hints erased"
            elif b"\x08" in bytes.fromhex(res["out"]):
                bad = "output contains a hint byte 0x08"
            elif c["mapped"]:
                # the DEFAULT callbacks: every hint must yield one segment of the encoded map, with the Go position
                # of its token.Pos (verif.go, line offset/64+1, column offset%64+1) or no source for token.NoPos
                sources, names, got = srcmap.decode_obj(json.loads(res["srcmap"]))
                want, pi2 = [], 0
                for it in c["items"]:
                    if "code" in it:
                        continue
                    l, cc, _ = exp_maps[pi2]; pi2 += 1
                    if it["pos"] == 0:
                        want.append((l, cc, None, None, None, None))
                    else:
                        off = it["pos"] - 1
                        nm = it["ident"][1] if it.get("ident") and it["ident"][1] else None
                        want.append((l, cc, "verif.go", off // 64 + 1, off % 64 + 1, nm))
                gotn = [(m["gen_line"], m["gen_col"], sources[m["src"]] if m["src"] is not None else None, m["line"], m["col"],
                         names[m["name"]] if m["name"] is not None else None) for m in got]
                key = lambda t: tuple((x is None, x if x is not None else 0) for x in t)
                if sorted(gotn, key=key) != sorted(want, key=key):
                    bad = "the encoded source map does not hold exactly one segment per hint with the hint's Go position (or none for NoPos)"
                    mapped_detail = dict(got=gotn[:12], want=want[:12])
            elif c["callback"]:
                # (line, col, Go offset, original name) per hint, in stream order
                hints = [it for it in c["items"] if "code" not in it]
                want_cb = [(l, cc, max(it["pos"] - 1, 0), (it["ident"][1] if it.get("ident") else "")) for (l, cc, _), it in zip(exp_maps, hints)]
                got_maps = [(m["line"], m["col"], m["offset"], m["name"]) for m in res["maps"]]
                if got_maps != want_cb:
                    bad = "a mapping does not point at the position where the following code starts"
            elif res["n"] != c["chunks"]:
                bad = "Write returned a byte count different from len(p)"
            if bad:
                ctx.violation("filter-" + re.sub(r"[^a-z]+", "-", bad[:40].lower()), bad,
                              dict(kind="stream", items=c["items"], chunks=c["chunks"], callback=c["callback"],
                                   impl=dict(out=res["out"], maps=res["maps"], panic=res["panic"]),
                                   expected=dict(out=exp_out.hex(), maps=exp_maps), default_callbacks=mapped_detail))
        # --- model case
        if panicked:
            exp = "None"
        else:
            # the k-th callback belongs to the k-th hint of the stream (checked by the oracle above)
            pls = res["payloads"] if len(res["payloads"]) == len(res["maps"]) else [""] * len(res["maps"])
            ms = [(m["line"], m["col"], pl) for m, pl in zip(res["maps"], pls)]
            exp = "Some (%s, [%s])" % (nlist(bytes.fromhex(res["out"])),
                                       ";".join("(%d,%d,%s)" % (l, cc, nlist(bytes.fromhex(p or ""))) for l, cc, p in ms))
        vcases.append("{| c_chunks := [%s]; c_maps_observed := %s; c_expect := %s |}" % (
            ";".join(nlist(ch) for ch in chunks), "true" if (c["callback"] and not c["mapped"]) else "false", exp))
        if idx < 3:
            ctx.sample(dict(kind="stream", items=c["items"], chunks=c["chunks"], impl_out=res["out"][:80], impl_maps=res["maps"][:4]))

    # --- evaluate the model on exactly the same chunks, sharded
    shard = 400
    shards = [vcases[i:i + shard] for i in range(0, len(vcases), shard)]

    def run_shard(k):
        p = os.path.join(ctx.work, "cases_%d.v" % k)
        with open(p, "w") as f:
            f.write("From Coq Require Import List NArith.\nFrom Verif Require Import Model.C19_Filter Corr.C19_Eval.\nImport ListNotations.\nLocal Open Scope N_scope.\n")
            f.write("Definition cases : list case := [\n" + ";\n".join(shards[k]) + "].\n")
            f.write("Definition M := Eval vm_compute in mismatches cases.\nPrint M.\n")
        rc, out = C.coq_run(p)
        m = re.search(r"M\s*=\s*(\[[^\]]*\])", out.replace("\n", " "))
        if rc != 0 or not m:
            return k, None, out[-800:]
        idxs = [int(x.replace("%N", "")) for x in re.findall(r"\d+(?:%N)?", m.group(1))]
        return k, idxs, ""

    mism = 0
    for k, idxs, err in C.parallel_map(run_shard, range(len(shards))):
        if idxs is None:
            ctx.violation("model-eval-failed", "Coq evaluation of the model failed", dict(shard=k, log=err), concrete=False)
            continue
        for i in idxs:
            gi = k * shard + i
            c, res = cases[gi], results[gi]
            mism += 1
            already = any(v["replay"].get("items") == c["items"] and v["replay"].get("chunks") == c["chunks"] for v in ctx.violations)
            if not already:
                ctx.violation("filter-model-mismatch", "model and Filter.Write disagree on a stream (correspondence C19/filter_run broken)",
                              dict(kind="stream", items=c["items"], chunks=c["chunks"], callback=c["callback"],
                                   impl=dict(out=res["out"], maps=res["maps"], panic=res["panic"]),
                                   correspondence="Corr/C19_Eval.mismatches vs internal/sourcemapx.Filter.Write"),
                              concrete=False)
    dist["model_mismatches"] = mism
    ctx.cov["stream_distribution"] = dist
    ctx.cov["traces_validated_against_impl"] = len(vcases)


# ---------------------------------------------------------------- programs

def gen_program(r, idx):
    """a call chain main -> g1 -> ... -> gd; gd indexes out of range. Returns (source, markers{k:line}, chain_lines)"""
    depth = r.randint(1, 4)
    L = ["package main", ""]
    markers, chain = {}, []
    k = [1000 * (idx + 1)]

    def mark(ind):
        k[0] += 1
        L.append("\t" * ind + "println(%d)" % k[0])
        markers[k[0]] = len(L)

    def filler(ind):
        for _ in range(r.randint(0, 3)):
            c = r.random()
            if c < 0.3:
                mark(ind)
            elif c < 0.55:
                L.append("\t" * ind + "if n > %d {" % r.randint(-5, 5)); mark(ind + 1)
                if r.random() < 0.5:
                    L.append("\t" * ind + "} else {"); mark(ind + 1)
                L.append("\t" * ind + "}")
            elif c < 0.8:
                L.append("\t" * ind + "for j := 0; j < %d; j++ {" % r.randint(0, 2)); mark(ind + 1)
                L.append("\t" * ind + "}")
            else:
                k[0] += 1
                L.append("\t" * ind + "s%d := %s" % (k[0], json.dumps(r.choice(['a"b', "x\\y", "/* c */", "// d", "é", "tab\there"]))))
                L.append("\t" * ind + "_ = s%d" % k[0])

    for d in range(depth, 0, -1):
        L.append("func g%d(a []int, n int) int {" % d)
        filler(1)
        if d == depth:
            if r.random() < 0.5:
                L.append("\tx := a[n] +"); chain.append(len(L)); L.append("\t\t1")
            else:
                L.append("\tx := a[n]"); chain.append(len(L))
        else:
            if r.random() < 0.5:
                L.append("\tx := g%d(a," % (d + 1)); chain.append(len(L)); L.append("\t\tn+1)")
            else:
                L.append("\tx := g%d(a, n+1)" % (d + 1)); chain.append(len(L))
        filler(1)
        L.append("\treturn x")
        L.append("}")
        L.append("")
    # package-level variables initialised by calls, one spec per line (their synthesized init statements carry the spec's position)
    npv = r.randint(0, 3)
    if npv:
        L.append("var (")
        for i in range(npv):
            L.append("\tpv%d = pinit(%d)" % (i, r.randint(1, 9)))
        L.append(")")
        L.append("")
        L.append("func pinit(k int) int {")
        L.append("\treturn k + 1")
        L.append("}")
        L.append("")
    L.append("func main() {")
    L.append("\tn := %d" % r.randint(3, 9))
    filler(1)
    if r.random() < 0.6:
        # function literals capturing a variable declared inside a loop body (an "escaping variable": the literal is emitted
        # behind `return` inside a wrapper, the one place where an identifier hint follows a keyword and a blank)
        L.append("\tvar fs []func() int")
        L.append("\tfor i := 0; i < 3; i++ {")
        L.append("\t\tv := i * %d" % r.randint(2, 5))
        L.append("\t\tfs = append(fs, func() int { return v + n })")
        L.append("\t}")
        L.append("\tn += fs[0]() - fs[0]()")
        mark(1)
    L.append("\ta := []int{1, 2, 3}")
    L.append("\tprintln(g1(a, n))"); chain.append(len(L))
    L.append("}")
    # chain was recorded innermost-first only for d==depth first; order: depth..1 then main
    return "\n".join(L) + "\n", markers, chain


def check_build(ctx, d, src, markers, chain, minify, pidx):
    jsname = "out_m.js" if minify else "out.js"
    rc, log = C.gopherjs_build(d, out=jsname, minify=minify)
    tag = "minified" if minify else "plain"
    if rc != 0:
        ctx.violation("program-build-failed", "gopherjs build failed on a generated program", dict(kind="program", source=src, log=log[-800:]), concrete=False)
        return
    js = open(os.path.join(d, jsname), "rb").read()
    rep = dict(kind="program", source=src, minify=minify)
    if b"\x08" in js:
        ctx.violation("program-hint-byte-in-output", "out.js contains a hint byte 0x08 (%s)" % tag, rep)
        return
    jslines = js.split(b"\n")
    golines = src.split("\n")
    sources, names, maps = srcmap.decode(os.path.join(d, jsname + ".map"))
    try:
        mi = sources.index("main.go")
    except ValueError:
        ctx.violation("program-no-main-source", "main.go missing from the source map sources", rep)
        return
    bad = None
    nmain = 0
    for m in maps:
        if m["gen_line"] > len(jslines) or m["gen_col"] > len(jslines[m["gen_line"] - 1]):
            bad = "mapping outside the generated file: %r" % m
            break
        if m["src"] == mi:
            nmain += 1
            if not (1 <= m["line"] <= len(golines)):
                bad = "mapping to a line that does not exist in main.go: %r" % m
                break
    if bad:
        ctx.violation("program-mapping-out-of-range", bad + " (%s)" % tag, rep)
        return
    # package-level `pvN = pinit(..)` specs: the code initialising the variable must map back to the spec's own line
    for gi, gl in enumerate(golines, 1):
        if re.match(r"\tpv\d+ = pinit\(", gl) and not any(m["src"] == mi and m["line"] == gi for m in maps):
            ctx.violation("program-package-var-initialiser-unmapped",
                          "no mapping points at Go line %d (`%s`): the initialiser of a package-level variable is not attributed to its declaration (%s)" % (gi, gl.strip(), tag),
                          dict(rep, go_line=gi))
            return
    # println(k) statements
    bygen = {}
    for m in maps:
        bygen.setdefault(m["gen_line"], []).append(m)
    nmark = 0
    for k, goline in markers.items():
        needle = b"console.log(%d)" % k
        for li, l in enumerate(jslines, 1):
            col = l.find(needle)
            if col < 0:
                continue
            nmark += 1
            # the statement's code starts with its indentation: the mapping must sit at or before the
            # first non-blank character with only blanks in between (nearest one decides)
            hit = sorted([m for m in bygen.get(li, []) if m["gen_col"] <= col and m["src"] == mi and not l[m["gen_col"]:col].strip()],
                         key=lambda m: -m["gen_col"])
            if not hit or hit[0]["line"] != goline:
                ctx.violation("program-statement-position-wrong",
                              "println(%d) on Go line %d: the mapping at its generated position (%d:%d) is %r (%s)" % (k, goline, li, col, hit[:1], tag),
                              dict(rep, marker=k, go_line=goline, gen_line=li, gen_col=col))
                return
    # stack frames through the map
    rc, out, err = C.sh2(["node", "--enable-source-maps", jsname], cwd=d, timeout=900)
    if rc == 124:
        ctx.notes.append("node timed out on a generated program (machine load); stack check skipped for it")
        return
    frames = [int(x) for x in re.findall(r"main\.go:(\d+):\d+\)", err)]
    # expected: innermost statement line first, then each caller's statement line
    want = chain
    got = frames[:len(want)]
    if got != want:
        ctx.violation("program-stack-line-wrong",
                      "stack frames resolved through the map give Go lines %r, statements start at %r (%s)" % (got, want, tag),
                      dict(rep, stderr=err[-1500:], want=want, got=got))
        return
    ctx.cov["program_mappings_checked"] = ctx.cov.get("program_mappings_checked", 0) + len(maps)
    ctx.cov["program_markers_checked"] = ctx.cov.get("program_markers_checked", 0) + nmark
    ctx.cov["program_stack_frames_checked"] = ctx.cov.get("program_stack_frames_checked", 0) + len(want)


def programs(ctx):
    r = ctx.rng("programs")
    n = 24 if ctx.quick else 300
    progs = [gen_program(r, i) for i in range(n)]

    def one(i):
        src, markers, chain = progs[i]
        d = os.path.join(ctx.work, "p%d" % i)
        C.write_go_program(d, {"main.go": src}, module="verifc19")
        for minify in (False, True):
            check_build(ctx, d, src, markers, chain, minify, i)
        return i

    C.parallel_map(one, range(n))
    for i, (src, markers, chain) in enumerate(progs):
        ctx.count(["program", src], nontrivial=True)
    ctx.sample(dict(kind="program", source=progs[0][0], chain_lines=progs[0][2]))
    ctx.cov["programs"] = n * 2


# ---------------------------------------------------------------- the encoded map (VLQ codec)
UNI = ["", "a.go", "b.go", "/goroot/src/runtime/runtime.go", "dir with space/x.go", "\u00e9\u00e8.go", "\u4e16\u754c.go", "q\"uote\\.go",
       "<tag>&.go", "x", "y", "$init", "main.main", "\U0001F600"]


def gen_codec_case(r, idx):
    n = r.choice([0, 1, 2, 3, 5, 8, 13, 40]) if idx % 7 else r.randint(60, 200)
    files = r.sample(UNI[1:9], r.randint(1, 5))
    names = r.sample(UNI[9:], r.randint(1, 4))
    big = idx % 11 == 0
    ms = []
    for _ in range(n):
        gl = r.choice([1, 1, 2, 3, 3, 7, 50]) if not big else r.randint(1, 300)
        gc = r.choice([0, 1, 15, 16, 31, 32, 511, 512, 1023, 1024]) if r.random() < 0.5 else r.randint(0, (1 << 40) if big else 5000)
        kind = r.random()
        if kind < 0.2:        # no source: with probability 1/2 carrying stale original fields (the encoder must drop them)
            stale = r.random() < 0.5
            ms.append(dict(gl=gl, gc=gc, file="", ol=r.randint(0, 9) if stale else 0, oc=r.randint(0, 9) if stale else 0,
                           name=r.choice(names) if stale else ""))
        else:
            ms.append(dict(gl=gl, gc=gc, file=r.choice(files), ol=r.randint(1, (1 << 33) if big else 3000), oc=r.randint(0, (1 << 33) if big else 200),
                           name=r.choice(names) if kind < 0.5 else ""))
    return ms


def hx(s):
    return s.encode("utf-8").hex()


def coq_str(b):
    return "[" + ";".join("%d" % x for x in b) + "]%N"


def coq_mapping(m):
    return "{| m_gl := %d; m_gc := %d; m_file := %s; m_ol := %d; m_oc := %d; m_name := %s |}" % (
        m["gl"], m["gc"], coq_str(bytes.fromhex(m["file"])), m["ol"], m["oc"], coq_str(bytes.fromhex(m["name"])))


def canon_py(m):
    return dict(gl=m["gl"], gc=m["gc"], file="", ol=0, oc=0, name="") if m["file"] == "" else m


def codec(ctx):
    """the encoded map: the REAL writeVLQ/EncodeMappings/decodeMappings (github.com/neelance/sourcemap, as linked into gopherjs)
    vs an independent Python decoder (the property: what is written is what is read) vs the Coq model (Model/C19_Vlq.v)"""
    r = ctx.rng("codec")
    n = 260 if ctx.quick else 6000
    inputs = [gen_codec_case(r, i) for i in range(n)]
    h = os.path.join(C.BIN, "h_c19")
    rc, out, err = C.sh2([h], inp=json.dumps([dict(codec=[dict(m, file=hx(m["file"]), name=hx(m["name"])) for m in ms]) for ms in inputs]).encode(), timeout=1800)
    if rc != 0:
        raise C.BuildError("c19 harness (codec mode) failed: " + err[-500:])
    results = json.loads(out)
    mcases, origin = [], []
    dist = dict(lists=n, mappings=0, no_source=0, named=0, max_len=0, max_digits=0, from_filter=0, from_programs=0)

    def add_case(label, js, inp, dec, replay):
        """inp: the slice the real encoder wrote (as its sort left it), or None when the map was written by the Filter / the compiler -
        then the list read by the independent decoder stands for it"""
        m = json.loads(js)
        sources, names, got = srcmap.decode_obj(m)
        py = [dict(gl=e["gen_line"], gc=e["gen_col"], file=hx(sources[e["src"]]) if e["src"] is not None else "",
                   ol=e["line"] if e["src"] is not None else 0, oc=e["col"] if e["src"] is not None else 0,
                   name=hx(names[e["name"]]) if e["name"] is not None else "") for e in got]
        given = inp
        if inp is None:
            inp = py
        # the linked decoder loses a FINAL one-field segment (C19_codec_roundtrip_trailing_sourceless_refuted); GopherJS applies it
        # only to esbuild's maps, so this is tracked as an observation (counted below), not as a violation of C19
        trailing = bool(inp) and inp[-1]["file"] == ""
        dist["ends_sourceless"] = dist.get("ends_sourceless", 0) + trailing
        want = [canon_py(x) for x in inp]
        if trailing:
            want, py = want[:-1], py[:-1]
        # --- the property on the implementation, independently of the model
        bad = None
        allowed = set("ABCDEFGHIJKLMNOPQRSTUVWXYZabcdefghijklmnopqrstuvwxyz0123456789+/,;")
        if set(m["mappings"]) - allowed:
            bad = ("codec-foreign-character", "the mappings string contains a character outside the base64 alphabet and , ;")
        elif given is not None and want != dec:
            bad = ("codec-roundtrip-differs", "the real decoder does not read back what the real encoder was given")
        elif py != dec:
            bad = ("codec-independent-decoder-differs", "an independent source-map decoder reads something else from the emitted map")
        if bad:
            ctx.violation(bad[0], bad[1], dict(kind="codec", origin=label, srcmap=js[:4000], given=inp[:40], decoded=dec[:40], **replay))
        dist["max_digits"] = max([dist["max_digits"]] + [len(seg) for g in m["mappings"].split(";") for seg in g.split(",")])
        mcases.append("{| mc_str := %s; mc_srcs := [%s]; mc_names := [%s]; mc_input := [%s]; mc_decoded := [%s] |}" % (
            coq_str(m["mappings"].encode()), ";".join(coq_str(x.encode("utf-8")) for x in m["sources"]),
            ";".join(coq_str(x.encode("utf-8")) for x in m.get("names", [])),
            ";".join(coq_mapping(x) for x in inp), ";".join(coq_mapping(x) for x in dec)))
        origin.append((label, replay))

    for i, (ms, res) in enumerate(zip(inputs, results)):
        given = [dict(m, file=hx(m["file"]), name=hx(m["name"])) for m in ms]
        dist["mappings"] += len(ms); dist["max_len"] = max(dist["max_len"], len(ms))
        dist["no_source"] += sum(1 for m in ms if m["file"] == ""); dist["named"] += sum(1 for m in ms if m["name"])
        ctx.count(["codec", given], nontrivial=len(ms) >= 2)
        if res.get("panic") or res.get("dec_err"):
            ctx.violation("codec-real-code-failed", "sourcemap.Map.WriteTo / ReadFrom failed", dict(kind="codec", given=given, panic=res.get("panic"), dec_err=res.get("dec_err")))
            continue
        srt = res.get("sorted") or []
        key = lambda m: (m["gl"], m["gc"], m["file"], m["ol"], m["oc"], m["name"])
        if sorted(srt, key=key) != sorted(given, key=key) or any((a["gl"], a["gc"]) > (b["gl"], b["gc"]) for a, b in zip(srt, srt[1:])):
            ctx.violation("codec-sort-wrong", "the slice EncodeMappings wrote is not the given mappings ordered by generated position",
                          dict(kind="codec", given=given[:40], sorted=srt[:40]))
            continue
        add_case("codec-%d" % i, res["srcmap"], srt, res.get("decoded") or [], dict(codec_input=given[:60]))
        if i < 2:
            ctx.sample(dict(kind="codec", given=given[:6], mappings=json.loads(res["srcmap"])["mappings"][:120]))
    # maps written by the REAL Filter (default callbacks) for a fresh set of streams, and maps of compiled programs
    r2 = ctx.rng("codec-streams")
    scs = [c for c in (gen_case(r2, i) for i in range(60 if ctx.quick else 600)) if True]
    for c in scs:
        c["mapped"] = True
    rc, out, err = C.sh2([h], inp=json.dumps([dict(items=c["items"], chunks=[], callback=False, mapped=True) for c in scs]).encode(), timeout=1800)
    if rc != 0:
        raise C.BuildError("c19 harness failed: " + err[-500:])
    for i, (c, res) in enumerate(zip(scs, json.loads(out))):
        if res.get("srcmap") and not res.get("panic") and not res.get("dec_err"):
            dec = res.get("decoded") or []
            add_case("filter-%d" % i, res["srcmap"], None, dec, dict(items=c["items"]))
            dist["from_filter"] += 1
    pm = []
    for i in range(4 if ctx.quick else 40):
        for nm in ("out.js.map", "out_m.js.map"):
            p = os.path.join(ctx.work, "p%d" % i, nm)
            if os.path.exists(p):
                # a prefix of the compiler's own map (cut at a line boundary; tables cut to what the prefix uses): the model
                # evaluates maps of a few hundred segments in Coq, the full maps (prelude included) are checked by programs()
                mo = json.loads(open(p).read())
                mp = mo["mappings"]
                cut = mp.rfind(";", 0, 2500)
                if len(mp) > 2500 and cut > 0:
                    mo["mappings"] = mp[:cut].rstrip(";")
                    _s, _n, g0 = srcmap.decode_obj(mo)
                    us = max([e["src"] for e in g0 if e["src"] is not None] + [-1]) + 1
                    un = max([e["name"] for e in g0 if e["name"] is not None] + [-1]) + 1
                    mo["sources"] = mo["sources"][:us]; mo["names"] = mo.get("names", [])[:un]
                pm.append((p, json.dumps(mo)))
    if pm:
        rc, out, err = C.sh2([h], inp=json.dumps([dict(decode_js=js) for _, js in pm]).encode(), timeout=1800)
        if rc != 0:
            raise C.BuildError("c19 harness (decode mode) failed: " + err[-500:])
        for (p, js), res in zip(pm, json.loads(out)):
            if res.get("dec_err"):
                ctx.violation("codec-real-code-failed", "sourcemap.ReadFrom failed on an emitted map", dict(kind="codec", map_file=p, dec_err=res["dec_err"]))
                continue
            dec = res.get("decoded") or []
            add_case("program-map", js, None, dec, dict(map_file=os.path.relpath(p, ctx.work)))
            dist["from_programs"] += 1
    # --- the model on the same maps
    shard = 40
    shards = [mcases[i:i + shard] for i in range(0, len(mcases), shard)]

    def run_shard(k):
        p = os.path.join(ctx.work, "mcases_%d.v" % k)
        with open(p, "w") as f:
            f.write("From Coq Require Import List NArith ZArith.\nFrom Verif Require Import Model.C19_Vlq Corr.C19_Eval.\nImport ListNotations.\nLocal Open Scope Z_scope.\n")
            f.write("Definition cases : list mcase := [\n" + ";\n".join(shards[k]) + "].\n")
            f.write("Definition M := Eval vm_compute in mmismatches cases.\nPrint M.\n")
        rc, out = C.coq_run(p)
        m = re.search(r"M\s*=\s*(\[[^\]]*\])", out.replace("\n", " "))
        if rc != 0 or not m:
            return k, None, out[-800:]
        return k, [int(x.replace("%N", "")) for x in re.findall(r"\d+(?:%N)?", m.group(1))], ""

    mism = 0
    for k, idxs, err in C.parallel_map(run_shard, range(len(shards))):
        if idxs is None:
            ctx.violation("model-eval-failed", "Coq evaluation of the codec model failed", dict(shard=k, log=err), concrete=False)
            continue
        for i in idxs:
            label, replay = origin[k * shard + i]
            mism += 1
            ctx.violation("codec-model-mismatch", "model and sourcemap.EncodeMappings/decodeMappings disagree on a map (correspondence C19/codec broken)",
                          dict(kind="codec", origin=label, correspondence="Corr/C19_Eval.mmismatches vs github.com/neelance/sourcemap as linked by internal/sourcemapx", **replay),
                          concrete=False)
    dist["model_mismatches"] = mism
    dist["maps_evaluated_in_coq"] = len(mcases)
    ctx.cov["codec_distribution"] = dist


def correspond(ctx):
    streams(ctx)
    ctx.log("streams done")
    programs(ctx)
    ctx.log("programs done")
    codec(ctx)
    ctx.log("codec done")


def replay(ctx, data):
    rp = data["replay"]
    if rp.get("kind") == "stream":
        h = os.path.join(C.BIN, "h_c19")
        rc, out, err = C.sh2([h], inp=json.dumps([dict(items=rp["items"], chunks=rp["chunks"], callback=rp.get("callback", True))]).encode())
        print("implementation now:", out.strip())
        print("recorded:", json.dumps(rp.get("impl")))
        print("expected:", json.dumps(rp.get("expected")))
    elif rp.get("kind") == "program":
        d = os.path.join(ctx.work, "replay")
        C.write_go_program(d, {"main.go": rp["source"]}, module="verifc19")
        rc, log = C.gopherjs_build(d, minify=rp.get("minify", False))
        print(log)
        rc, out, err = C.sh2(["node", "--enable-source-maps", "out.js"], cwd=d)
        print(out, err)
    else:
        print(json.dumps(data, indent=1))
    return 0

TECHNIQUE = "Coq proof (induction over the item stream, all chunkings; induction over mapping lists for the VLQ/mappings codec) + differential correspondence with the real sourcemapx.Filter, the linked source-map encoder/decoder and compiled programs"
LEVEL_TEXT = ("Machine-checked theorems over an executable model of Hint.WriteTo/FindHint/ReadHint/Filter.Write: for every stream and every "
              "chunking that does not split a hint the output is the code with hints erased, contains no 0x08, and every mapping is the position "
              "where the following code starts, is in range and monotone; hint round trip for all payloads <= 65535 bytes. The model is tied to "
              "the code on every run by running both on the same generated streams/chunkings, and the program-level half (statement positions, "
              "stack frames through the emitted map, plain and minified) is checked on generated programs.")
LEVEL_NOTE = ("Proof is about the hand-written model; the tie to /repo is differential (1.7k streams quick / 33k thorough + compiled programs). "
              "The encoded map is covered by C19_vlq_roundtrip / C19_mappings_codec_roundtrip / _injective / _alphabet (every sorted mapping list, all of Z) and tied to the linked encoder/decoder on generated lists, the Filter's own maps and the maps of compiled programs. Not modelled: gob payload encoding, sort.Sort inside EncodeMappings, esbuild prelude maps, where the translator places hints "
              "(checked only through generated programs). No axioms.")
