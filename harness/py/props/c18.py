"""C18 — source files are selected by the documented build constraints.
Model: coq/Model/C18_Build.v; tables: coq/Gen/C18_BuildEnv.v (regenerated from the sources by
harness/py/c18_gen.py on every run); theorems: coq/Props/C18.v.

Correspondence:
 (0) the constants: what NewBuildContext really puts into go/build.Context (GOOS, GOARCH, Compiler,
     CgoEnabled, BuildTags, ToolTags, ReleaseTags; js/wasm after applyPreloadTweaks for a package
     found in GOROOT) is dumped by the overlay harness and compared (a) with the documented
     environment written down here from the property text and (b) with go_ctx/preload of the model
     over the regenerated tables.
 (1) generated package directories (random //go:build expressions and legacy // +build lines over
     the tag vocabulary, file-name suffix combinations, cgo files, documentation/test files,
     .inc.js, hidden files, foreign extensions, sub-directories) are imported with the REAL
     build.NewBuildContext("", tags).Import: as a user package (".", dir), as a package of a fake
     GOROOT (GOPHERJS_GOROOT) = standard-library package, from GOPATH with and without a dot in the
     first path element, and a GOROOT directory through a local import path.  GoFiles, TestGoFiles,
     XTestGoFiles, IgnoredGoFiles, JSFiles / NoGoError are compared with
       - the property predicate evaluated from scratch in Python (spec_select below), and
       - import_pkg of the Coq model on the same parsed directory.
 (2) some of the user directories are real programs: every file registers itself in init(); they are
     compiled by the real gopherjs with and without --tags and run in node; the run-time set of
     registered files (+ .inc.js markers) must equal the predicted set.
 (3)-(5) phase 4, see harness/py/c18_p4.py: constraint lines against the real go/build/constraint, package
     directories given as raw TEXT (placement variants, malformed headers) and the post-load tweaks /
     virtual (overlay) context against the real Import, each also against the model.
"""
import json, os, re, shutil, sys
import common as C
import c18_gen as G
import c18_p4 as P4

ID = "C18"
PROPS_FILE = "Props/C18.v"
MODEL_TARGETS = ["Corr/C18_Eval.v", "Corr/C18_P4_Eval.v"]
ALLOWED_AXIOMS = []
RULE = ("package directories of 2-11 entries: names = stem x suffix combination (none, _js, _wasm, _ecmascript, _linux, _js_wasm, "
        "_js_ecmascript, _linux_amd64, _wasm_js, unknown words, dotted stems) x optional _test x extension (.go mostly; .inc.js, .js, .s, "
        ".c, .txt, none), hidden prefixes, sub-directories; header = none | //go:build <random expression of depth <= 3> | 1-2 legacy "
        "// +build lines (attached or detached) | both; vocabulary {js, ecmascript, wasm, linux, gc, gopherjs, netgo, purego, "
        "math_big_pure_go, cgo, unix, go1.1, go1.18..go1.24, user tags, unknown tags, ignore, boringcrypto}; import \"C\" files, package "
        "documentation, external test packages; user tags = random subset of 0-4 tags (incl. tags that collide with OS/arch/release "
        "names); imported as user / std (fake GOROOT) / GOPATH / GOPATH with dotted path / GOROOT dir via local path; a few with $GOOS/"
        "$GOARCH set. non-trivial = at least one file whose selection depends on a constraint or a name suffix; distinct by full content. "
        "Phase 4: constraint LINES = 51 fixed corners + //go:build expressions of depth <= 4 printed with random blanks / redundant "
        "parentheses + legacy lines with random literals (!, !!, empty, a-b) + token soup (malformed); non-trivial = recognised as a "
        "constraint line. TEXT directories = the structured directories re-rendered with one of 15 header variants per file (plain, "
        "constraint after the package clause, inside /* */, after a block comment, duplicated //go:build, //+build, wrong keywords, CRLF, "
        "indentation, blank lines / comments between, malformed expression, leading doc block, no final newline) and 0-2 imports per "
        "file; plus directories under the import paths runtime, runtime/pprof, sync, syscall/js, sync/atomic, syscall, c18x/runtime, "
        "runtimex, Sync in the fake GOROOT (real context) and in a virtual file system (real embeddedCtx).")
TRUSTED = ["model of go/build's matchTag / goodOSArchFile / matchFile / shouldBuild / Import loop and of build/context.go, incjs/file.go "
           "written by hand (coq/Model/C18_Build.v), tied by this correspondence",
           "model of go/build/constraint (lexer, parser, Expr.String, parsePlusBuildExpr, PlusBuildLines) and of go/build's "
           "parseFileHeader / shouldBuild on text (coq/Model/C18_Constraint.v), of applyPostloadTweaks / updateImports / exclude / the "
           "file choice of parseOverlayFiles (coq/Model/C18_Text.v) written by hand; tied on every run to the real go/build/constraint, to "
           "the real NewBuildContext(..).Import and to the real embeddedCtx on generated lines / texts (valid and malformed). Restricted "
           "to ASCII (go/build accepts any Unicode letter or digit in a tag) and without the size limits of Go 1.23 (1000 operands per "
           "//go:build line, 100 operators per +build line); error TEXTS are projected to 'error'",
           "go/build's readGoInfo (package clause, import scanning, //go:embed) and directory reading: not modelled, the package kind, "
           "the use of cgo and the import list of a file are handed to the model already parsed; overlay_names (which natives files "
           "augment a package) is modelled but only its inputs (the virtual context's selection) are compared, parseOverlayFiles itself "
           "needs the embedded natives",
           "harness/py/c18_gen.py (regex extraction of the constants from build/context.go, versionhack.go, version_check.go, "
           "incjs/file.go, README.md, GOROOT/src/go/build/{syslist,build}.go); cross-checked on every run against the dumped real context",
           "harness/go/repo_overlay/compiler/verifharness/c18 + build/export_c18_verif.go",
           "`go list` based package lookup (module mode) is not exercised: GO111MODULE=off, local and GOROOT/GOPATH lookups only"]
ASSUMPTIONS = ["the Go toolchain that compiles gopherjs is at least Go 1.N (N = compiler.GoVersion), as enforced by the //go:build go1.N "
               "line of compiler/version_check.go; otherwise the ReleaseTags slice expression panics",
               "GOOS / GOARCH are not set in the environment of the gopherjs process (theorems about the documented default); the model "
               "and the correspondence also cover the override",
               "package clauses are consistent (no MultiplePackageError), `package x_test` only in _test.go files"]

# ---- the documented environment, written from the property text (NOT from the sources) ------------
DOC_GOOS, DOC_GOARCH = "js", "ecmascript"
DOC_STD_GOOS, DOC_STD_GOARCH = "js", "wasm"
DOC_COMPILER = "gc"
DOC_ALWAYS = ["gopherjs", "netgo", "purego", "math_big_pure_go"]
# file-name rule of `go help buildconstraint`: known GOOS / GOARCH values of Go 1.23 (go/build/syslist.go)
DOC_KNOWN_OS = ("aix android darwin dragonfly freebsd hurd illumos ios js linux nacl netbsd openbsd plan9 solaris wasip1 windows zos").split()
DOC_KNOWN_ARCH = ("386 amd64 amd64p32 arm armbe arm64 arm64be loong64 mips mipsle mips64 mips64le mips64p32 mips64p32le ppc ppc64 "
                  "ppc64le riscv riscv64 s390 s390x sparc sparc64 wasm").split()

STATE = {}


def doc_minor():
    """the supported Go release as documented: README.md (independent of compiler.GoVersion)"""
    readme = open(os.path.join(C.REPO, "README.md")).read()
    ms = set(re.findall(r"contains a Go 1\.(\d+) distribution", readme)) | set(re.findall(r"requires Go 1\.(\d+) or newer", readme))
    return int(sorted(ms)[0]) if ms else 20


def fallback_tables():
    """used only when the extraction fails: the documented values, so that the model still runs"""
    n = doc_minor()
    return dict(default_goos=DOC_GOOS, default_goarch=DOC_GOARCH, std_goos=DOC_STD_GOOS, std_goarch=DOC_STD_GOARCH, compiler=DOC_COMPILER,
                cgo_enabled=False, default_build_tags=["netgo", "purego", "math_big_pure_go", "gopherjs"], user_tags_used=True,
                default_tags_used=True, go_version=n, release_truncated=True, hack_truncated=True, release_lo=0, release_hi=n, hack_lo=0, hack_hi=n, guard_minor=n,
                version_string="?+go1.%d" % n, doc_version_minor=n, doc_readme_minor=n,
                gopherjs_paths=["github.com/gopherjs/gopherjs/js", "github.com/gopherjs/gopherjs/nosync"], incjs_ext=".inc.js",
                incjs_hidden=["_", "."], known_os=DOC_KNOWN_OS, known_arch=DOC_KNOWN_ARCH,
                unix_os="aix android darwin dragonfly freebsd hurd illumos ios linux netbsd openbsd solaris".split(),
                other_exts=".c .cc .cpp .cxx .m .h .hh .hpp .hxx .f .F .for .f90 .s .S .sx .swig .swigcxx .syso".split(), toolchain_minor=0)


def prepare(ctx):
    C.ensure_go_harness("c18")
    C.ensure_gopherjs()
    STATE["extract_error"] = None
    try:
        T = G.extract(C.REPO)
    except (G.ExtractError, OSError, ValueError) as e:
        STATE["extract_error"] = "%s: %s" % (type(e).__name__, e)
        ctx.log("TABLE EXTRACTION FAILED: %s — falling back to the documented constants" % STATE["extract_error"])
        T = fallback_tables()
    STATE["tables"] = T
    C.write_if_changed(os.path.join(C.COQ, "Gen", "C18_BuildEnv.v"), G.render(T))
    STATE["post_error"] = None
    try:
        post = G.extract_post(C.REPO)
    except (G.ExtractError, OSError, ValueError) as e:
        STATE["post_error"] = "%s: %s" % (type(e).__name__, e)
        ctx.log("POST-TWEAK TABLE EXTRACTION FAILED: %s — falling back to the documented table" % STATE["post_error"])
        post = G.fallback_post()
    STATE["post_tweaks"] = post
    C.write_if_changed(os.path.join(C.COQ, "Gen", "C18_PostTweaks.v"), G.render_post(post))


# ---------------------------------------------------------------- generators

USER_POOL = ["foo", "bar", "baz", "mytag", "linux", "wasm", "cgo", "go1.22", "go1.21", "ignore", "boringcrypto", "goexperiment.boringcrypto",
             "js", "unix", "gopherjs", "amd64", "ecmascript", "windows", "go1.99"]
PROG_POOL = ["foo", "bar", "baz", "mytag", "boringcrypto", "go1.99", "c18only"]   # not `ignore`: GOROOT has //go:build ignore files
VOCAB = (["js", "ecmascript", "wasm", "linux", "gc", "gopherjs", "netgo", "purego", "math_big_pure_go", "cgo"] * 3 +
         ["go1.%d" % k for k in range(18, 25)] * 2 + ["go1.1", "go1.0", "go1.17", "go1.25", "go1.99"] +
         ["foo", "bar", "baz", "mytag"] * 3 + ["nope", "windows", "amd64", "gccgo", "darwin", "android", "solaris", "arm64"] +
         ["unix", "ignore", "boringcrypto", "goexperiment.boringcrypto", "osusergo", "js", "wasm", "ecmascript"])
STEMS = ["a", "b", "foo", "x_y", "js", "linux", "wasm", "zz", "m.x", "impl", "a_b_c", "ecmascript", "p9", "go", "test", "x_test", "amd64"]
SUFFIXES = (["", "", "", "_js", "_js", "_wasm", "_wasm", "_ecmascript", "_linux", "_js_wasm", "_js_ecmascript", "_linux_amd64", "_wasm_js",
             "_amd64", "_unknown", "_js_foo", "_foo_js", "_windows", "_js_wasm_extra", "_linux_wasm", "_js_amd64", "_unix", "_gopherjs",
             "_cgo", "_android", "_ios_arm64", "_darwin", "_solaris", "_", "__js", "_js_", "_JS", "_wasip1_wasm", "_go1.20"])
EXTS = [".go"] * 14 + [".inc.js"] * 3 + [".js", ".s", ".c", ".h", ".txt", "", ".go.txt", ".inc.js.go", ".GO", ".syso"]


def gen_expr(r, depth):
    if depth <= 0 or r.random() < 0.3:
        return ("tag", r.choice(VOCAB))
    k = r.random()
    if k < 0.25:
        x = gen_expr(r, depth - 1)
        return x[1] if x[0] == "not" else ("not", x)     # `!!x` is a syntax error in //go:build lines
    if k < 0.65:
        return ("and", gen_expr(r, depth - 1), gen_expr(r, depth - 1))
    return ("or", gen_expr(r, depth - 1), gen_expr(r, depth - 1))


def expr_go(e):
    if e[0] == "tag":
        return e[1]
    if e[0] == "not":
        return "!" + (expr_go(e[1]) if e[1][0] in ("tag", "not") else "(" + expr_go(e[1]) + ")")
    op = " && " if e[0] == "and" else " || "
    return "(" + expr_go(e[1]) + op + expr_go(e[2]) + ")"


def cs(s):
    return '"' + s.replace('"', '""') + '"'


def expr_coq(e):
    if e[0] == "tag":
        return "Tag " + cs(e[1])
    if e[0] == "not":
        return "Not (%s)" % expr_coq(e[1])
    return "%s (%s) (%s)" % ("And" if e[0] == "and" else "Or", expr_coq(e[1]), expr_coq(e[2]))


def expr_tags(e):
    return [e[1]] if e[0] == "tag" else [t for x in e[1:] for t in expr_tags(x)]


def gen_pline(r):
    if r.random() < 0.06:
        return []
    return [[(r.random() < 0.3, r.choice(VOCAB)) for _ in range(r.choice([1, 1, 2, 3]))] for _ in range(r.choice([1, 1, 2, 3]))]


def pline_go(l):
    return "// +build" + "".join(" " + ",".join(("!" if n else "") + t for n, t in opt) for opt in l)


def gen_file(r, name, prog):
    f = dict(name=name, dir=False, gobuild=None, plus=[], detached=True, pkg="same", cgo=False, lead=r.random() < 0.3)
    k = r.random()
    if k < 0.40:
        f["gobuild"] = gen_expr(r, r.choice([0, 1, 2, 2, 3]))
        if r.random() < 0.25:                     # legacy lines next to //go:build: the //go:build line controls
            f["plus"] = [gen_pline(r) for _ in range(r.choice([1, 2]))]
    elif k < 0.65:
        f["plus"] = [gen_pline(r) for _ in range(r.choice([1, 1, 2]))]
        f["detached"] = r.random() < 0.8
        if not f["detached"]:
            f["lead"] = False
    if name.endswith(".go"):
        k = r.random()
        if k < 0.12:
            f["cgo"] = (not name.endswith("_test.go")) or r.random() < 0.15
        elif k < 0.18:
            f["pkg"] = "doc"
        elif k < 0.5 and name.endswith("_test.go"):
            f["pkg"] = "xtest"
    return f


def render_file(f, prog):
    if f["dir"]:
        return ""
    if not f["name"].endswith(".go") and not f["name"].endswith((".s", ".c", ".h")):
        if f["name"].endswith(".inc.js"):
            head = "".join(["//go:build %s\n" % expr_go(f["gobuild"])] if f["gobuild"] else []) + "".join(pline_go(l) + "\n" for l in f["plus"])
            return head + "\n" + ('console.log("INCJS %s");\n' % f["name"] if prog else "// nothing\n")
        return "text\n"
    L = []
    if f["lead"]:
        L += ["// Copyright, a leading comment.", ""]
    if f["gobuild"] is not None:
        L.append("//go:build " + expr_go(f["gobuild"]))
    L += [pline_go(l) for l in f["plus"]]
    if (f["gobuild"] is not None or f["plus"]) and f["detached"]:
        L.append("")
    if not f["name"].endswith(".go"):
        return "\n".join(L) + "\n"
    base = "main" if prog else "p"
    L.append("package " + {"same": base, "doc": "documentation", "xtest": base + "_test"}[f["pkg"]])
    if f["cgo"]:
        L += ["", 'import "C"']
    if prog and f["pkg"] == "same" and not f["name"].endswith("_test.go"):
        L += ["", "func init() { register(%s) }" % json.dumps(f["name"])]
    return "\n".join(L) + "\n"


def file_coq(f):
    plus = "[" + "; ".join("[" + "; ".join("[" + "; ".join("(%s, %s)" % ("true" if n else "false", cs(t)) for n, t in opt) + "]" for opt in l) + "]"
                           for l in f["plus"]) + "]"
    return ("{| f_name := %s; f_isdir := %s; f_gobuild := %s; f_plus := %s; f_detached := %s; f_pkg := %s; f_cgo := %s |}" % (
        cs(f["name"]), "true" if f["dir"] else "false",
        "Some (%s)" % expr_coq(f["gobuild"]) if f["gobuild"] is not None else "None", plus,
        "true" if f["detached"] else "false", {"same": "PkgSame", "doc": "PkgDoc", "xtest": "PkgXTest"}[f["pkg"]],
        "true" if f["cgo"] else "false"))


def gen_name(r, prog):
    stem = r.choice(STEMS)
    if r.random() < 0.08:
        stem = r.choice(["_", "."]) + stem
    name = stem + r.choice(SUFFIXES) + ("_test" if r.random() < 0.15 else "")
    ext = r.choice(EXTS)
    if prog and ext in (".s", ".c", ".h", ".syso"):
        ext = ".go"
    return name + ext


def gen_case(r, idx, kind=None, prog=False):
    if kind is None:
        kind = r.choice(["user"] * 12 + ["std"] * 4 + ["gopath", "gopathdot", "stdlocal"])
    ntags = r.choice([0, 0, 0, 1, 1, 2, 2, 3, 4])
    # programs are really compiled together with the standard library: only user tags no std file mentions
    tags = r.sample(PROG_POOL if prog else USER_POOL, ntags)
    goos = goarch = ""
    if not prog and r.random() < 0.10:
        goos = r.choice(["linux", "linux", "android", "ios", "illumos", "darwin", "js", "windows"])
    if not prog and r.random() < 0.06:
        goarch = r.choice(["wasm", "amd64", "js", "ecmascript"])
    files, seen = [], set()
    n = r.randint(1, 10)
    while len(files) < n:
        name = gen_name(r, prog)
        if name in seen or name in (".", "..") or (prog and name == "main.go"):
            continue
        seen.add(name)
        f = gen_file(r, name, prog)
        if r.random() < 0.04 and not prog:
            f = dict(f, dir=True)
        # directory entries that are symbolic links (to a regular file; to a directory unless the name ends in .inc.js,
        # where incjs.FromDir would try to read the directory)
        if r.random() < 0.10 and not (f["dir"] and name.endswith(".inc.js")):
            f = dict(f, link=True)
        files.append(f)
    if prog:
        files.append(dict(name="main.go", dir=False, gobuild=None, plus=[], detached=True, pkg="same", cgo=False, lead=False, main=True))
    elif r.random() < 0.85 and "zz_anchor.go" not in seen:
        files.append(dict(name="zz_anchor.go", dir=False, gobuild=None, plus=[], detached=True, pkg="same", cgo=False, lead=False))
    files.sort(key=lambda f: f["name"].encode())
    return dict(id="p%d" % idx, kind=kind, tags=tags, goos=goos, goarch=goarch, files=files, prog=prog)


def plain_file(name, gobuild=None, plus=None):
    return dict(name=name, dir=False, gobuild=gobuild, plus=plus or [], detached=True, pkg="same", cgo=False, lead=False)


def corpus():
    """fixed cases first: minimal witnesses of recorded findings and hand-picked corners"""
    main = dict(plain_file("main.go"), main=True)
    bc = [plain_file("a.go"), plain_file("bc.go", gobuild=("tag", "boringcrypto")),
          plain_file("bd.go", plus=[[[(False, "boringcrypto")]]]), plain_file("be.go", gobuild=("tag", "goexperiment.boringcrypto"))]
    corner = [plain_file("a.go"), plain_file("js_wasm.go"), plain_file("linux.go"), plain_file("m.x_linux.go"), plain_file("x_js_wasm_test.go"),
              plain_file("x_ecmascript.go"), plain_file("x_wasm.go"), plain_file("y.go", gobuild=("and", ("tag", "js"), ("tag", "ecmascript"))),
              plain_file("z.go", gobuild=("and", ("tag", "js"), ("tag", "wasm"))), plain_file("k_linux.inc.js", gobuild=("tag", "ignore")),
              plain_file("_h.inc.js"), dict(plain_file("c.go"), cgo=True), dict(plain_file("r.go", gobuild=("tag", "cgo")))]
    mk = lambda i, kind, tags, fs, prog=False: dict(id="c%d" % i, kind=kind, tags=tags, goos="", goarch="",
                                                    files=sorted(fs, key=lambda f: f["name"].encode()), prog=prog)
    dirs = [mk(0, "user", ["boringcrypto"], bc), mk(1, "std", ["boringcrypto"], bc), mk(2, "user", ["goexperiment.boringcrypto"], bc),
            mk(3, "user", [], corner), mk(4, "std", [], corner), mk(5, "user", ["cgo", "linux"], corner), mk(6, "stdlocal", [], corner),
            mk(7, "gopath", [], corner), mk(8, "gopathdot", [], corner)]
    progs = [mk(9, "user", ["boringcrypto"], [main] + [dict(f) for f in bc], prog=True)]
    return dirs, progs


def gen_systematic(start, quick=False):
    """exhaustive small domains: every pair of name elements from a word list (with and without _test), and every
    vocabulary tag alone / negated in both syntaxes; user and std packages, three user tag sets"""
    words = ["js", "wasm", "ecmascript", "linux", "amd64", "android", "foo", "test", "gopherjs", "unix", "go1"]
    names = []
    for a in [None] + words:
        for b in [None] + words:
            for t in ("", "_test"):
                names.append("x" + ("_" + a if a else "") + ("_" + b if b else "") + t + ".go")
    names = sorted(set(names))
    files = [plain_file(n) for n in names]
    vocab = sorted(set(VOCAB))
    for i, t in enumerate(vocab):
        files.append(plain_file("t%03da.go" % i, gobuild=("tag", t)))
        files.append(plain_file("t%03db.go" % i, gobuild=("not", ("tag", t))))
        files.append(plain_file("t%03dc.go" % i, plus=[[[(False, t)]]]))
        files.append(plain_file("t%03dd.go" % i, plus=[[[(True, t)]]]))
    cases, k = [], start
    for kind in ("user", "std"):
        for tags in ([], ["wasm", "amd64", "go1.22", "unix", "cgo", "linux", "foo"]) if quick else ([], ["linux", "foo"], ["wasm", "amd64", "go1.22", "unix", "cgo"]):
            for i in range(0, len(files), 12):
                fs = sorted(files[i:i + 12], key=lambda f: f["name"].encode())
                cases.append(dict(id="s%d" % k, kind=kind, tags=tags, goos="", goarch="", files=fs, prog=False))
                k += 1
    return cases


MAIN_GO = """package main

var reg []string

func register(s string) { reg = append(reg, s) }

func main() {
	for _, s := range reg {
		println("REG " + s)
	}
	println("DONE")
}
"""


def case_json(c):
    fs = []
    for f in c["files"]:
        fs.append(dict(name=f["name"], dir=f["dir"], link=bool(f.get("link")), content=MAIN_GO if f.get("main") else render_file(f, c["prog"])))
    return dict(id=c["id"], kind=c["kind"], tags=c["tags"], goos=c["goos"], goarch=c["goarch"], files=fs)


# ---------------------------------------------------------------- the property, from scratch

DOC_UNIX = "aix android darwin dragonfly freebsd hurd illumos ios linux netbsd openbsd solaris".split()
DOC_IMPLIED = dict(android="linux", illumos="solaris", ios="darwin")      # go help buildconstraint


def spec_os_arch(c):
    """(GOOS, GOARCH) a package is matched against: js/wasm for the standard library whatever the process environment
    says; for other packages $GOOS / $GOARCH when set (legacy mode documented in DefaultEnv / README), else js/ecmascript"""
    if c["kind"] == "std":
        return DOC_STD_GOOS, DOC_STD_GOARCH
    return c["goos"] or DOC_GOOS, c["goarch"] or DOC_GOARCH


def spec_tags(c, n_doc):
    """the set of satisfied tags according to the property text"""
    goos, goarch = spec_os_arch(c)
    s = {goos, goarch}
    if goos in DOC_IMPLIED:
        s.add(DOC_IMPLIED[goos])
    if goos in DOC_UNIX:
        s.add("unix")
    s |= {DOC_COMPILER} | set(DOC_ALWAYS) | {"go1.%d" % k for k in range(1, n_doc + 1)} | set(c["tags"])
    return s


def spec_eval(e, sat):
    if e[0] == "tag":
        return e[1] in sat
    if e[0] == "not":
        return not spec_eval(e[1], sat)
    if e[0] == "and":
        return spec_eval(e[1], sat) and spec_eval(e[2], sat)
    return spec_eval(e[1], sat) or spec_eval(e[2], sat)


def spec_name_tags(name):
    """file-name rule: after stripping everything from the first dot and one trailing _test, a name
    of the form *_GOOS_GOARCH, *_GOOS or *_GOARCH (known values only) is constrained by them"""
    base = name.split(".", 1)[0]
    if base.endswith("_test"):
        base = base[:-5]
    osre, archre = "|".join(map(re.escape, DOC_KNOWN_OS)), "|".join(map(re.escape, DOC_KNOWN_ARCH))
    m = re.search(r"_(%s)_(%s)$" % (osre, archre), base)
    if m:
        return [m.group(1), m.group(2)]
    m = re.search(r"_(%s|%s)$" % (osre, archre), base)
    return [m.group(1)] if m else []


def spec_constraint(f, sat):
    if f["gobuild"] is not None:
        return spec_eval(f["gobuild"], sat)
    if not f["detached"]:
        return True            # a +build block glued to the package clause is an ordinary comment
    for l in f["plus"]:
        if not l:
            if "ignore" not in sat:
                return False
        elif not any(all((t in sat) != n for n, t in opt) for opt in l):
            return False
    return True


def spec_select(c, n_doc, sat=None):
    """(gofiles, jsfiles) predicted by the property text, None when nothing Go is selected"""
    sat = spec_tags(c, n_doc) if sat is None else sat
    go, anygo = [], False
    for f in c["files"]:
        n = f["name"]
        if f["dir"] or n[0] in "_." or not n.endswith(".go"):
            continue
        if not all(t in sat for t in spec_name_tags(n)) or not spec_constraint(f, sat) or f["pkg"] == "doc" or f["cgo"]:
            continue
        anygo = True
        if not n.endswith("_test.go"):
            go.append(n)
    js = [f["name"] for f in c["files"] if not f["dir"] and f["name"].endswith(".inc.js") and f["name"][0] not in "_."]
    return go, js, anygo


def mentioned(f):
    ts = list(spec_name_tags(f["name"]))
    if f["gobuild"] is not None:
        ts += expr_tags(f["gobuild"])
    else:
        for l in f["plus"]:
            ts += [t for opt in l for _, t in opt] if l else ["ignore"]
    return ts


def classify_discrepancy(c, n_doc, got_go, exp_go, res=None):
    """a precise signature: which tag's truth value explains the difference.  Tags whose truth differs between the
    dumped real context and the documented environment are tried first."""
    sat = spec_tags(c, n_doc)
    diff = sorted(set(got_go) ^ set(exp_go))
    f = next(x for x in c["files"] if x["name"] == diff[0])
    scope = ("std" if c["kind"] == "std" else "user") + ("-env-set" if c["goos"] or c["goarch"] else "")
    cands = sorted(set(mentioned(f)))
    if res is not None and res.get("preload", {}).get("compiler"):
        p = res["preload"]
        real = {p["goos"], p["goarch"], p["compiler"]} | set(p["build_tags"]) | set(p["release_tags"]) | set(p["tool_tags"])
        cands = [t for t in cands if (t in real) != (t in sat)] + [t for t in cands if (t in real) == (t in sat)]
    for t in cands:
        flipped = (sat - {t}) if t in sat else (sat | {t})
        go2, _, _ = spec_select(dict(c, files=[f]), n_doc, flipped)
        if (f["name"] in go2) == (f["name"] in got_go):
            if t == "boringcrypto" and ("boringcrypto" in c["tags"] or "goexperiment.boringcrypto" in c["tags"]):
                return "user-tag-boringcrypto-alias", f, t
            kind = ("release-tag" if re.fullmatch(r"go1\.\d+", t) and t not in c["tags"] else
                    "user-tag" if t in c["tags"] else "tag")
            return "%s-%s%s-%s" % (scope, kind, "" if kind == "user-tag" else "-" + t,
                                    "unexpectedly-" + ("satisfied" if t not in sat else "unsatisfied")), f, t
    if f["cgo"]:
        return scope + "-cgo-file-selected", f, None
    return scope + "-file-selection-differs", f, None


# ---------------------------------------------------------------- running

def run_harness(ctx, cases, tag):
    root = os.path.join(ctx.work, "root_" + tag)
    os.makedirs(os.path.join(root, "goroot", "src"), exist_ok=True)
    os.makedirs(os.path.join(root, "gopath", "src"), exist_ok=True)
    env = C.goenv()
    env.update(GOPHERJS_GOROOT=os.path.join(root, "goroot"), GOPATH=os.path.join(root, "gopath"), GO111MODULE="off")
    env.pop("GOOS", None); env.pop("GOARCH", None); env.pop("GOFLAGS", None)
    rc, out, err = C.sh2([os.path.join(C.BIN, "h_c18")], env=env, timeout=900,
                         inp=json.dumps(dict(root=root, cases=[case_json(c) for c in cases])).encode())
    if rc == 124:
        return None, root            # infrastructure (machine load): the caller skips this group
    if rc != 0:
        raise C.BuildError("c18 harness failed: " + err[-800:])
    return json.loads(out), root


def result_coq(res):
    if res["err"] == "nogo":
        return "RNoGo"
    if res["err"].startswith("other:") and "use of cgo in test" in res["err"]:
        return "RBad"
    if res["err"]:
        return None
    sl = lambda xs: "[" + "; ".join(cs(x) for x in (xs or [])) + "]"
    return "ROk %s %s %s %s %s" % (sl(res["go"]), sl(res["test"]), sl(res["xtest"]), sl(res["ignored"]), sl(res["js"]))


def cfg_coq(c, toolchain):
    return "{| c_env_goos := %s; c_env_goarch := %s; c_user_tags := [%s]; c_toolchain := %d |}" % (
        cs(c["goos"]), cs(c["goarch"]), "; ".join(cs(t) for t in c["tags"]), toolchain)


IMPORT_PATH = dict(user=lambda i: ".", stdlocal=lambda i: ".", std=lambda i: "c18std/" + i, gopath=lambda i: "c18gp/" + i,
                   gopathdot=lambda i: "c18.dot/" + i)
IN_GOROOT = dict(user=False, stdlocal=True, std=True, gopath=False, gopathdot=False)

PRELUDE = ("From Coq Require Import List String.\nFrom Verif Require Import Gen.C18_BuildEnv Model.C18_Build Corr.C18_Eval.\n"
           "Import ListNotations.\nLocal Open Scope string_scope.\n")


def coq_eval_list(path, body, name="M"):
    with open(path, "w") as f:
        f.write(PRELUDE + body + "Definition %s := Eval vm_compute in %s.\nPrint %s.\n" % (name, "R", name))
    rc, out = C.coq_run(path)
    m = re.search(name + r"\s*=\s*(\[[^\]]*\])", out.replace("\n", " "))
    if rc == 124 or "[timeout after" in out or "Out of memory" in out:
        return None, "TIMEOUT"
    if rc != 0 or not m:
        return None, out[-800:]
    return [int(x) for x in re.findall(r"\d+", m.group(1))], ""


def check_context(ctx, cases, out, n_doc):
    """(0): the dumped real contexts against the documented environment and against the model"""
    T = STATE["tables"]
    toolchain = len(out["default_release_tags"])
    seen, xcases, xmeta = set(), [], []
    for c, res in zip(cases, out["results"]):
        key = (tuple(c["tags"]), c["goos"], c["goarch"], c["kind"])
        if key in seen or not res["primary"]["compiler"]:
            continue
        seen.add(key)
        pre, pri, sec = res["preload"], res["primary"], res["secondary"]
        rep = dict(kind="context", tags=c["tags"], goos=c["goos"], goarch=c["goarch"], pkg_kind=c["kind"], impl=pre)
        # --- (a) documented environment
        if True:
            std = c["kind"] == "std"
            want_os, want_arch = spec_os_arch(c)
            if (pre["goos"], pre["goarch"]) != (want_os, want_arch):
                ctx.violation("context-%s-goos-goarch%s" % ("std" if std else "user", "-with-env-set" if c["goos"] or c["goarch"] else ""),
                              "%s packages are loaded with GOOS=%s GOARCH=%s, documented %s/%s (process environment GOOS=%r GOARCH=%r)" % (
                                  "standard-library" if std else "user", pre["goos"], pre["goarch"], want_os, want_arch, c["goos"], c["goarch"]),
                              dict(rep, expected=dict(goos=want_os, goarch=want_arch)))
            if pre["compiler"] != DOC_COMPILER:
                ctx.violation("context-compiler", "compiler tag is %r, documented gc" % pre["compiler"], rep)
            if pre["cgo"]:
                ctx.violation("context-cgo-enabled", "CgoEnabled is true: cgo files would be used", rep)
            if pre["use_all_files"]:
                ctx.violation("context-use-all-files", "UseAllFiles is set: constraints are not applied", rep)
            if sorted(pre["build_tags"]) != sorted(c["tags"] + DOC_ALWAYS):
                miss = sorted(set(c["tags"] + DOC_ALWAYS) - set(pre["build_tags"]))
                extra = sorted(set(pre["build_tags"]) - set(c["tags"] + DOC_ALWAYS))
                sig = ("context-build-tags" + "".join("-missing-" + t for t in miss if t in DOC_ALWAYS) +
                       ("-user-tags-missing" if any(t not in DOC_ALWAYS for t in miss) else "") + "".join("-extra-" + t for t in extra[:3]))
                ctx.violation(sig, "BuildTags are %r; documented: the user tags %r plus %r" % (pre["build_tags"], c["tags"], DOC_ALWAYS),
                              dict(rep, missing=miss, extra=extra))
            if pre["tool_tags"]:
                ctx.violation("context-tool-tags", "unexpected tool tags %r" % pre["tool_tags"], rep)
            want_rel = ["go1.%d" % k for k in range(1, n_doc + 1)]
            if pre["release_tags"] != want_rel:
                last = pre["release_tags"][-1] if pre["release_tags"] else "none"
                ctx.violation("context-release-tags-end-at-%s-documented-go1.%d" % (last, n_doc),
                              "release tags are %s..%s (%d), documented go1.1..go1.%d" % (
                                  pre["release_tags"][:1], last, len(pre["release_tags"]), n_doc), dict(rep, expected=want_rel))
        for k in ("compiler", "cgo", "build_tags", "tool_tags", "release_tags"):
            if pri[k] != sec[k]:
                ctx.violation("context-embedded-differs-" + k, "the embedded gopherjs context differs from the primary one in " + k,
                              dict(rep, primary=pri, secondary=sec))
        # --- (b) the model over the regenerated tables
        sl = lambda xs: "[" + "; ".join(cs(x) for x in xs) + "]"
        xcases.append("{| x_cfg := %s; x_std := %s; x_expect := {| e_goos := %s; e_goarch := %s; e_compiler := %s; e_cgo := %s; "
                      "e_build_tags := %s; e_tool_tags := %s; e_release_tags := %s |} |}" % (
                          cfg_coq(c, toolchain), "true" if c["kind"] == "std" else "false", cs(pre["goos"]), cs(pre["goarch"]),
                          cs(pre["compiler"]), "true" if pre["cgo"] else "false", sl(pre["build_tags"]), sl(pre["tool_tags"]),
                          sl(pre["release_tags"])))
        xmeta.append(rep)
    idxs, err = coq_eval_list(os.path.join(ctx.work, "ctxcases.v"),
                              "Definition cases : list ctxcase := [\n" + ";\n".join(xcases) + "].\nDefinition R := ctx_mismatches cases.\n")
    if idxs is None and err == "TIMEOUT":
        ctx.notes.append("evaluation of the context cases timed out (machine load): skipped")
    elif idxs is None:
        ctx.violation("model-eval-failed", "Coq evaluation of the context cases failed", dict(log=err), concrete=False)
    else:
        for i in idxs[:3]:
            ctx.violation("context-model-mismatch", "go_ctx/preload over the regenerated tables differ from the real go/build.Context "
                          "(table extraction or model no longer matches build/context.go)", dict(xmeta[i], tables=T), concrete=False)
    # static: what go/build thinks the default release tags are (versionhack) must be the context's
    ctx.cov["contexts_checked"] = len(xcases)
    ctx.cov["toolchain_minor"] = toolchain
    return toolchain


def check_dirs(ctx, cases, out, n_doc, toolchain):
    dist = dict(kinds={}, files=0, gobuild=0, plus=0, attached=0, cgo=0, incjs=0, hidden=0, dirs=0, with_user_tags=0, env_override=0,
                nogo=0, bad=0, name_constrained=0, selected=0, rejected=0)
    vcases, vmeta = [], []
    for c, res in zip(cases, out["results"]):
        dist["kinds"][c["kind"]] = dist["kinds"].get(c["kind"], 0) + 1
        dist["files"] += len(c["files"])
        dist["with_user_tags"] += bool(c["tags"])
        dist["env_override"] += bool(c["goos"] or c["goarch"])
        nontriv = False
        for f in c["files"]:
            dist["gobuild"] += f["gobuild"] is not None
            dist["plus"] += bool(f["plus"]) and f["gobuild"] is None
            dist["attached"] += not f["detached"]
            dist["cgo"] += f["cgo"]
            dist["incjs"] += f["name"].endswith(".inc.js")
            dist["hidden"] += f["name"][0] in "_."
            dist["dirs"] += f["dir"]
            dist["symlinks"] = dist.get("symlinks", 0) + bool(f.get("link"))
            nc = bool(spec_name_tags(f["name"])) and f["name"].endswith(".go")
            dist["name_constrained"] += nc
            nontriv = nontriv or nc or (f["name"].endswith(".go") and (f["gobuild"] is not None or f["plus"]))
        ctx.count([c["kind"], c["tags"], c["goos"], c["goarch"], [(f["name"], f["dir"], repr(f["gobuild"]), repr(f["plus"]), f["detached"],
                                                                    f["pkg"], f["cgo"], bool(f.get("link"))) for f in c["files"]]], nontrivial=nontriv)
        rep = dict(kind="dir", case=case_json(c), parsed=[dict(f, gobuild=expr_go(f["gobuild"]) if f["gobuild"] else None) for f in c["files"]],
                   impl=dict(err=res["err"], go=res["go"], test=res["test"], xtest=res["xtest"], ignored=res["ignored"], js=res["js"]))
        exp = result_coq(res)
        if exp is None:
            ctx.violation("import-error", "the real Import failed unexpectedly: " + res["err"][:200], rep, concrete=False)
            continue
        dist["nogo"] += res["err"] == "nogo"
        dist["bad"] += exp == "RBad"
        dist["selected"] += len(res["go"] or [])
        dist["rejected"] += len(res["ignored"] or [])
        # ---- the property predicate, from scratch
        if exp != "RBad":
            go, js, anygo = spec_select(c, n_doc)
            rep["expected"] = dict(go=go, js=js) if anygo else dict(err="nogo")
            if res["cgo"]:
                ctx.violation("cgo-files-used", "CgoFiles is not empty: %r" % res["cgo"], rep)
            elif not anygo and res["err"] != "nogo":
                sig, f, t = classify_discrepancy(c, n_doc, res["go"] + res["test"] + res["xtest"], [], res)
                ctx.violation(sig, "a package whose files are all excluded by the documented constraints was loaded: %r" % (res["go"],), rep)
            elif anygo and res["err"] == "nogo":
                ctx.violation("package-with-selected-files-not-loaded", "Import reports no Go files, the documented rule selects %r" % (go,), rep)
            elif anygo:
                if sorted(res["go"]) != sorted(go):
                    sig, f, t = classify_discrepancy(c, n_doc, res["go"], go, res)
                    ctx.violation(sig, "file %s: selected=%s, the documented rule says %s (tags %r, %s package%s)" % (
                        f["name"], f["name"] in res["go"], f["name"] in go, c["tags"], c["kind"], ", decisive tag %s" % t if t else ""), rep)
                if sorted(res["js"]) != sorted(js):
                    ctx.violation("incjs-files-differ", ".inc.js files taken %r, documented (all non-hidden ones) %r" % (res["js"], js), rep)
        vcases.append("{| k_cfg := %s; k_import_path := %s; k_in_goroot := %s; k_files := [%s]; k_expect := %s |}" % (
            cfg_coq(c, toolchain), cs(IMPORT_PATH[c["kind"]](c["id"])), "true" if IN_GOROOT[c["kind"]] else "false",
            ";\n    ".join(file_coq(f) for f in c["files"]), exp))
        vmeta.append(rep)
        if len(vmeta) <= 2:
            ctx.sample(dict(kind=c["kind"], tags=c["tags"], files=[(f["name"], expr_go(f["gobuild"]) if f["gobuild"] else [pline_go(l) for l in f["plus"]])
                                                                      for f in c["files"]], impl_go=res["go"], impl_js=res["js"]))
    shard = max(10, min(120, (len(vcases) + C.NCPU - 1) // C.NCPU))
    shards = [vcases[i:i + shard] for i in range(0, len(vcases), shard)]

    def run_shard(k):
        idxs, err = coq_eval_list(os.path.join(ctx.work, "cases_%d.v" % k),
                                  "Definition cases : list case := [\n" + ";\n".join(shards[k]) + "].\nDefinition R := mismatches cases.\n")
        return k, idxs, err

    mism = 0
    for k, idxs, err in C.parallel_map(run_shard, range(len(shards))):
        if idxs is None and err == "TIMEOUT":
            ctx.notes.append("model evaluation of shard %d timed out (machine load): %d directories compared with the oracle only" % (k, len(shards[k])))
            continue
        if idxs is None:
            ctx.violation("model-eval-failed", "Coq evaluation of the model failed", dict(shard=k, log=err), concrete=False)
            continue
        for i in idxs:
            mism += 1
            rep = vmeta[k * shard + i]
            if not any(v["replay"] is rep for v in ctx.violations):
                ctx.violation("model-mismatch", "import_pkg of the model and the real XContext.Import disagree on a directory "
                              "(correspondence Corr/C18_Eval.mismatches broken)", rep, concrete=False)
    dist["model_mismatches"] = mism
    STATE["vcases"] = vcases
    ctx.cov["dir_distribution"] = dist
    ctx.cov["traces_validated_against_impl"] = len(vcases)


def check_programs(ctx, progs, out_by_id, n_doc):
    """(2): compile the program directories with the real gopherjs and look at the run-time registry"""
    def one(c):
        d = os.path.join(ctx.work, "prog_" + c["id"])
        files = {f["name"]: (MAIN_GO if f.get("main") else render_file(f, True)) for f in c["files"] if not f["dir"]}
        C.write_go_program(d, files, module="verifc18")
        for f in c["files"]:
            if f.get("link") and not f["dir"]:
                tdir = os.path.join(ctx.work, "prog_targets_" + c["id"])
                os.makedirs(tdir, exist_ok=True)
                os.replace(os.path.join(d, f["name"]), os.path.join(tdir, f["name"]))
                os.symlink(os.path.join(tdir, f["name"]), os.path.join(d, f["name"]))
        rc, log = C.gopherjs_build(d, tags=" ".join(c["tags"]) if c["tags"] else None, timeout=900)
        if rc != 0:
            return c, None, ("TIMEOUT " if rc == 124 else "") + log
        rc, so, se = C.run_node(os.path.join(d, "out.js"), cwd=d, timeout=600)
        if rc == 124:
            return c, None, "TIMEOUT node"
        return c, (so + "\n" + se), "" if rc == 0 else "node exit %d" % rc

    n, timeouts = 0, []
    for c, txt, log in C.parallel_map(one, progs, workers=8):
        rep = dict(kind="program", case=case_json(c), tags=c["tags"])
        go, js, anygo = spec_select(c, n_doc)
        if txt is None and log.startswith("TIMEOUT "):
            timeouts.append(c["id"])
            continue
        if txt is None:
            ctx.violation("program-build-failed", "gopherjs build failed on a generated multi-file program", dict(rep, log=log[-800:]), concrete=False)
            continue
        if "DONE" not in txt:
            ctx.violation("program-run-failed", "generated program did not finish: " + log, dict(rep, output=txt[-800:]), concrete=False)
            continue
        n += 1
        got = sorted(re.findall(r"^REG (\S+)$", txt, re.M))
        gotjs = sorted(re.findall(r"^INCJS (\S+)$", txt, re.M))
        want = sorted(x for x in go if x != "main.go")
        rep.update(runtime=dict(go=got, js=gotjs), expected=dict(go=want, js=sorted(js)))
        if got != want:
            sig, f, t = classify_discrepancy(c, n_doc, got + ["main.go"], go, out_by_id.get(c["id"]))
            ctx.violation("program-" + sig, "files that registered themselves at run time %r, documented rule %r (--tags %r)" % (got, want, c["tags"]), rep)
        if gotjs != sorted(js):
            ctx.violation("program-incjs-files-differ", ".inc.js code executed %r, documented %r" % (gotjs, sorted(js)), rep)
        res = out_by_id.get(c["id"])
        if res is not None and sorted(x for x in (res["go"] or []) if x != "main.go") != got:
            ctx.violation("program-vs-import-differ", "the compiled program contains other files than XContext.Import selected", dict(rep, impl=res["go"]), concrete=False)
    ctx.cov["programs_run"] = n
    if timeouts:
        ctx.notes.append("%d program build(s) timed out (machine load) and were skipped: %s" % (len(timeouts), timeouts[:5]))
        if n < len(progs) // 2:
            ctx.violation("programs-not-run", "more than half of the generated programs could not be built in time",
                          dict(timeouts=timeouts), concrete=False)


def correspond(ctx):
    if STATE.get("extract_error"):
        ctx.violation("table-extraction-failed", "the constants could not be regenerated from the sources (shape changed): " + STATE["extract_error"],
                      dict(error=STATE["extract_error"]), concrete=False)
    n_doc = doc_minor()
    r = ctx.rng("dirs")
    ndirs = 320 if ctx.quick else int(os.environ.get("C18_THOROUGH_DIRS", "3000"))      # override: smoke-test the tier on a loaded machine
    nprog = 8 if ctx.quick else int(os.environ.get("C18_THOROUGH_PROGS", "50"))
    cdirs, cprogs = corpus()
    cases = cdirs + [gen_case(r, i) for i in range(ndirs)]
    syst = gen_systematic(ndirs + 100000, ctx.quick)
    ctx.cov["systematic_dirs"] = len(syst)
    cases += syst
    rp = ctx.rng("programs")
    progs = cprogs + [gen_case(rp, ndirs + i, kind="user", prog=True) for i in range(nprog)]
    allc = cases + progs
    per = max(8, (len(allc) + C.NCPU - 1) // C.NCPU)
    groups = [allc[i:i + per] for i in range(0, len(allc), per)]
    outs = C.parallel_map(lambda k: run_harness(ctx, groups[k], str(k))[0], range(len(groups)))
    skipped = [k for k, o in enumerate(outs) if o is None]
    if skipped:
        ctx.notes.append("harness timed out on %d of %d groups (machine load): those directories were skipped" % (len(skipped), len(groups)))
        allc = [c for k, g in enumerate(groups) if outs[k] is not None for c in g]
        progs = [c for c in progs if any(c is x for x in allc)]
        outs = [o for o in outs if o is not None]
        if not outs:
            return
    out = dict(outs[0], results=[x for o in outs for x in o["results"]])
    ctx.log("harness done: %d directories" % len(allc))
    if out["go_version"] != STATE["tables"]["go_version"]:
        ctx.violation("table-go-version", "extracted GoVersion differs from the compiled one", dict(extracted=STATE["tables"]["go_version"], real=out["go_version"]), concrete=False)
    toolchain = check_context(ctx, allc, out, n_doc)
    check_dirs(ctx, allc, out, n_doc, toolchain)
    ctx.log("directories done")
    check_programs(ctx, progs, {x["id"]: x for x in out["results"]}, n_doc)
    ctx.log("programs done")
    # ---- phase 4: the constraint language, headers as text, post-load tweaks
    if STATE.get("post_error"):
        ctx.violation("table-extraction-failed", "the post-load tweak table could not be regenerated from applyPostloadTweaks (shape changed): " +
                      STATE["post_error"], dict(error=STATE["post_error"]), concrete=False)
    me = sys.modules[__name__]
    P4.check_lines(me, ctx)
    ctx.log("constraint lines done")
    P4.check_text_dirs(me, ctx, n_doc, toolchain)
    ctx.log("text directories done")
    P4.check_render(me, ctx, STATE.get("vcases", []) if ctx.quick is False else STATE.get("vcases", [])[:240])
    ctx.cov["post_tweaks"] = [list(x) for x in STATE["post_tweaks"]]
    ctx.cov["tables"] = {k: v for k, v in STATE["tables"].items() if k not in ("known_os", "known_arch", "unix_os", "other_exts")}
    ctx.cov["documented_go_minor"] = n_doc
    for k, doc in (("known_os", DOC_KNOWN_OS), ("known_arch", DOC_KNOWN_ARCH)):
        if sorted(STATE["tables"][k]) != sorted(doc):
            ctx.notes.append("go/build's %s list of this toolchain differs from the Go 1.23 list the oracle uses" % k)


def search(ctx, proof_state):
    """a proof broke: the correspondence above already evaluates the property predicate on every generated
    directory; report whether it produced a concrete failing input"""
    return any(v["concrete"] for v in ctx.violations)


def replay(ctx, data):
    rp = data["replay"]
    if rp.get("kind") in ("line", "textdir"):
        root = os.path.join(ctx.work, "replay_root")
        env = C.goenv()
        env.update(GOPHERJS_GOROOT=os.path.join(root, "goroot"), GOPATH=os.path.join(root, "gopath"), GO111MODULE="off")
        env.pop("GOOS", None); env.pop("GOARCH", None); env.pop("GOFLAGS", None)
        os.makedirs(os.path.join(root, "goroot", "src"), exist_ok=True)
        os.makedirs(os.path.join(root, "gopath", "src"), exist_ok=True)
        inp = dict(root=root, cases=[rp["case"]] if rp["kind"] == "textdir" else [], lines=[rp["line"]] if rp["kind"] == "line" else [],
                   tag_sets=P4.TAGSETS)
        rc, out, err = C.sh2([os.path.join(C.BIN, "h_c18")], env=env, inp=json.dumps(inp).encode())
        o = json.loads(out) if rc == 0 else None
        if rp["kind"] == "line":
            print("line:", json.dumps(rp["line"]))
            print("go/build/constraint now:", json.dumps(o["lines"][0]) if o else err)
        else:
            print("files:", json.dumps([(f["name"], f["content"]) for f in rp["case"]["files"]], indent=1))
            print("kind:", rp["case"]["kind"], "path:", rp["case"].get("path"), "tags:", rp["case"]["tags"])
            print("implementation now:", json.dumps({k: o["results"][0][k] for k in ("err", "go", "test", "xtest", "ignored", "js", "imports", "test_imports", "xtest_imports")}) if o else err)
        print("recorded:", json.dumps(rp.get("impl")))
        print("expected:", json.dumps(rp.get("expected")))
        return 0
    if rp.get("kind") in ("dir", "program") and "case" in rp:
        c = rp["case"]
        root = os.path.join(ctx.work, "replay_root")
        env = C.goenv()
        env.update(GOPHERJS_GOROOT=os.path.join(root, "goroot"), GOPATH=os.path.join(root, "gopath"), GO111MODULE="off")
        env.pop("GOOS", None); env.pop("GOARCH", None); env.pop("GOFLAGS", None)
        os.makedirs(os.path.join(root, "goroot", "src"), exist_ok=True)
        rc, out, err = C.sh2([os.path.join(C.BIN, "h_c18")], env=env, inp=json.dumps(dict(root=root, cases=[c])).encode())
        res = json.loads(out)["results"][0] if rc == 0 else err
        print("files:", json.dumps([(f["name"], f["content"]) for f in c["files"]], indent=1))
        print("tags:", c["tags"], "kind:", c["kind"])
        print("implementation now:", json.dumps({k: res[k] for k in ("err", "go", "test", "xtest", "ignored", "js")} if isinstance(res, dict) else res))
        print("recorded:", json.dumps(rp.get("impl") or rp.get("runtime")))
        print("expected:", json.dumps(rp.get("expected")))
    else:
        print(json.dumps(data, indent=1))
    return 0


TECHNIQUE = ("Coq proof (induction over constraint expressions / token lists / strings / file lists, all tag sets) over an executable model of "
             "go/build's selection, of the go/build/constraint language (lexer, parser, printer, legacy lines, both conversions), of the "
             "header scanner and of build/context.go incl. post-load tweaks, with the constants and the tweak table regenerated from the "
             "sources on every run + differential correspondence with the real NewBuildContext(...).Import (real and virtual contexts), the "
             "real go/build/constraint on generated valid and malformed lines / headers, and compiled multi-file programs")
LEVEL_TEXT = ("Machine-checked theorems: the tag environment built by NewBuildContext equals the documented one (js/ecmascript, gc, gopherjs, "
              "netgo, purego, math_big_pure_go, go1.1..go1.N and nothing later, user tags; js/wasm for standard-library packages) for "
              "every user tag set and every toolchain >= N; a file is selected iff name rule, constraint, not cgo, extension, not hidden/"
              "test/documentation; tags not mentioned do not matter; .inc.js files are taken regardless of constraints. The constants are "
              "regenerated from build/context.go, versionhack, version_check.go, incjs/file.go and go/build's syslist on every run, so "
              "dropping/adding a default tag or shifting the release-tag truncation breaks env_is_documented. The model is tied to the code "
              "by running the real Import and the model on the same generated directories. Phase 4: the file-name rule equals an "
              "independent suffix specification for every name (C18_name_rule_eq_spec, and C18_name_rule_iff_text_spec against the wording "
              "of the go/build documentation); parse(print e) = e for every normal-form expression; a legacy // +build line read through "
              "constraint.Parse means space=OR / comma=AND / !=NOT for every text and tag assignment (C18_plusbuild_equiv_gobuild) and "
              "PlusBuildLines preserves meaning; evaluation is monotone exactly in positive tags; go/build's header scanner on a rendered "
              "header gives the structured semantics (//go:build wins, +build only in a detached leading block, lines AND-ed); "
              "C18_selected_iff restated on TEXT with the suffix specification; applyPostloadTweaks touches exactly runtime, runtime/pprof, "
              "sync (pool.go), syscall/js, only removes files, never applies to virtual contexts; updateImports keeps exactly the imports "
              "of remaining files.")
LEVEL_NOTE = ("Proof is about the hand-written model of go/build + go/build/constraint + build/context.go; since phase 4 the constraint "
              "syntax, the header scanner and the post-load tweaks are inside the model (ASCII, no size limits), go/build's readGoInfo is "
              "not. print-after-parse is not a retraction in go/build/constraint itself (`!(!a)` prints as `!!a`, which is rejected): kept "
              "as a refuted clause, upstream Go, not /repo. One upstream quirk is visible and kept as a refuted clause: the user tag `boringcrypto` does not "
              "satisfy `//go:build boringcrypto` (go/build aliases the name to goexperiment.boringcrypto). No axioms.")
