"""C02 — suspending and resuming a goroutine is invisible to the program.
Model: coq/Model/C02_Flat.v (direct form, resumable form, translation, frames, schedule oracle),
coq/Model/C02_Blocking.v (propagateFunctionBlocking fixpoint); theorems: coq/Props/C02.v.

Correspondence (every run, on the compiler built from the current tree):
 (A) programs of the MODELLED fragment (c02_minigo): built with the real compiler in the blocking variant
     (yield(k) receives from a channel iff bit k of `mask` is set — statically blocking, dynamically
     suspending per mask) and in the direct variant (yield is empty: nothing is blocking).  Direct oracle:
     the output must be identical for all masks, identical in both variants and identical to native Go.
     Model: Coq evaluates run_direct (= the observation), run_flat (compile p) under several schedules
     (= run_direct), the blocking fixpoint (= Decl.Blocking read from the compiled archives through the
     overlay harness) and flatten (= the skeleton of case labels / jumps / resume points / returns read off
     the emitted JavaScript); `var {..} = $restore` and `$f = {..}` must list the same variables.
 (A') phase 4: the same for programs with `for k = range <slice>` loops (c02_p4.RangeGen, coq/Model/C02_P4_Range.v,
     coq/Corr/C02_P4_Eval.v): all of (A) on the translator's reduction of range to a looping statement, plus the
     extended language's direct semantics rexec against the observation and against run_flat (rcompile p).
 (B) programs OUTSIDE the fragment (c02_rich): all call kinds and expression/statement positions; oracle:
     mask invariance, native Go, and (programs with statically resolved calls only) the direct variant.
 (C) compile-only call-graph programs: Decl.Blocking vs. reachability of a direct blocker (soundness, decided
     in Python from scratch) and vs. the Coq fixpoint on the graph the generator wrote down.
 (D) probes reproducing the recorded findings, with controls.
 (E) expression statements over blocking / non-blocking calls with 0-3 arguments and binary operations, and
     `a[idx] = rhs`: the order in which the calls run in the compiled program vs. native Go (deviations are the
     recorded hoisting findings) and vs. Model/C02_Hoist.v, which contains the defects (must agree exactly).
"""
import json, os, re, threading
import common as C
import c02_minigo as G
import c02_rich as R
import c02_p4 as P4

ID = "C02"
PROPS_FILE = "Props/C02.v"
MODEL_TARGETS = ["Corr/C02_Eval.v", "Corr/C02_P4_Eval.v"]
ALLOWED_AXIOMS = []
RULE = ("(A) MiniGo programs: 1-4 functions + step/nstep helpers, call DAG plus guarded recursion, nested if/else, for with "
        "init/cond/post (post and init may be blocking calls), labelled and unlabelled break/continue, early returns, globals, "
        "println; yield sites numbered mod 30; masks 0, all-ones and random subsets; non-trivial = at least one dynamic yield; "
        "distinct by source text. (B) rich programs: 1-3 functions, every int sub-expression wrapped with probability ~0.45 in a "
        "yielding identity of a rotating call kind (direct, pointer/value method, method value, method expression, interface, "
        "func value, func literal, cross-package, generic, cross-package generic, deferred), in loop init/cond/post, switch "
        "tags/cases, &&/|| operands, call arguments after a side-effecting argument, composite literals, indices, range bodies "
        "with closures over the loop variable, goto loops, defers with named results, panic/recover. (C) call graphs of 10-18 "
        "functions over two packages with static/go/defer/literal/variable/interface/method-value calls and channel operations. "
        "(E) 14 expression statements per program: trees of depth <= 3 over leaves, +, and calls (blocking or not) with 0-3 arguments; "
        "a quarter are index assignments with calls on both sides. (A') phase 4: MiniGo programs in which more than half of the loops "
        "are `for k = range make([]struct{}, e)` (with and without key, labelled, nested in and around for loops; e = (a*a + c) % 4 over a "
        "variable the body may overwrite; break/continue/labelled continue inside) — same oracles and the same five model comparisons "
        "as (A) on the translator's reduction, plus the extended language's own direct semantics rexec.")
TRUSTED = ["hand-written model of the reduction of a slice range statement to translateLoopingStmt (coq/Model/C02_P4_Range.v: desugar; frame slots "
           "_ref/_i explicit in the direct semantics rexec), tied by (A'): emitted skeleton = flatten (desugar p), outputs under all masks = "
           "native Go = run_rdirect = run_flat (rcompile p) under the schedules",
           "hand-written model of the translator's Flattened-mode branches, the call resume pattern, $restore/$f frames and the $go "
           "resumption loop (coq/Model/C02_Flat.v) and of propagateFunctionBlocking (coq/Model/C02_Blocking.v), tied by this correspondence",
           "the schedule oracle abstracts channel readiness: one consultation per dynamic receive",
           "hand-written model of call hoisting in expressions (coq/Model/C02_Hoist.v: translateCall, translateArgs, translateAssign), tied by (E)",
           "regular-expression reader of the emitted JavaScript (harness/py/c02_minigo.py: js_skeleton, js_frame_vars)",
           "overlay harness harness/go/repo_overlay/compiler/verifharness/c02 (build.Session -> Decl.Blocking)",
           "native Go 1.23 (go.mod go 1.20) as reference for the source semantics; Node.js as the JavaScript engine"]
ASSUMPTIONS = ["no other goroutine is runnable while the observed goroutine is suspended (yield's helper only completes the receive)",
               "integer values stay below 2^31 (the generators bound every stored value by % 997)",
               "range programs: the slice length expression is non-negative (make would panic otherwise; the generator guarantees it)"]

ALL = (1 << 30) - 1
# VERIF_C02_SCALE multiplies the case counts (used only to try mutations quickly on a loaded machine; default 1)
SCALE = float(os.environ.get("VERIF_C02_SCALE", "1"))


def scaled(n):
    return max(4, int(n * SCALE))
SEP = str(G.SEP)


def prepare(ctx):
    C.ensure_gopherjs()
    C.ensure_go_harness("c02")


def gen_masks(r, n):
    ms = [0, ALL]
    while len(ms) < n:
        k = r.random()
        if k < 0.3:
            ms.append(1 << r.randrange(30))
        elif k < 0.5:
            ms.append(ALL ^ (1 << r.randrange(30)))
        else:
            ms.append(r.getrandbits(30))
    return ms


def split_runs(text):
    """output of a generated main: for each mask  SEP, trace..., SEP, result line  ->  [(trace, result)] or None"""
    # println(int) of a negative zero prints "-0" under node (an integer product such as (-3 * 0) is a JavaScript -0;
    # belongs to C06, reported there) — not an observable of this property
    text = re.sub(r"(?<![\d-])-0(?![\d.])", "0", text)
    parts = text.split(SEP + "\n")
    if len(parts) < 3 or parts[0] != "" or len(parts) % 2 == 0:
        return None
    runs = []
    for k in range(1, len(parts), 2):
        runs.append((parts[k], parts[k + 1]))
    return runs


# ---------------------------------------------------------------- native Go, batched into one binary

def native_chunk(ctx, progs, base, tag):
    """progs[k] becomes package n<base+k> of one module with a single main; returns {index: stderr text}"""
    d = os.path.join(ctx.work, "native%d" % tag)
    files = {}
    imports, calls = [], []
    for k, p in enumerate(progs):
        i = base + k
        for name, text in p["files"].items():
            t = text.replace('"verifprog/q"', '"verifnat/n%d/q"' % i)
            if name == "main.go":
                t = t.replace("package main", "package n%d" % i, 1).replace("func main() {", "func Main() {", 1)
            files["n%d/%s" % (i, name)] = t
        imports.append('\tn%d "verifnat/n%d"' % (i, i))
        calls.append("\tprintln(-88888888, %d)\n\trun(n%d.Main)" % (i, i))
    files["main.go"] = ("package main\n\nimport (\n%s\n)\n\nfunc run(f func()) {\n\tdefer func() {\n\t\tif e := recover(); e != nil {\n"
                        "\t\t\tprintln(-99999999)\n\t\t}\n\t}()\n\tf()\n}\n\nfunc main() {\n%s\n}\n") % ("\n".join(imports), "\n".join(calls))
    C.write_go_program(d, files, module="verifnat")
    rc, out, err = C.sh2(["go", "build", "-o", "nat", "."], cwd=d, env=C.goenv(), timeout=3000)
    if rc != 0:
        if rc == 124 or "no space left" in err or "[timeout" in err or "cannot allocate" in err or "signal: killed" in err:
            note_infra(ctx, "native Go build of chunk %d: %s" % (tag, err[-200:]))
            return {}
        raise C.BuildError("native Go rejected a generated program (generator bug): " + err[-1500:])
    rc, out, err = C.sh2(["./nat"], cwd=d, timeout=1200)
    if rc == 124:
        note_infra(ctx, "native Go run of chunk %d timed out" % tag)
        return {}
    res = {}
    chunks = re.split(r"-88888888 (\d+)\n", err)
    for k in range(1, len(chunks), 2):
        res[int(chunks[k])] = chunks[k + 1]
    return res


def native_batch(ctx, progs, chunk=200):
    """native Go reference for all runnable programs: a few binaries instead of one `go run` per program"""
    parts = [(progs[b:b + chunk], b, b // chunk) for b in range(0, len(progs), chunk)]
    res = {}
    for r in C.parallel_map(lambda a: native_chunk(ctx, *a), parts, workers=4):
        res.update(r)
    return res


# ---------------------------------------------------------------- one gopherjs build + run

def build_run(ctx, d, files):
    """-> dict(build_rc, log, out, err, rc, infra). infra = a timeout / resource failure: never a verdict."""
    C.write_go_program(d, files)
    rc, log = C.gopherjs_build(d, timeout=900)
    if rc != 0:
        infra = rc == 124 or "[timeout" in log or "no space left" in log or "cannot allocate" in log or "resource temporarily" in log
        return dict(build_rc=rc, log=log[-1200:], out="", err="", rc=-1, infra=infra)
    rc, out, err = C.run_node(os.path.join(d, "out.js"), cwd=d, timeout=300)
    infra = rc == 124 or "[timeout" in err or "ENOMEM" in err or "heap out of memory" in err
    return dict(build_rc=0, log="", out=out, err=err, rc=rc, infra=infra)


def note_infra(ctx, what):
    """timeouts and other infrastructure failures are skipped, never reported as violations"""
    ctx.notes.append("skipped (infrastructure): " + what[:300])
    ctx.log("skipped (infrastructure): " + what[:200])


def harness_decls(ctx, dirs):
    """-> {dir: {decl full name: blocking}} through the overlay harness (real build.Session)"""
    h = os.path.join(C.BIN, "h_c02")
    shards = [dirs[i::8] for i in range(8) if dirs[i::8]]

    def run(sh):
        rc, out, err = C.sh2([h], inp=json.dumps(dict(dirs=sh, module="verifprog", repo=C.REPO)).encode(), env=C.goenv(), timeout=1500)
        if rc != 0:
            note_infra(ctx, "c02 harness shard failed (rc %d): %s" % (rc, err[-200:]))
            return [dict(dir=d, err="infrastructure", decls=[]) for d in sh]
        try:
            return json.loads(out)
        except ValueError:
            note_infra(ctx, "c02 harness shard printed no JSON")
            return [dict(dir=d, err="infrastructure", decls=[]) for d in sh]

    res = {}
    for part in C.parallel_map(run, shards, workers=8):
        for r in part:
            res[r["dir"]] = (r["err"], {d["name"]: d["blocking"] for d in r["decls"]})
    return res


# ---------------------------------------------------------------- Coq evaluation

HEADER = ("From Coq Require Import List ZArith Bool.\nFrom Verif Require Import Model.C02_Blocking Model.C02_Flat Model.C02_Hoist Corr.C02_Eval.\n"
          "From Verif Require Import Model.C02_P4_Range Corr.C02_P4_Eval.\n"
          "Import ListNotations.\n")


def coq_bools(bs):
    return "[%s]" % "; ".join("true" if b else "false" for b in bs)


def coq_eval(ctx, name, defn, what):
    p = os.path.join(ctx.work, name + ".v")
    with open(p, "w") as f:
        f.write(HEADER + defn + "\nDefinition M := Eval vm_compute in %s.\nPrint M.\n" % what)
    rc, out = C.coq_run(p)
    flat = out.replace("\n", " ")
    m = re.search(r"M\s*=\s*(.*?)\s*:\s*list", flat)
    if rc != 0 or not m:
        if rc == 124 or "[timeout" in out or "Out of memory" in out or "Stack overflow" in out or "Killed" in out or rc in (137, -9):
            note_infra(ctx, "coqc %s: rc %d %s" % (name, rc, out[-150:]))
            return None, "INFRA"
        return None, out[-1500:]
    return m.group(1), ""


# ---------------------------------------------------------------- (A) modelled fragment

def gen_modelled(ctx, n):
    r = ctx.rng("modelled")
    progs = []
    tries = 0
    while len(progs) < n:
        tries += 1
        p = G.generate(r, size=r.choice([8, 14, 14, 20]))
        res = G.interpret(p)
        if res is None:
            continue
        if res[3] < 1 and r.random() < 0.9:
            continue
        p["expect"] = res
        progs.append(p)
    return progs


def gen_range(ctx, n):
    """phase 4 (b): MiniGo programs in which at least one loop is a range loop"""
    r = ctx.rng("range-programs")
    progs = []
    while len(progs) < n:
        p = P4.generate_range(r, size=r.choice([8, 14, 14, 20]))
        if not P4.has_kind(p, "range"):
            continue
        res = G.interpret(p)
        if res is None:
            continue
        if res[3] < 1 and r.random() < 0.9:
            continue
        p["expect"] = res
        progs.append(p)
    return progs


def construct_counts(p, cnt):
    def walk(body, inloop):
        for s in body:
            t = s[0]
            cnt[t] = cnt.get(t, 0) + 1
            if t in ("if",):
                walk(s[2], inloop)
            elif t == "ifelse":
                walk(s[2], inloop); walk(s[3], inloop)
            elif t == "for":
                if s[1] is not None:
                    cnt["labelled-for"] = cnt.get("labelled-for", 0) + 1
                if s[4] and s[4][0] == "call":
                    cnt["for-post-call"] = cnt.get("for-post-call", 0) + 1
                if s[2] and s[2][0] == "call":
                    cnt["for-init-call"] = cnt.get("for-init-call", 0) + 1
                walk(s[5], True)
            elif t == "range":
                if s[1] is not None:
                    cnt["labelled-range"] = cnt.get("labelled-range", 0) + 1
                if s[2] is None:
                    cnt["range-without-key"] = cnt.get("range-without-key", 0) + 1
                walk(s[6], True)
            elif t in ("break", "continue") and s[1] is not None:
                cnt["labelled-" + t] = cnt.get("labelled-" + t, 0) + 1
    for fn in p["fns"]:
        walk(fn["body"], False)


def check_runs(ctx, kind, idx, text, res, native, direct, replay, sig_prefix, classify=None):
    """the direct oracle on one program. Returns the per-mask runs (or None)."""
    def sig(s):
        return classify(s) if classify else sig_prefix + s
    if res.get("infra") or (direct is not None and direct.get("infra")):
        note_infra(ctx, "%s program #%d: build or run timed out" % (kind, idx))
        return None
    if res["build_rc"] != 0:
        ctx.violation(sig("gopherjs-build-failed"), "the compiler rejects a program that native Go accepts: " + res["log"][-300:],
                      dict(replay, log=res["log"]), concrete=False)
        return None
    runs = split_runs(res["out"])
    if res["rc"] != 0 or res["err"].strip() or runs is None:
        ctx.violation(sig("resumable-form-crashes"), "the compiled program crashes or prints garbage (exit %d): %s" % (res["rc"], res["err"][-300:]),
                      dict(replay, stdout=res["out"][-2000:], stderr=res["err"][-2000:], native=(native or "")[-2000:]))
        return None
    first = runs[0]
    for mi, rn in enumerate(runs):
        if rn != first:
            ctx.violation(sig("suspension-changes-output"),
                          "output depends on where the goroutine is suspended: mask #%d differs from mask 0 (no suspension)" % mi,
                          dict(replay, mask_index=mi, run_mask0=first, run_mask=rn))
            return runs
    if native is not None:
        nruns = split_runs(native)
        if nruns is None or nruns[0] != first:
            ctx.violation(sig("resumable-form-differs-from-go"), "compiled output (same for all masks) differs from native Go",
                          dict(replay, gopherjs=first, native=nruns[0] if nruns else native[-2000:]))
            return runs
    if direct is not None:
        druns = split_runs(direct["out"]) if direct["build_rc"] == 0 else None
        if druns is None or druns[0] != first:
            ctx.violation(sig("resumable-form-differs-from-direct-form"),
                          "the build in which yield is an empty function (direct form) prints something else than the blocking build",
                          dict(replay, resumable=first, direct=druns[0] if druns else (direct["log"] + direct["err"])[-2000:]))
    return runs


FLAVOR_MODELLED = dict(kind="modelled", dirp="m", rec="pcase", pre="pc", mism="pmismatches", coq_prog=G.coq_prog, sched_stream="schedules")
# phase 4 (b): programs with range loops; the record is Corr/C02_P4_Eval.rcase, the program an [rprog]
FLAVOR_RANGE = dict(kind="range", dirp="q", rec="rcase", pre="rc", mism="rmismatches", coq_prog=P4.r_prog, sched_stream="schedules-range")


def modelled_verdict(ctx, progs, results, native, decls, fl=FLAVOR_MODELLED):
    vcases, index = [], []
    kind, pre = fl["kind"], fl["pre"]
    sr = ctx.rng(fl["sched_stream"])
    stats = dict(blocking_functions=0, direct_functions=0, skeleton_tokens=0, frames_checked=0, dynamic_yields=0)
    for i, (p, (rb, rd, js)) in enumerate(zip(progs, results)):
        nf = len(p["fns"])
        ctx.count([kind, p["src"]], nontrivial=p["expect"][3] >= 1)
        stats["dynamic_yields"] += p["expect"][3]
        replay = dict(kind=kind, source=p["src"], program=dict(fns=p["fns"], nglob=p["nglob"], args=p["args"]))
        runs = check_runs(ctx, kind, i, p["src"], rb, native.get(p["nat"]), rd, replay, kind + "-")
        if i < 2:
            ctx.sample(dict(kind=kind, source=p["src"], output_mask0=runs[0] if runs else None))
        if not runs:
            continue
        # reference interpreter (sanity of the generator's own expectation)
        try:
            out = [int(x) for x in runs[0][0].split()]
            ret = int(runs[0][1].strip())
        except ValueError:
            ctx.violation(kind + "-output-unparsable", "output is not a list of integers", dict(replay, run=runs[0]))
            continue
        if (out, ret) != (p["expect"][0], p["expect"][1]):
            ctx.violation(kind + "-reference-interpreter-disagrees", "python reference interpreter and the compiled program disagree "
                          "(native Go agrees with the program: fix harness/py/c02_minigo.py)", dict(replay, expect=p["expect"][:2], got=[out, ret]), concrete=False)
        # frames and skeletons from the emitted JavaScript
        fns = G.js_functions(js)
        skels, live = [], []
        for fi in range(nf):
            name = G.fname(p, fi)
            body = fns.get(name)
            if body is None:
                skels.append(None); live.append(False)
                continue
            live.append(True)
            sk = G.js_skeleton(body)
            skels.append(sk)
            if sk is not None:
                stats["blocking_functions"] += 1
                stats["skeleton_tokens"] += len(sk)
                fv = G.js_frame_vars(body)
                stats["frames_checked"] += 1
                if fv is None or (fv[0] - {"$c"}) != fv[1]:
                    ctx.violation("frame-save-restore-lists-differ", "`var {..} = $restore(..)` and `$f = {..}` of %s do not list the same variables: %r" % (name, fv and [sorted(fv[0]), sorted(fv[1])]),
                                  dict(replay, function=name), concrete=False)
            else:
                stats["direct_functions"] += 1
        # Decl.Blocking
        herr, dmap = decls.get(os.path.join(ctx.work, "%s%d" % (fl["dirp"], i)), ("missing", {}))
        flags = []
        for fi in range(nf):
            flags.append(dmap.get("func:..%s" % G.fname(p, fi)))
        if herr == "infrastructure":
            continue
        if herr or any(f is None for f in flags):
            ctx.violation(kind + "-harness-failed", "overlay harness could not read Decl.Blocking: %s" % herr[:300], dict(replay), concrete=False)
            continue
        scheds = ["None", "(Some [])"]
        for _ in range(3 if ctx.quick else 6):
            ln = sr.randint(1, max(2, min(40, p["expect"][3] + 2)))
            scheds.append("(Some %s)" % coq_bools([sr.random() < 0.5 for _ in range(ln)]))
        vcases.append(("{| pc_prog := %s;\n   pc_nglob := %s; pc_main := 0%%nat; pc_args := [%s]; pc_out := [%s]; pc_ret := %s;\n"
                       "   pc_blocking := %s;\n   pc_skel := [%s];\n   pc_live := %s;\n   pc_scheds := [%s] |}").replace("pc_", pre + "_") % (
                          fl["coq_prog"](p), G.nc(p["nglob"]), "; ".join(G.zc(a) for a in p["args"]), "; ".join(G.zc(v) for v in out), G.zc(ret),
                          coq_bools(flags),
                          "; ".join("None" if sk is None else "Some %s" % G.coq_toks(sk) for sk in skels),
                          coq_bools(live), "; ".join(scheds)))
        index.append(i)
    ctx.cov[kind + "_stats"] = stats

    shard = 12
    shards = [vcases[k:k + shard] for k in range(0, len(vcases), shard)]

    def run_shard(k):
        val, err = coq_eval(ctx, "%ss_%d" % (fl["rec"], k), "Definition cases : list %s := [\n%s].\n" % (fl["rec"], ";\n".join(shards[k])), fl["mism"] + " cases")
        if val is None:
            return k, None, err
        return k, [(int(a), int(b)) for a, b in re.findall(r"\((\d+),\s*(\d+)\)", val)], ""

    nmis = 0
    for k, pairs, err in C.parallel_map(run_shard, range(len(shards))):
        if pairs is None:
            if err != "INFRA":
                ctx.violation("model-eval-failed", "Coq evaluation of the model failed", dict(shard=k, log=err), concrete=False)
            continue
        for j, code in pairs:
            i = index[k * shard + j]
            p = progs[i]
            nmis += 1
            what = []
            if code & 16: what.append("the model ran out of fuel")
            if code & 1: what.append("run_direct differs from the compiled program's output")
            if code & 2: what.append("run_flat (compile p) under some schedule differs from run_direct")
            if code & 4: what.append("the model's blocking fixpoint differs from Decl.Blocking")
            if code & 8: what.append("the model's flatten differs from the emitted code (case numbering / jumps / resume points)")
            if code & 32: what.append("compile p is not well-formed: the hypothesis of C02_flat_suspend_invariant_partial fails")
            if code & 64: what.append("the generated program violates src_ok, the hypothesis of C02_compile_wf")
            if code & 128: what.append("the direct semantics of the extended language (rexec) differs from the compiled program's output")
            if code & 256: what.append("run_flat (rcompile p) under some schedule differs from run_rdirect p")
            ctx.violation("%s-model-mismatch-%d" % (kind, code), "model and implementation disagree: " + "; ".join(what),
                          dict(kind=kind, source=p["src"], code=code, correspondence="Corr/C02_Eval.pcase_code" if kind == "modelled" else "Corr/C02_P4_Eval.%s_code" % fl["rec"]), concrete=False)
    ctx.cov[kind + "_model_mismatches"] = nmis
    ctx.cov[kind + "_programs_evaluated_in_coq"] = len(vcases)


# ---------------------------------------------------------------- (B) rich programs

def rich_verdict(ctx, progs, results, native):
    cov = {}
    for i, (p, (rb, rd)) in enumerate(zip(progs, results)):
        for k, v in p["cov"].items():
            cov[k] = cov.get(k, 0) + v
        ctx.count(["rich", p["files"]["main.go"]], nontrivial=p["sites"] >= 3)
        replay = dict(kind="rich", files=p["files"], static_only=p["static_only"])
        check_runs(ctx, "rich", i, p["files"]["main.go"], rb, native.get(p["nat"]), rd, replay, "rich-")
        if i == 0:
            ctx.sample(dict(kind="rich", source=p["files"]["main.go"][-1500:]))
    ctx.cov["rich_constructs"] = cov


# ---------------------------------------------------------------- (D) probes

PANIC_PROBE = """package main

var mask int

func yield(k int) {%s
}

func f() (res int) {
	defer func() {
		res += 100
		println(res)
	}()
	defer func() {
		yield(0)
		if e := recover(); e != nil {
			res = e.(int)
			println(res)
		}
	}()
	panic(7)
}

func main() {
	masks := [...]int{%s}
	for _, m := range masks {
		mask = m
		println(-77777777)
		r := f()
		println(-77777777)
		println(r)
	}
}
"""
# control: the deferred function suspends AFTER recover(), and one that suspends during a normal return
PANIC_CONTROL = PANIC_PROBE.replace("""		yield(0)
		if e := recover(); e != nil {
			res = e.(int)""", """		if e := recover(); e != nil {
			yield(0)
			res = e.(int)""")

LHS_PROBE = """package main

var mask int

func yield(k int) {%s
}

func yv(k, v int) int { yield(k); println(k, v); return v }

type S struct{ f int }

var gs S

func getS(k int) *S { yield(k); println(k); return &gs }

func main() {
	masks := [...]int{%s}
	for _, m := range masks {
		mask = m
		println(-77777777)
		var ar [3]int
		ar[yv(3, 1)] = yv(4, 5)
		getS(9).f = yv(10, 3)
		*(&ar[yv(11, 0)]) = yv(12, 4)
		ar[yv(13, 0)], ar[yv(14, 1)] = yv(15, 1), yv(16, 2)
		println(-77777777)
		println(ar[0], ar[1], gs.f)
	}
}
"""
LHS_CONTROL = LHS_PROBE.replace("""		ar[yv(3, 1)] = yv(4, 5)
		getS(9).f = yv(10, 3)
		*(&ar[yv(11, 0)]) = yv(12, 4)
		ar[yv(13, 0)], ar[yv(14, 1)] = yv(15, 1), yv(16, 2)
""", """		ar[yv(3, 1)] += yv(4, 5)
		mp := map[int]int{}
		mp[yv(7, 1)] = yv(8, 2)
		var a, b int
		a, b = yv(17, 1), yv(18, 2)
		println(a, b, mp[1])
""")

ZERO_PROBE = """package main

var mask int

func yield(k int) {%s
}

func f() int {
	defer func() {
		if e := recover(); e != nil {
			yield(0)
		}
	}()
	panic(7)
}

func main() {
	masks := [...]int{%s}
	for _, m := range masks {
		mask = m
		println(-77777777)
		r := f()
		println(-77777777)
		println(r)
	}
}
"""
# control: the same with a named result
ZERO_CONTROL = ZERO_PROBE.replace("func f() int {", "func f() (res int) {")

FIND_HOIST = "hoisted-blocking-call-overtakes-earlier-nonblocking-call"
FIND_ZERO = "suspend-in-deferred-after-recover-loses-zero-results"
FIND_LHS = "assign-rhs-blocking-call-evaluated-before-lhs-operand-call"
FIND_PANIC = "defer-suspend-during-panic-drops-remaining-defers"


def probes_verdict(ctx, items, results, native):
    seen = {}
    for it, (rb, rd) in zip(items, results):
        ctx.count(["probe", it["name"]], nontrivial=True)
        replay = dict(kind="probe", name=it["name"], files=it["files"])
        if it["control"]:
            check_runs(ctx, "probe", 0, "", rb, native.get(it["nat"]), rd, replay, "probe-control-%s-" % it["name"].replace("/", "-"))
        else:
            # any deviation on a finding probe carries the finding's signature (and nothing else does)
            check_runs(ctx, "probe", 0, "", rb, native.get(it["nat"]), rd, replay, "", classify=lambda s, f=it["finding"]: f)
        seen[it["name"]] = True
    ctx.cov["probes"] = sorted(seen)


# ---------------------------------------------------------------- (E) expression statements vs. the hoisting model

def stmt_traces(run):
    """trace part of one run -> per-statement lists of call ids"""
    out, cur = [], []
    for tok in run[0].split():
        if tok == "-5":
            out.append(cur); cur = []
        else:
            cur.append(int(tok))
    return out


def hoist_verdict(ctx, hprogs, hresults, native):
    vcases, index = [], []
    stats = dict(statements=0, calls=0, reordered_vs_go=0, index_assign=0)
    for i, (hp, (rb, rd)) in enumerate(zip(hprogs, hresults)):
        replay = dict(kind="hoist", files=hp["files"])
        if rb.get("infra") or rd.get("infra") or hp["nat"] not in native:
            note_infra(ctx, "expression program #%d: timeout or no native reference" % i)
            continue
        nat = split_runs(native.get(hp["nat"], ""))
        if rb["build_rc"] != 0 or rb["rc"] != 0 or nat is None:
            ctx.violation("hoist-program-failed", "expression program does not build or run: %s" % (rb["log"] + rb["err"])[-300:], replay, concrete=False)
            continue
        runs = split_runs(rb["out"])
        druns = split_runs(rd["out"]) if rd["build_rc"] == 0 else None
        if runs is None or any(x != runs[0] for x in runs):
            ctx.violation("hoist-suspension-changes-output", "order of calls depends on the mask", dict(replay, runs=runs))
            continue
        if druns is None or druns[0] != nat[0]:
            ctx.violation("hoist-direct-form-differs-from-go", "with a non-blocking yield the calls do not run in Go's order",
                          dict(replay, direct=druns and druns[0], native=nat[0]))
        got, want = stmt_traces(runs[0]), stmt_traces(nat[0])
        for k, st in enumerate(hp["stmts"]):
            ctx.count(["hoist", i, k, R.hstmt_coq(st)], nontrivial=True)
            stats["statements"] += 1
            stats["calls"] += len(want[k]) if k < len(want) else 0
            stats["index_assign"] += st[0] == "index"
            stats[st[0]] = stats.get(st[0], 0) + 1
            if k >= len(got) or k >= len(want):
                continue
            if got[k] != want[k]:
                stats["reordered_vs_go"] += 1
                if not R.hstmt_in_finding_class(st):
                    # Model/C02_Hoist.v says this statement keeps Go's order (C02_expression_order_preserved,
                    # C02_args_order_preserved): not one of the recorded findings
                    sig = "call-operands-reordered-outside-recorded-finding-class"
                else:
                    sig = FIND_LHS if st[0] == "index" else FIND_HOIST
                ctx.violation(sig, "calls of one statement run in the order %r, Go's order is %r" % (got[k], want[k]),
                              dict(replay, statement=R.hstmt_coq(st), resumable=got[k], native=want[k]))
            vcases.append("{| hc_stmt := %s; hc_trace := [%s] |}" % (R.hstmt_coq(st), "; ".join(G.nc(x) for x in got[k])))
            index.append((i, k))
    ctx.cov["hoist_stats"] = stats
    if not vcases:
        return
    val, err = coq_eval(ctx, "hcases", "Definition cases : list hcase := [\n%s].\n" % ";\n".join(vcases), "hmismatches cases")
    if val is None:
        if err != "INFRA":
            ctx.violation("model-eval-failed", "Coq evaluation of the hoisting model failed", dict(log=err), concrete=False)
        return
    for j in [int(x) for x in re.findall(r"\d+", val)]:
        i, k = index[j]
        ctx.violation("hoist-model-mismatch", "Model/C02_Hoist.v predicts another order of calls than the emitted code executes",
                      dict(kind="hoist", files=hprogs[i]["files"], statement=R.hstmt_coq(hprogs[i]["stmts"][k]),
                           correspondence="Corr/C02_Eval.hmismatches vs expressions.go translateCall / utils.go translateArgs / statements.go translateAssign"),
                      concrete=False)


# ---------------------------------------------------------------- (C) call graphs

def graphs(ctx):
    n = scaled(20 if ctx.quick else 200)
    gs = []
    for i in range(n):
        g = R.graph_program(ctx.rng("graph-%d" % i))
        d = os.path.join(ctx.work, "g%d" % i)
        C.write_go_program(d, g["files"])
        g["dir"] = d
        gs.append(g)
    return gs


def graphs_verdict(ctx, gs, decls):
    vcases, index = [], []
    kinds = {}
    nflag = [0, 0]
    for i, g in enumerate(gs):
        for k, v in g["kinds"].items():
            kinds[k] = kinds.get(k, 0) + v
        ctx.count(["graph", g["files"]], nontrivial=True)
        herr, dmap = decls.get(g["dir"], ("missing", {}))
        replay = dict(kind="graph", files=g["files"], graph=g["graph"], names=g["names"])
        obs = [dmap.get(nm) for nm in g["names"]]
        if herr == "infrastructure":
            continue
        if herr or any(o is None for o in obs):
            ctx.violation("graph-harness-failed", "the real compiler rejects a call-graph program or a declaration is missing: %s %r" % (
                herr[:400], [nm for nm, o in zip(g["names"], obs) if o is None][:4]), replay, concrete=False)
            continue
        # soundness, decided from scratch: whoever reaches a direct blocker along call edges must be flagged
        N = len(g["graph"])
        reach = [d for d, _ in g["graph"]]
        changed = True
        while changed:
            changed = False
            for f in range(N):
                if not reach[f] and any(reach[c] for c in g["graph"][f][1]):
                    reach[f] = True
                    changed = True
        for f, nm in enumerate(g["names"]):
            nflag[obs[f]] += 1
            if reach[f] and not obs[f]:
                ctx.violation("analysis-misses-blocking-path", "%s can reach a blocking operation but Decl.Blocking is false" % nm,
                              dict(replay, function=nm, observed=dict(zip(g["names"], obs))))
                break
        # literals are not declarations: the model's flags for them are not observable; compare the named prefix
        vcases.append("{| gc_graph := [%s]; gc_blocking := %s |}" % (
            "; ".join("{| direct := %s; callees := [%s] |}" % ("true" if d else "false", "; ".join(G.nc(c) for c in cs)) for d, cs in g["graph"]),
            coq_bools(obs)))
        index.append(i)
    ctx.cov["graph_call_kinds"] = kinds
    ctx.cov["graph_decl_flags"] = dict(non_blocking=nflag[0], blocking=nflag[1])
    if not vcases:
        return
    val, err = coq_eval(ctx, "gcases", "Definition cases : list gcase := [\n%s].\n" % ";\n".join(vcases), "gmismatches_named cases")
    if val is None:
        if err != "INFRA":
            ctx.violation("model-eval-failed", "Coq evaluation of the blocking model failed", dict(log=err), concrete=False)
        return
    for j in [int(x) for x in re.findall(r"\d+", val)]:
        g = gs[index[j]]
        ctx.violation("graph-model-mismatch", "the model's propagateFunctionBlocking fixpoint differs from Decl.Blocking on a call-graph program",
                      dict(kind="graph", files=g["files"], graph=g["graph"], names=g["names"],
                           correspondence="Corr/C02_Eval.gmismatches_named vs compiler/internal/analysis"), concrete=False)


# ---------------------------------------------------------------- driver

def correspond(ctx):
    masks = gen_masks(ctx.rng("masks"), 8 if ctx.quick else 24)
    nat_progs = []

    def native_req(p):
        nat_progs.append(p)
        return len(nat_progs) - 1

    # ---- generation (cheap); every runnable program is registered for the single native Go binary
    gs = graphs(ctx)
    mprogs = gen_modelled(ctx, scaled(40 if ctx.quick else 400))
    cnt = {}
    for p in mprogs:
        construct_counts(p, cnt)
        p["src"] = G.go_source(p, masks, blocking=True)
        p["src_direct"] = G.go_source(p, masks, blocking=False)
        p["nat"] = native_req(dict(files={"main.go": p["src"]}))
    ctx.cov["modelled_constructs"] = cnt
    # VERIF_C02_RANGE_SCALE: extra factor for the range programs only (mutation experiments; default 1)
    qprogs = gen_range(ctx, scaled((14 if ctx.quick else 150) * float(os.environ.get("VERIF_C02_RANGE_SCALE", "1"))))
    cnt = {}
    for p in qprogs:
        construct_counts(p, cnt)
        p["src"] = G.go_source(p, masks, blocking=True)
        p["src_direct"] = G.go_source(p, masks, blocking=False)
        p["nat"] = native_req(dict(files={"main.go": p["src"]}))
    ctx.cov["range_constructs"] = cnt
    rprogs = []
    for i in range(scaled(20 if ctx.quick else 200)):
        p = R.rich_program(ctx.rng("rich-%d" % i), masks, static_only=(i % 3 == 0))
        p["nat"] = native_req(dict(files=p["files"]))
        rprogs.append(p)
    pitems, run_probes = probes_prepare(ctx, masks, native_req)
    hprogs = []
    for i in range(scaled(3 if ctx.quick else 20)):
        hp = R.hoist_program(ctx.rng("hoist-%d" % i), masks[:4], 16)
        hp["nat"] = native_req(dict(files=hp["files"]))
        hprogs.append(hp)

    # ---- native Go runs beside the gopherjs builds
    holder = {}

    def start_native():
        try:
            holder["native"] = native_batch(ctx, nat_progs)
        except Exception as e:       # re-raised below
            holder["error"] = e

    th = threading.Thread(target=start_native)
    th.start()

    def build_mod(i, progs=None, dirp="m"):
        p = (progs or mprogs)[i]
        d = os.path.join(ctx.work, "%s%d" % (dirp, i))
        rb = build_run(ctx, d, {"main.go": p["src"]})
        rd = build_run(ctx, os.path.join(d, "direct"), {"main.go": p["src_direct"]})
        js = open(os.path.join(d, "out.js")).read() if rb["build_rc"] == 0 else ""
        return rb, rd, js

    def build_rich(i):
        p = rprogs[i]
        d = os.path.join(ctx.work, "r%d" % i)
        rb = build_run(ctx, d, p["files"])
        rd = build_run(ctx, os.path.join(d, "direct"), p["files_direct"]) if p["static_only"] else None
        return rb, rd

    mresults = C.parallel_map(build_mod, range(len(mprogs)))
    ctx.log("modelled programs built and run")
    qresults = C.parallel_map(lambda i: build_mod(i, qprogs, "q"), range(len(qprogs)))
    ctx.log("range programs built and run")
    rresults = C.parallel_map(build_rich, range(len(rprogs)))
    ctx.log("rich programs built and run")
    presults = run_probes()

    def build_hoist(i):
        d = os.path.join(ctx.work, "h%d" % i)
        return build_run(ctx, d, hprogs[i]["files"]), build_run(ctx, os.path.join(d, "direct"), hprogs[i]["files_direct"])

    hresults = C.parallel_map(build_hoist, range(len(hprogs)))
    decls = harness_decls(ctx, [os.path.join(ctx.work, "m%d" % i) for i in range(len(mprogs))]
                          + [os.path.join(ctx.work, "q%d" % i) for i in range(len(qprogs))] + [g["dir"] for g in gs])
    ctx.log("Decl.Blocking read from the archives")
    th.join()
    if "error" in holder:
        raise holder["error"]
    native = holder["native"]
    ctx.log("native Go reference done")

    probes_verdict(ctx, pitems, presults, native)
    hoist_verdict(ctx, hprogs, hresults, native)
    rich_verdict(ctx, rprogs, rresults, native)
    graphs_verdict(ctx, gs, decls)
    modelled_verdict(ctx, mprogs, mresults, native, decls)
    modelled_verdict(ctx, qprogs, qresults, native, decls, FLAVOR_RANGE)
    ctx.cov["masks"] = masks


def probes_prepare(ctx, masks, native_req):
    ms = ", ".join(str(m) for m in masks[:4])
    items = []
    for name in R.PROBES:
        control = name.startswith("control")
        items.append(dict(name="hoist/" + name, control=control, finding=FIND_HOIST,
                          files={"main.go": R.probe_program(name, masks[:4], True)},
                          files_direct={"main.go": R.probe_program(name, masks[:4], False)}))
    items.append(dict(name="assign-lhs", control=False, finding=FIND_LHS,
                      files={"main.go": LHS_PROBE % (R.YIELD_BODY, ms)}, files_direct={"main.go": LHS_PROBE % ("", ms)}))
    items.append(dict(name="assign-lhs-control", control=True, finding=FIND_LHS,
                      files={"main.go": LHS_CONTROL % (R.YIELD_BODY, ms)}, files_direct={"main.go": LHS_CONTROL % ("", ms)}))
    items.append(dict(name="panic-defer", control=False, finding=FIND_PANIC,
                      files={"main.go": PANIC_PROBE % (R.YIELD_BODY, ms)}, files_direct={"main.go": PANIC_PROBE % ("", ms)}))
    items.append(dict(name="panic-defer-control", control=True, finding=FIND_PANIC,
                      files={"main.go": PANIC_CONTROL % (R.YIELD_BODY, ms)}, files_direct={"main.go": PANIC_CONTROL % ("", ms)}))
    items.append(dict(name="zero-result", control=False, finding=FIND_ZERO,
                      files={"main.go": ZERO_PROBE % (R.YIELD_BODY, ms)}, files_direct={"main.go": ZERO_PROBE % ("", ms)}))
    items.append(dict(name="zero-result-control", control=True, finding=FIND_ZERO,
                      files={"main.go": ZERO_CONTROL % (R.YIELD_BODY, ms)}, files_direct={"main.go": ZERO_CONTROL % ("", ms)}))
    for it in items:
        it["nat"] = native_req(dict(files=it["files"]))

    def run():
        def one(i):
            it = items[i]
            d = os.path.join(ctx.work, "probe%d" % i)
            return build_run(ctx, d, it["files"]), build_run(ctx, os.path.join(d, "direct"), it["files_direct"])
        return C.parallel_map(one, range(len(items)))

    return items, run


def replay(ctx, data):
    rp = data["replay"]
    files = rp.get("files") or ({"main.go": rp["source"]} if "source" in rp else None)
    if not files:
        print(json.dumps(data, indent=1)[:6000])
        return 0
    d = os.path.join(ctx.work, "replay")
    if rp.get("kind") == "graph":
        C.write_go_program(d, files)
        herr, dmap = harness_decls(ctx, [d]).get(d, ("missing", {}))
        print("harness:", herr or "ok")
        for nm, (direct, callees) in zip(rp["names"], rp["graph"]):
            print("  %-34s Decl.Blocking=%-5s direct=%-5s callees=%s" % (nm, dmap.get(nm), direct, [rp["names"][c] if c < len(rp["names"]) else "literal#%d" % c for c in callees]))
        return 0
    res = build_run(ctx, d, files)
    print("gopherjs build rc=%d %s" % (res["build_rc"], res["log"]))
    print("--- compiled program (node), exit %d" % res["rc"])
    print(res["out"] + res["err"])
    C.write_go_program(os.path.join(d, "nat"), files)
    rc, out, err = C.sh2(["go", "run", "."], cwd=os.path.join(d, "nat"), env=C.goenv(), timeout=600)
    print("--- native Go")
    print(err)
    runs = split_runs(res["out"])
    if runs:
        print("--- runs identical across masks:", all(x == runs[0] for x in runs))
    return 0


TECHNIQUE = ("Coq proof (schedule-independence of the resumable form by induction over executions; fixpoint soundness/minimality of the "
             "blocking propagation; semantic preservation of the range reduction by induction on the execution bound) + differential correspondence with the real compiler on generated programs under all-mask yield "
             "injection, native Go, the direct-form build, Decl.Blocking from the archives and the emitted code's skeleton")
LEVEL_TEXT = ("Machine-checked theorems over an executable model of the emitted resumable function form (switch/$s/$c/$r frames, "
              "call resume pattern, $go resumption loop) and of propagateFunctionBlocking; the model is tied to the compiler on every "
              "run by compiling generated programs and comparing outputs under many suspension masks, Decl.Blocking flags and the "
              "skeleton of the emitted JavaScript with the model's run_direct / run_flat / propagate / flatten "
              "(for range loops: run_rdirect / rcompile / flatten after desugar).")
LEVEL_NOTE = ("Stage 1 (if/for/labels/break/continue/calls/return over integers) is modelled and fully proved: for every source "
              "program and every schedule run_flat (compile p) = run_direct p (C02_flat_suspend_invariant_partial; `_partial` only "
              "w.r.t. the property text). Phase 4 adds `for k = range s` over a slice of integer length to the modelled and PROVED "
              "fragment (C02_range_suspend_invariant_partial: every program of the extended language, every schedule; proved by showing "
              "that the translator's own reduction of range to translateLoopingStmt preserves the direct semantics statement by statement, "
              "C02_range_reduction_preserves_direct_semantics, and composing with stage 1; the direct semantics keeps the two frame slots "
              "_ref/_i explicit, native Go is the independent oracle for it on every run; element values and range over arrays, strings, maps, "
              "channels are not modelled). Defers, panics, goto, switch, closures are reached by the differential runs only "
              "(mask invariance, native Go, direct build); calls inside expressions by Model/C02_Hoist.v. Four genuine defects of the "
              "current tree are recorded as known findings (two hoisting/evaluation-order defects, two suspension-during-panic defects).")
