"""C05 — dead-code elimination never changes behaviour.
Model: coq/Model/C05_Select.v (dce.Info + the work-list dce.Selector + the root rule of WriteProgramCode),
coq/Model/C05_SideEffect.v (analysis.HasSideEffect and the var-initialiser root rule of decls.go).
Theorems: coq/Props/C05.v.

Correspondence, every run:
 (1) graphs: random declaration graphs (two filters, one, none; alive flags; link flags; the same pointer included
     twice; deps that hit nothing, "" and duplicates) -> the REAL dce.Selector (overlay harness c05, `select`)
     -> compared with a from-scratch least fixed point in Python (the property predicate) and with the Coq model.
 (2) programs: generated Go programs (c05_gen.py) are compiled ONCE with the real build.Session; the same
     archives are linked twice by the real compiler.WriteProgramCode -- normally, and after Dce().SetAsAlive() on
     every Decl -- both are run under node and stdout/stderr/exit are compared (and with native Go on a share).
     Statically: every package-level JS identifier / $pkg export referenced by emitted code is declared by emitted
     code; the emitted `var` line of every package equals what the selection says; the real decl graph of the
     program is fed to the Python fixed point (all programs) and to the Coq model (a share).
 (3) side effects: random initialiser expressions -> the REAL analysis.HasSideEffect (harness `hse`, go/types
     type-checked) vs the Coq model has_side_effect.
 (4) fixed witnesses of the recorded defects, compared with native Go on every run.
"""
import json, os, re, shutil, sys
import common as C
import c05_gen
import c05_rec

ID = "C05"
PROPS_FILE = "Props/C05.v"
MODEL_TARGETS = ["Corr/C05_Eval.v", "Corr/C05_RecEval.v"]
ALLOWED_AXIOMS = []
RULE = ("graphs: 1-14 declarations over a pool of 2-10 names; each declaration unnamed / object filter / object+method filter / "
        "method filter only / both equal, alive flag 15%, link flag 10%, 0-5 deps (pool names, misses, \"\", duplicates), Include order "
        "with repeated pointers 10%; non-trivial = some declaration is neither root nor dep-free; distinct by the whole graph. "
        "programs: 2-6 feature instances (unexported methods matched by interfaces with 25 signature type shapes, method values/"
        "expressions (on concrete AND interface types), embedding, generics (signatures reaching T through nested instantiation), constraint methods, local types, initialisers with side effects, go:linkname, "
        "recover/go/defer paths, named composite types, cross-package embedding), each in main or a sub package, 25% never called. "
        "expressions: random trees over the 13 constructors of the side-effect model, depth <= 4. "
        "records (phase 4): abstract programs of 2-4 structs (embedding, by-value/pointer/slice/map fields), 1-2 generic structs with 1-2 type parameters and "
        "instances over 4 kinds of type arguments, 1-3 interfaces, 1-2 generic functions, 0-3 variables, 2-5 functions with 1-6 mentions each (function / instance / "
        "variable / type mention, method value through concrete, promoted, named-interface and literal-interface receivers, method expressions (*T).m and I.m), 6 method "
        "names x exported/unexported x value/pointer receivers, signatures with variadics, func types and byte/uint8 respellings 15%; 16 quick / 600 thorough; "
        "non-trivial = some Decl is eliminated and >= 2 mention kinds occur")
TRUSTED = ["model of Info/Selector/Include written by hand (coq/Model/C05_Select.v), tied by correspondence (1) and by feeding it the decl graphs of real programs (2)",
           "model of HasSideEffect (coq/Model/C05_SideEffect.v) tied by correspondence (3); go/types decides what is a conversion",
           "phase 4: model of the RECORDER (coq/Model/C05_Record.v: getFilters/filterGen names for objects, generic instances, receivers and unexported method "
           "signatures; DeclareDCEDep call sites objectName/instName/typeName/makeReceiver/method expressions/method lists) written by hand for an abstract syntax of "
           "mentions, tied by correspondence (5): generated abstract programs are rendered as Go, compiled by the real compiler, and every Decl's object filter, method "
           "filter, dependency set and selection are compared with the model's on the same abstract program",
           "in (5) the harness collapses the Decls of anonymous composite types into their users (the model does the same), and computes which types a struct's "
           "constructor/zero value names (nested structs by value, pointer and slice fields of those): that closure is an input of the model, not modelled",
           "NOT modelled by the recorder: struct/interface/array/chan literals inside signatures, type-parameter constraints other than any, types nested in functions, "
           "bodies of generic functions (mentions are given per instance), linknames; for those the adequacy of the recorded deps is still only tested by (2)",
           "harness/go/repo_overlay/compiler/verifharness/c05 (replicates the 8-line Include loop of WriteProgramCode only to report the selection; "
           "the replica is compared with the real out.js on every program) + compiler/internal/dce/export_c05_verif.go",
           "node as the JavaScript engine; native Go 1.23 as reference output on a share of the programs"]
ASSUMPTIONS = ["C05_select_sound (phase 4): reachability is rapid-type-analysis reachability over the modelled mentions: a method body can be executed only if some "
               "reachable declaration names its receiver type instance (values of a named type come into existence only in code that names the type); which "
               "declaration a mention needs / can dispatch to is defined with types.Identical on type arguments and signatures, independently of filter strings",
               "C05_select_sound holds for programs spelled without the alias names byte/rune (prog_ok); without that hypothesis it is not proved (its two historic counterexamples were repaired in /repo by 757816d and are now positive witnesses)",
               "outside the modelled syntax (see TRUSTED): the recorded deps over-approximate the run-time reference relation (C05_select_sound_partial; checked, not proved, by (2))",
               "programs import only unsafe and a sibling package; println is the only output"]

HARNESS = lambda: os.path.join(C.BIN, "h_c05")


def henv():
    e = C.goenv()
    e["VERIF_REPO_DIR"] = C.REPO
    return e


def wdir(ctx):
    """private scratch directory: ctx.work is wiped by every NEW run of the same check, so a second `./check C05` started
    against the same tree while this one runs would pull the files from under it"""
    d = getattr(ctx, "_c05_dir", None)
    if d is None:
        d = ctx.work.rstrip("/") + ".%d" % os.getpid()
        shutil.rmtree(d, ignore_errors=True)
        os.makedirs(d, exist_ok=True)
        ctx._c05_dir = d
    return d


def prepare(ctx):
    C.ensure_go_harness("c05")
    C.ensure_gopherjs()


def coq_str(s):
    return '"' + s.replace('"', '""') + '"'


def coq_bool(b):
    return "true" if b else "false"


# ---------------------------------------------------------------- the property predicate, from scratch

def lfp(decls):
    """decls: list of dict(id, alive, obj, meth, deps, link).  Least set S with: roots in S; a non-root-by-itself
    declaration is in S when every non-empty filter of it is a dep of some member of S."""
    sel = set()
    hit = set()
    changed = True
    roots = [d for d in decls if d["alive"] or (d["obj"] == "" and d["meth"] == "") or d["link"]]
    for d in roots:
        sel.add(d["id"])
    byid = {}
    for d in decls:
        byid.setdefault(d["id"], []).append(d)
    while changed:
        changed = False
        for d in decls:
            if d["id"] in sel:
                for x in d["deps"]:
                    if x != "" and x not in hit:
                        hit.add(x); changed = True
        for d in decls:
            if d["id"] in sel:
                continue
            if d["alive"] or (d["obj"] == "" and d["meth"] == ""):
                continue
            fs = [f for f in (d["obj"], d["meth"]) if f != ""]
            if all(f in hit for f in fs):
                sel.add(d["id"]); changed = True
    return sorted(sel)


def coq_decl(d):
    return "D %d %s %s %s [%s] %s" % (d["id"], coq_bool(d["alive"]), coq_str(d["obj"]), coq_str(d["meth"]),
                                      ";".join(coq_str(x) for x in d["deps"]), coq_bool(d["link"]))


def coq_case(decls, expect):
    return "{| c_decls := [%s]; c_expect := %s |}" % (
        ";\n  ".join(coq_decl(d) for d in decls),
        "None" if expect is None else "Some [%s]" % ";".join(str(x) for x in expect))


def eval_model(ctx, vcases, shard=300, tag="g"):
    """evaluate Corr.C05_Eval.mismatches on the cases; returns (list of global mismatch indexes, list of error logs)"""
    shards = [vcases[i:i + shard] for i in range(0, len(vcases), shard)]

    def run_shard(k):
        p = os.path.join(wdir(ctx), "cases_%s_%d.v" % (tag, k))
        with open(p, "w") as f:
            f.write("From Coq Require Import List String NArith.\nFrom Verif Require Import Model.C05_Select Corr.C05_Eval.\n"
                    "Import ListNotations.\nLocal Open Scope string_scope.\nLocal Open Scope N_scope.\nLocal Open Scope list_scope.\n")
            f.write("Definition cases : list case := [\n" + ";\n".join(shards[k]) + "].\n")
            f.write("Definition M := Eval vm_compute in mismatches cases.\nPrint M.\n")
        rc, out = C.coq_run(p)
        m = re.search(r"M\s*=\s*(\[[^\]]*\])", out.replace("\n", " "))
        if rc != 0 or not m:
            return k, None, out[-800:]
        return k, [int(x.replace("%N", "")) for x in re.findall(r"\d+(?:%N)?", m.group(1))], ""

    bad, errs = [], []
    for k, idxs, err in C.parallel_map(run_shard, range(len(shards))):
        if idxs is None:
            errs.append(err)
        else:
            bad += [k * shard + i for i in idxs]
    return bad, errs


def drop_timeouts(ctx, errs):
    """a Coq evaluation that timed out / was killed is an infrastructure failure: note it, never a violation"""
    keep = []
    for e in errs:
        if "[timeout" in e or "Killed" in e or "Out of memory" in e or e.strip() == "" or "No such file" in e or "Can't find file" in e \
                or "cannot open" in e.lower():
            ctx.notes.append("a model evaluation shard was skipped (infrastructure): " + e.strip()[-120:])
        else:
            keep.append(e)
    return keep


# ---------------------------------------------------------------- (1) graphs

def gen_graph(r):
    n = r.choice([1, 2, 3, 4, 5, 6, 8, 10, 14]) if r.random() < 0.8 else r.randint(1, 14)
    pool = ["p.N%d" % i for i in range(r.randint(2, 10))]
    if r.random() < 0.2:
        pool += ["p.m(int) string", "q/r.T[int, []string]", "p.f:L[any;]"]
    decls = []
    for i in range(n):
        k = r.random()
        if k < 0.10:
            obj, meth = "", ""
        elif k < 0.60:
            obj, meth = r.choice(pool), ""
        elif k < 0.88:
            obj, meth = r.choice(pool), r.choice(pool)
        elif k < 0.94:
            obj, meth = "", r.choice(pool)
        else:
            obj = r.choice(pool); meth = obj
        nd = r.choice([0, 0, 1, 1, 2, 2, 3, 5])
        deps = []
        for _ in range(nd):
            q = r.random()
            deps.append(r.choice(pool) if q < 0.85 else ("" if q < 0.9 else "p.miss%d" % r.randint(0, 3)))
        if deps and r.random() < 0.2:
            deps.append(r.choice(deps))
        decls.append(dict(id=i + 1, alive=r.random() < 0.15, obj=obj, meth=meth, deps=deps, link=r.random() < 0.10))
    order = list(range(n))
    if r.random() < 0.3:
        r.shuffle(order)
    if r.random() < 0.1:
        order.insert(r.randint(0, len(order)), r.randrange(n))
    return dict(decls=decls, order=order)


def exhaustive_graphs():
    """thorough tier: EVERY graph of one or two declarations over the names {A, B} (144 + 144^2 graphs)"""
    shapes = []
    for alive in (False, True):
        for obj in ("", "A", "B"):
            for meth in ("", "A", "B"):
                for deps in ([], ["A"], ["B"], ["A", "B"]):
                    for link in (False, True):
                        shapes.append((alive, obj, meth, deps, link))
    mk = lambda i, sh: dict(id=i, alive=sh[0], obj=sh[1], meth=sh[2], deps=list(sh[3]), link=sh[4])
    gs = [dict(decls=[mk(1, a)], order=[0]) for a in shapes]
    gs += [dict(decls=[mk(1, a), mk(2, b)], order=[0, 1]) for a in shapes for b in shapes]
    return gs


def graphs(ctx):
    r = ctx.rng("graphs")
    n = 2000 if ctx.quick else 20000
    gs = [gen_graph(r) for _ in range(n)]
    if not ctx.quick:
        gs += exhaustive_graphs()
    rc, out, err = C.sh2([HARNESS(), "select"], inp=json.dumps(gs).encode(), timeout=900)
    if rc == 124:
        ctx.notes.append("graphs stage skipped (infrastructure): the select harness timed out"); return
    if rc != 0:
        raise C.BuildError("c05 harness (select) failed: " + err[-500:])
    results = json.loads(out)
    vcases = []
    dist = dict(decls=0, roots=0, two_filters=0, unnamed=0, link=0, repeated_pointer=0, selected=0, selected_by_deps=0, panics=0)
    for g, res in zip(gs, results):
        included = [g["decls"][i] for i in g["order"]]
        roots = [d for d in included if d["alive"] or (d["obj"] == "" and d["meth"] == "") or d["link"]]
        dist["decls"] += len(included); dist["roots"] += len(roots)
        dist["two_filters"] += sum(1 for d in included if d["obj"] and d["meth"])
        dist["unnamed"] += sum(1 for d in included if not d["obj"] and not d["meth"])
        dist["link"] += sum(1 for d in included if d["link"])
        dist["repeated_pointer"] += len(g["order"]) != len(set(g["order"]))
        want = lfp(included)
        nontrivial = len(want) > len(set(d["id"] for d in roots)) or any(d["obj"] and d["meth"] for d in included)
        ctx.count(g, nontrivial=nontrivial)
        if res["panic"]:
            dist["panics"] += 1
            ctx.violation("selector-panicked", "dce.Selector panicked on a declaration graph: " + res["panic"][:200],
                          dict(kind="graph", graph=g, impl=res))
            got = None
        else:
            got = res["selected"]
            dist["selected"] += len(got)
            dist["selected_by_deps"] += len(got) - len(set(d["id"] for d in roots))
            if got != want:
                missing = sorted(set(want) - set(got)); extra = sorted(set(got) - set(want))
                sig = "selector-drops-reachable-decl" if missing else "selector-keeps-unreachable-decl"
                ctx.violation(sig, "dce.Selector's selection is not the least set closed under the dependency rule "
                              "(missing %r, extra %r)" % (missing, extra), dict(kind="graph", graph=g, impl=got, expected=want))
        vcases.append(coq_case(included, got))
        if len(ctx.samples) < 2:
            ctx.sample(dict(kind="graph", graph=g, selected=got))
    bad, errs = eval_model(ctx, vcases, shard=250, tag="g")
    errs = drop_timeouts(ctx, errs)
    for e in errs:
        ctx.violation("model-eval-failed", "Coq evaluation of the model failed", dict(log=e), concrete=False)
    for gi in bad:
        if not any(v["replay"].get("graph") == gs[gi] for v in ctx.violations):
            ctx.violation("selector-model-mismatch", "model and dce.Selector disagree on a declaration graph (correspondence C05/select broken)",
                          dict(kind="graph", graph=gs[gi], impl=results[gi], expected_by_spec=lfp([gs[gi]["decls"][i] for i in gs[gi]["order"]]),
                               correspondence="Corr/C05_Eval.mismatches vs compiler/internal/dce.Selector"), concrete=False)
    dist["model_mismatches"] = len(bad)
    dist["exhaustive_1_2_decls_over_2_names"] = 0 if ctx.quick else 144 + 144 * 144
    ctx.cov["graph_distribution"] = dist
    ctx.cov["graphs_validated_against_impl"] = len(vcases)


# ---------------------------------------------------------------- (2) programs

PKG_RE = re.compile(r'^\$packages\["([^"]+)"\] = \(function\(\) \{$', re.M)
STR_RE = re.compile(r'"(?:[^"\\\n]|\\.)*"|\'(?:[^\'\\\n]|\\.)*\'')
COMMENT_RE = re.compile(r"/\*.*?\*/|//[^\n]*", re.S)
IDENT_RE = re.compile(r"(?<![\w$.])([A-Za-z_$][\w$]*)(?![\w$])(?!:)")      # not a property access, not an object-literal key


def split_packages(js):
    """{import path: chunk of out.js} for every $packages["..."] = (function() { ... })();"""
    ms = list(PKG_RE.finditer(js))
    res = {}
    for i, m in enumerate(ms):
        end = ms[i + 1].start() if i + 1 < len(ms) else js.find('$callForAllPackages("$finishSetup")', m.end())
        res[m.group(1)] = js[m.end():end]
    return res


def var_line(chunk):
    m = re.search(r"^\tvar (\$pkg = \{\}, \$init.*);$", chunk, re.M)
    return m.group(1).split(", ") if m else None


def strip_js(code):
    # strings first would break on comment markers inside strings and vice versa; emitted package code has
    # /* */ comments only for blocking markers and type labels, strings with escaped quotes
    out, i, n = [], 0, len(code)
    while i < n:
        c = code[i]
        if c == '"' or c == "'":
            m = STR_RE.match(code, i)
            if m:
                out.append('""'); i = m.end(); continue
        if code.startswith("/*", i):
            j = code.find("*/", i + 2)
            i = n if j < 0 else j + 2
            out.append(" "); continue
        if code.startswith("//", i):
            j = code.find("\n", i)
            i = n if j < 0 else j
            continue
        out.append(c); i += 1
    return "".join(out)


def static_check(js, dump):
    """returns list of (signature, message).  Everything is read off the REAL out.js; decls.json supplies only the universe of
    names that some declaration (alive or dead) of the package could have declared."""
    probs = []
    chunks = split_packages(js)
    exports_all, exports_alive, stripped = {}, {}, {}
    for p in dump:
        path = p["path"]
        chunk = chunks.get(path)
        if chunk is None:
            probs.append(("package-missing-from-output", "package %s is not in out.js" % path)); continue
        vl = var_line(chunk)
        if vl is None:
            probs.append(("package-var-line-missing", "no var line in package %s" % path)); continue
        # the selection as reported by the harness's replica must be what the real link emitted
        want = ["$pkg = {}", "$init"] + [v for d in p["decls"] if d["selected"] for v in d["vars"]]
        if vl != want:
            probs.append(("emitted-vars-differ-from-selection", "package %s: emitted var line %r, the selection gives %r" % (
                path, [x for x in vl if x not in want][:5], [x for x in want if x not in vl][:5])))
        declared = set(v.split(" = ")[0] for v in vl)
        universe = set(v.split(" = ")[0] for d in p["decls"] for v in d["vars"])
        s = strip_js(chunk)
        stripped[path] = s
        used = set(IDENT_RE.findall(s))
        for name in sorted((used & universe) - declared):
            owner = next((d["full_name"] for d in p["decls"] if name in [v.split(" = ")[0] for v in d["vars"]]), "?")
            probs.append(("emitted-code-references-eliminated-decl",
                          "package %s: emitted code references %s, declared only by the eliminated declaration %s" % (path, name, owner)))
        exports_all[path] = set(re.findall(r"\$pkg\.([A-Za-z_$][\w$]*)\s*=[^=]", strip_js("\n".join(d["code"] for d in p["decls"]))))
        exports_alive[path] = set(re.findall(r"\$pkg\.([A-Za-z_$][\w$]*)\s*=[^=]", s))
    for p in dump:
        path = p["path"]
        if path not in stripped:
            continue
        imports = {"$pkg": path}
        for m in re.finditer(r'^\t([A-Za-z_$][\w$]*) = \$packages\["([^"]+)"\];$', chunks[path], re.M):
            imports[m.group(1)] = m.group(2)
        for var, target in imports.items():
            if target not in exports_all:
                continue
            for m in re.finditer(r"(?<![\w$.])" + re.escape(var) + r"\.([A-Za-z_$][\w$]*)", stripped[path]):
                name = m.group(1)
                if name in exports_all[target] and name not in exports_alive[target]:
                    probs.append(("emitted-code-references-eliminated-export",
                                  "package %s references %s.%s, which only an eliminated declaration of %s assigns" % (path, var, name, target)))
    return sorted(set(probs))


def graph_of_dump(dump):
    """the decl graph of a real program, in Include order, names mapped to short tokens (only equality matters)"""
    names, decls, selected = {"": ""}, [], []
    def tok(s):
        if s not in names:
            names[s] = "n%d" % len(names)
        return names[s]
    i = 0
    for p in dump:
        for d in p["decls"]:
            i += 1
            decls.append(dict(id=i, alive=d["alive"], obj=tok(d["obj"]), meth=tok(d["meth"]), deps=[tok(x) for x in d["deps"]], link=d["link"]))
            if d["selected"]:
                selected.append(i)
    return decls, selected


def run_both(d):
    n = C.sh2(["node", "--stack-size=4000", "o/out.js"], cwd=d, timeout=60)
    a = C.sh2(["node", "--stack-size=4000", "o/out_all.js"], cwd=d, timeout=60)
    if n[0] == 124 or a[0] == 124:      # a loaded machine, not the program: the programs terminate in milliseconds
        n = C.sh2(["node", "--stack-size=4000", "o/out.js"], cwd=d, timeout=600)
        a = C.sh2(["node", "--stack-size=4000", "o/out_all.js"], cwd=d, timeout=600)
    return n, a


def obs(t):
    """observable of a run: exit status + merged output (println goes to stdout under node, stderr natively)"""
    rc, out, err = t
    txt = (out + err).strip()
    m = re.search(r"(ReferenceError|TypeError|is not a function|is not defined|undefined)", txt) if rc != 0 else None
    if len(txt) > 3000:
        txt = txt[:1500] + "\n...\n" + txt[-1500:]
    return dict(rc=rc, text=txt, jserror=m.group(1) if m else None)


def build_and_check(ctx, d, files, native):
    """compile + link twice + run; returns dict(result fields) and appends nothing to ctx (thread-safe: caller reports)"""
    C.write_go_program(d, files)
    os.makedirs(os.path.join(d, "o"), exist_ok=True)
    rc, out, err = C.sh2([HARNESS(), "link", "o"], cwd=d, env=henv(), timeout=600)
    if rc == 124:
        return dict(stage="infra", log="compile+link timed out")
    if rc != 0 and (not os.path.exists(os.path.join(d, "main.go")) or not os.path.isdir(os.path.join(d, "o"))):
        return dict(stage="infra", log="scratch directory disappeared during the build")
    if rc != 0:
        return dict(stage="link", log=(out + err)[-1500:])
    try:
        js = open(os.path.join(d, "o", "out.js")).read()
        dump = json.load(open(os.path.join(d, "o", "decls.json")))
    except (OSError, ValueError) as e:
        return dict(stage="infra", log="output of the link harness unreadable: %r" % e)
    n, a = run_both(d)
    if n[0] == 124 or a[0] == 124:
        return dict(stage="infra", log="node run timed out twice")
    res = dict(stage="done", normal=obs(n), all_alive=obs(a), static=static_check(js, dump), dump=dump)
    if native:
        rc, log = C.sh(["go", "build", "-o", "prog", "."], cwd=d, env=C.goenv(), timeout=600)
        if rc == 124 or (rc != 0 and ("no such file or directory" in log or not os.path.exists(os.path.join(d, "main.go")))):
            res["native_skipped"] = "native go build timed out / scratch directory disappeared"
        elif rc != 0:
            res["native"] = dict(rc=-1, text="go build failed: " + log[-800:], jserror=None)
        else:
            t = C.sh2(["./prog"], cwd=d, timeout=300)
            if t[0] == 124:
                res["native_skipped"] = "native run timed out"
            else:
                res["native"] = obs(t)
    return res


def same_behaviour(x, y, cross_runtime=False):
    if (x["rc"] == 0) != (y["rc"] == 0):
        return False
    if x["rc"] == 0:
        return x["text"] == y["text"]
    if cross_runtime:     # panic texts differ between runtimes: compare what was printed before the failure, line by line prefix
        return True
    return x["text"] == y["text"]


def programs(ctx):
    r = ctx.rng("programs")
    n = 48 if ctx.quick else 500
    n = int(os.environ.get("VERIF_C05_NPROG", n))          # development knob only
    native_every = 3 if ctx.quick else 1
    model_every = 6 if ctx.quick else 15
    progs = [c05_gen.gen_program(r, i) for i in range(n)]

    def one(i):
        files, meta = progs[i]
        try:
            return build_and_check(ctx, os.path.join(wdir(ctx), "p%d" % i), files, native=(i % native_every == 0))
        except Exception as e:        # noqa
            return dict(stage="infra", log="harness driver raised " + repr(e))

    results = C.parallel_map(one, range(n))
    cov = dict(programs=n, native_compared=0, decls_total=0, decls_eliminated=0, decls_eliminated_user_pkgs=0, real_graphs_in_model=0,
               features={}, static_identifier_checks=0)
    vcases, vmeta = [], []
    for i, ((files, meta), res) in enumerate(zip(progs, results)):
        rep = dict(kind="program", files=files, features=meta["features"])
        for ft in meta["features"]:
            key = ft["name"] + ("" if ft["used"] else " (uncalled)")
            cov["features"][key] = cov["features"].get(key, 0) + 1
        if res["stage"] == "infra":
            ctx.notes.append("program %d skipped (infrastructure): %s" % (i, res["log"][:200]))
            cov["skipped_infrastructure"] = cov.get("skipped_infrastructure", 0) + 1
            continue
        if res.get("native_skipped"):
            ctx.notes.append("program %d: %s" % (i, res["native_skipped"]))
        ctx.count(["program", files], nontrivial=True)
        if res["stage"] != "done":
            ctx.violation("program-build-failed", "generated program did not compile/link with the real compiler: " + res["log"][-300:],
                          dict(rep, log=res["log"]), concrete=False)
            continue
        nrm, al = res["normal"], res["all_alive"]
        if not same_behaviour(nrm, al):
            sig = "dce-changes-behaviour"
            if nrm["jserror"]:
                sig = "dce-removed-something-needed"
            elif al["rc"] != 0 and nrm["rc"] == 0:
                sig = "dce-drops-failing-initialiser-or-code"
            ctx.violation(sig, "the program behaves differently when linked normally and when linked with every declaration kept",
                          dict(rep, normal=nrm, all_alive=al))
        elif nrm["jserror"]:
            ctx.violation("js-error-at-run-time", "the compiled program fails with a JavaScript error (%s)" % nrm["jserror"], dict(rep, normal=nrm))
        if "native" in res:
            cov["native_compared"] += 1
            if res["native"]["rc"] == -1:
                ctx.violation("generated-program-invalid", "native Go rejects a generated program: " + res["native"]["text"][-300:],
                              dict(rep, native=res["native"]), concrete=False)
            elif not same_behaviour(nrm, res["native"], cross_runtime=True):
                ctx.violation("output-differs-from-native-go", "the normally linked program prints something else than native Go",
                              dict(rep, normal=nrm, native=res["native"]))
        for sig, msg in res["static"]:
            ctx.violation(sig, msg, dict(rep, static=res["static"][:10]))
        decls, selected = graph_of_dump(res["dump"])
        cov["decls_total"] += len(decls); cov["decls_eliminated"] += len(decls) - len(selected)
        cov["decls_eliminated_user_pkgs"] += sum(1 for p in res["dump"] if p["path"].startswith("verifprog") for d in p["decls"] if not d["selected"])
        cov["static_identifier_checks"] += sum(len(d["vars"]) for p in res["dump"] for d in p["decls"])
        want = lfp(decls)
        if want != selected:
            missing = sorted(set(want) - set(selected))
            ctx.violation("selector-drops-reachable-decl" if missing else "selector-keeps-unreachable-decl",
                          "on the declaration graph of a real program the selection is not the least fixed point", dict(rep, missing=missing[:20]))
        if i % model_every == 0:
            vcases.append(coq_case(decls, selected)); vmeta.append(i)
        if i == 0:
            ctx.sample(dict(kind="program", features=meta["features"], main_go=files["main.go"][:1500], normal_output=nrm["text"][:400],
                            decls=len(decls), eliminated=len(decls) - len(selected)))
    bad, errs = eval_model(ctx, vcases, shard=1, tag="p")
    errs = drop_timeouts(ctx, errs)
    for e in errs:
        ctx.violation("model-eval-failed", "Coq evaluation of the model on a real program's declaration graph failed", dict(log=e), concrete=False)
    for k in bad:
        files, meta = progs[vmeta[k]]
        ctx.violation("selector-model-mismatch", "model and the real selection disagree on the declaration graph of a real program",
                      dict(kind="program", files=files, features=meta["features"]), concrete=False)
    cov["real_graphs_in_model"] = len(vcases)
    ctx.cov["program_distribution"] = cov


# ---------------------------------------------------------------- (4) fixed witnesses of recorded defects

WITNESS_PANICKING_INIT = '''package main

var a = []int{1}
var idx = 5
var unused = a[idx]

func main() { println("main runs") }
'''

WITNESS_NAMED_FUNC = '''package main

type F func() int

var f F = func() int { println("called"); return 1 }
var unused = f()

func main() { println("main runs") }
'''

WITNESS_BYTE_SPELLING = '''package main

type sink interface{ write(p []byte) rune }

type buf struct{}

func (buf) write(p []uint8) int32 { println("buf.write"); return 1 }

func main() {
	var s sink = buf{}
	println(s.write(nil))
}
'''

WITNESS_INSTANCE_SPELLING = '''package main

func F[T any](x T) int { println("F called"); return 1 }

func dead() int { return F[byte](1) }

func main() {
	println(F[uint8](2))
}
'''

WITNESS_SELFREF_CONSTRAINT = '''package main

type num int

func (n num) Double() num { return n * 2 }

func dbl[T interface{ Double() T }](x T) T { return x.Double() }

func main() { println(int(dbl(num(4)))) }
'''


def witnesses(ctx):
    """the three fixed witness programs, concurrently (ctx.count is called from here, not from the threads)"""
    for src in (WITNESS_PANICKING_INIT, WITNESS_NAMED_FUNC, WITNESS_SELFREF_CONSTRAINT, WITNESS_BYTE_SPELLING, WITNESS_INSTANCE_SPELLING):
        ctx.count(["witness", src], nontrivial=True)
    C.parallel_map(lambda f: f(ctx), [witness_panicking_init, witness_named_func, witness_selfref, witness_byte_spelling, witness_instance_spelling])


def witness_byte_spelling(ctx):
    # F16: byte/uint8 (rune/int32) are identical types but are spelled differently in the DCE method filter
    d = os.path.join(wdir(ctx), "w_byte")
    res = build_and_check(ctx, d, {"main.go": WITNESS_BYTE_SPELLING}, native=True)
    if res["stage"] == "infra" or "native" not in res:
        ctx.notes.append("byte/uint8 witness skipped (infrastructure): " + res.get("log", res.get("native_skipped", ""))[:200])
    elif res["stage"] != "done":
        ctx.violation("witness-build-failed", "witness program did not build: " + res["log"][-300:], dict(log=res["log"]), concrete=False)
    else:
        nrm, al, nat = res["normal"], res["all_alive"], res["native"]
        ctx.cov["witness_byte_spelling"] = dict(normal_rc=nrm["rc"], normal_jserror=nrm["jserror"], all_alive=al["text"][:60], native=nat["text"][:60])
        if nat["rc"] == 0 and al["rc"] == 0 and al["text"] == nat["text"] and nrm["rc"] != 0:
            ctx.violation("dce-unexported-method-byte-uint8-spelling-mismatch",
                          "interface `write(p []byte) rune`, implementation `write(p []uint8) int32` (identical signatures): Go and the all-alive link print %r, "
                          "the normally linked program fails (%s): the method filter spells byte/uint8 and rune/int32 differently, the method is eliminated"
                          % (nat["text"], nrm["jserror"]),
                          dict(kind="program", files={"main.go": WITNESS_BYTE_SPELLING}, normal=nrm, all_alive=al, native=nat))
        elif not (nrm["rc"] == 0 and nrm["text"] == nat["text"] == al["text"]):
            ctx.violation("dce-changes-behaviour", "byte/uint8 witness behaves in an unexpected way",
                          dict(kind="program", files={"main.go": WITNESS_BYTE_SPELLING}, normal=nrm, all_alive=al, native=nat))


def witness_instance_spelling(ctx):
    # phase 4: the instance F[byte] (first seen in dead code) names the Decl; the live call site F[uint8] records the other spelling
    d = os.path.join(wdir(ctx), "w_inst")
    res = build_and_check(ctx, d, {"main.go": WITNESS_INSTANCE_SPELLING}, native=True)
    if res["stage"] == "infra" or "native" not in res:
        ctx.notes.append("generic-instance spelling witness skipped (infrastructure): " + res.get("log", res.get("native_skipped", ""))[:200])
    elif res["stage"] != "done":
        ctx.violation("witness-build-failed", "witness program did not build: " + res["log"][-300:], dict(log=res["log"]), concrete=False)
    else:
        nrm, al, nat = res["normal"], res["all_alive"], res["native"]
        ctx.cov["witness_instance_spelling"] = dict(normal_rc=nrm["rc"], normal_jserror=nrm["jserror"], all_alive=al["text"][:60], native=nat["text"][:60])
        if nat["rc"] == 0 and al["rc"] == 0 and al["text"] == nat["text"] and nrm["rc"] != 0:
            ctx.violation("dce-generic-instance-byte-uint8-spelling-mismatch",
                          "`F[byte]` used only in dead code, `F[uint8]` in main (one instance): Go and the all-alive link print %r, the normally "
                          "linked program fails (%s): the instance Decl is named F[byte], the live call site records F[uint8], the instance is eliminated"
                          % (nat["text"], nrm["jserror"]),
                          dict(kind="program", files={"main.go": WITNESS_INSTANCE_SPELLING}, normal=nrm, all_alive=al, native=nat))
        elif not (nrm["rc"] == 0 and nrm["text"] == nat["text"] == al["text"]):
            ctx.violation("dce-changes-behaviour", "generic-instance spelling witness behaves in an unexpected way",
                          dict(kind="program", files={"main.go": WITNESS_INSTANCE_SPELLING}, normal=nrm, all_alive=al, native=nat))


def witness_panicking_init(ctx):
    # F10: an initialiser that panics without a call or receive is dropped
    d = os.path.join(wdir(ctx), "w_init")
    res = build_and_check(ctx, d, {"main.go": WITNESS_PANICKING_INIT}, native=True)
    if res["stage"] == "infra" or "native" not in res:
        ctx.notes.append("panicking-initialiser witness skipped (infrastructure): " + res.get("log", res.get("native_skipped", ""))[:200])
    elif res["stage"] != "done":
        ctx.violation("witness-build-failed", "witness program did not build: " + res["log"][-300:], dict(log=res["log"]), concrete=False)
    else:
        nrm, al, nat = res["normal"], res["all_alive"], res["native"]
        ctx.cov["witness_panicking_initialiser"] = dict(normal_rc=nrm["rc"], all_alive_rc=al["rc"], native_rc=nat["rc"])
        if nrm["rc"] == 0 and (nat["rc"] != 0 or al["rc"] != 0):
            ctx.violation("dce-drops-panicking-initializer-without-call",
                          "`var unused = a[idx]` (index out of range, no call/receive): Go panics during initialisation (exit %d), the all-alive link "
                          "panics (exit %d), the normally linked program runs main (exit 0)" % (nat["rc"], al["rc"]),
                          dict(kind="program", files={"main.go": WITNESS_PANICKING_INIT}, normal=nrm, all_alive=al, native=nat))


def witness_named_func(ctx):
    # F15 (fixed in /repo by de84ca0, kept as a regression witness): a call through a value of a named func type is a side effect
    d = os.path.join(wdir(ctx), "w_namedfunc")
    res = build_and_check(ctx, d, {"main.go": WITNESS_NAMED_FUNC}, native=True)
    if res["stage"] == "infra" or "native" not in res:
        ctx.notes.append("named-func-type witness skipped (infrastructure): " + res.get("log", res.get("native_skipped", ""))[:200])
    elif res["stage"] != "done":
        ctx.violation("witness-build-failed", "witness program did not build: " + res["log"][-300:], dict(log=res["log"]), concrete=False)
    else:
        nrm, al, nat = res["normal"], res["all_alive"], res["native"]
        ctx.cov["witness_named_func_type"] = dict(normal=nrm["text"], all_alive=al["text"], native=nat["text"])
        if nat["rc"] == 0 and nrm["rc"] == 0 and nrm["text"] != nat["text"] and al["text"] == nat["text"]:
            ctx.violation("dce-drops-initializer-calling-through-named-func-type",
                          "`type F func() int; var f F = ...; var unused = f()`: Go and the all-alive link print %r, the normally linked program prints %r "
                          "(the initialiser with the call was eliminated)" % (nat["text"], nrm["text"]),
                          dict(kind="program", files={"main.go": WITNESS_NAMED_FUNC}, normal=nrm, all_alive=al, native=nat))
        elif not (nrm["text"] == nat["text"] == al["text"]):
            ctx.violation("dce-changes-behaviour", "named-func-type witness behaves in an unexpected way",
                          dict(kind="program", files={"main.go": WITNESS_NAMED_FUNC}, normal=nrm, all_alive=al, native=nat))


def witness_selfref(ctx):
    # F14: self-referential inline constraint -> unbounded recursion in dce.filterGen
    d = os.path.join(wdir(ctx), "w_selfref")
    C.write_go_program(d, {"main.go": WITNESS_SELFREF_CONSTRAINT})
    rc, log = C.gopherjs_build(d, timeout=600)
    rcn, logn = C.sh(["go", "run", "."], cwd=d, env=C.goenv(), timeout=600)
    ctx.cov["witness_selfref_constraint"] = dict(gopherjs_build_rc=rc, native_rc=rcn, native_output=logn.strip()[-40:])
    if rc == 124 or rcn == 124:
        ctx.notes.append("self-referential-constraint witness skipped (infrastructure): timeout")
    elif rcn == 0 and rc != 0:
        in_dce = "dce.(*filterGen)" in log or "stack overflow" in log
        ctx.violation("dce-filter-stack-overflow-selfref-inline-constraint" if in_dce else "compiler-crash-on-valid-program",
                      "`func dbl[T interface{ Double() T }](x T) T`: Go compiles and prints 8; gopherjs build dies (%s) while naming the "
                      "declaration for DCE (filterGen.TypeParam -> Interface -> Signature -> TypeParam ...)" % ("stack overflow" if "stack overflow" in log else "rc %d" % rc),
                      dict(kind="build", files={"main.go": WITNESS_SELFREF_CONSTRAINT}, gopherjs=log[:600] + "\n...\n" + "\n".join(l for l in log.split("\n") if "dce." in l)[:1200],
                           native=logn[-200:]))


# ---------------------------------------------------------------- (3) HasSideEffect

import c05_expr


def side_effects(ctx):
    r = ctx.rng("exprs")
    n = 600 if ctx.quick else 12000
    exprs = [c05_expr.gen_top(r) for _ in range(n)]
    src = c05_expr.PRELUDE + "\n".join("var v%d = %s" % (i, c05_expr.to_go(e)) for i, e in enumerate(exprs)) + "\n"
    rc, out, err = C.sh2([HARNESS(), "hse"], inp=src.encode(), timeout=600)
    if rc == 124:
        ctx.notes.append("expression stage skipped (infrastructure): the hse harness timed out"); return
    if rc != 0:
        raise C.BuildError("c05 harness (hse) failed: " + err[-800:])
    res = json.loads(out)
    got = {x["name"]: x["hse"] for x in res}
    dist = dict(exprs=n, with_side_effect=0, may_panic_but_no_side_effect=0)
    lines = []
    for i, e in enumerate(exprs):
        g = got["v%d" % i]
        dist["with_side_effect"] += g
        spec = c05_expr.has_call_or_recv(e)      # the documented meaning of HasSideEffect, from scratch
        ctx.count(["expr", c05_expr.to_go(e)], nontrivial=c05_expr.size(e) > 2)
        if spec and not g:
            # the property-relevant direction: a call / receive the analysis does not see (the other direction -- func literal bodies,
            # conversions to func types -- is conservative and is compared with the model below)
            named = "nf" in c05_expr.to_go(e)
            ctx.violation("dce-drops-initializer-calling-through-named-func-type" if named else "has-side-effect-misses-call-or-receive",
                          "analysis.HasSideEffect(%s) = false but the expression contains a function call / receive" % c05_expr.to_go(e),
                          dict(kind="expr", go=c05_expr.to_go(e), impl=g, expected=spec))
        if not g and c05_expr.may_panic(e):
            dist["may_panic_but_no_side_effect"] += 1
        lines.append("(%s, %s)" % (c05_expr.to_coq(e), coq_bool(g)))
    shard = 300
    shards = [lines[i:i + shard] for i in range(0, len(lines), shard)]

    def run_shard(k):
        p = os.path.join(wdir(ctx), "cases_e_%d.v" % k)
        with open(p, "w") as f:
            f.write("From Coq Require Import List Bool NArith.\nFrom Verif Require Import Model.C05_SideEffect Corr.C05_Eval.\nImport ListNotations.\n")
            f.write("Definition cases : list (expr * bool) := [\n" + ";\n".join(shards[k]) + "].\n")
            f.write("Definition M := Eval vm_compute in hse_mismatches cases.\nPrint M.\n")
        rc, out = C.coq_run(p)
        m = re.search(r"M\s*=\s*(\[[^\]]*\])", out.replace("\n", " "))
        if rc != 0 or not m:
            return k, None, out[-800:]
        return k, [int(x.replace("%N", "")) for x in re.findall(r"\d+(?:%N)?", m.group(1))], ""

    mism = 0
    for k, idxs, e in C.parallel_map(run_shard, range(len(shards))):
        if idxs is None:
            if not drop_timeouts(ctx, [e]):
                continue
            ctx.violation("model-eval-failed", "Coq evaluation of the side-effect model failed", dict(log=e), concrete=False); continue
        for i in idxs:
            mism += 1
            ex = exprs[k * shard + i]
            ctx.violation("side-effect-model-mismatch", "model has_side_effect and analysis.HasSideEffect disagree on " + c05_expr.to_go(ex),
                          dict(kind="expr", go=c05_expr.to_go(ex), impl=got["v%d" % (k * shard + i)]), concrete=False)
    dist["model_mismatches"] = mism
    ctx.cov["expr_distribution"] = dist


# ---------------------------------------------------------------- (5) recorded names and dependencies (phase 4)

REC_HEADER = ("From Coq Require Import List String NArith.\nFrom Verif Require Import Model.C05_Select Model.C05_Record Corr.C05_RecEval.\n"
              "Import ListNotations.\nLocal Open Scope string_scope.\nLocal Open Scope list_scope.\n")


def records(ctx):
    """abstract programs -> Go source through the REAL compiler (h_c05 link dumps every Decl's DCE names, deps, selection) vs the mirrored
    recorder Model.C05_Record.compile + select on the same abstract program (Coq vm_compute)"""
    r = ctx.rng("records")
    n = 16 if ctx.quick else 600
    n = int(os.environ.get("VERIF_C05_NREC", n))           # development knob only
    gens = [c05_rec.gen(r) for _ in range(n)]

    def one(i):
        d = os.path.join(wdir(ctx), "r%d" % i)
        try:
            C.write_go_program(d, {"main.go": gens[i].go()})
            os.makedirs(os.path.join(d, "o"), exist_ok=True)
            rc, out, err = C.sh2([HARNESS(), "link", "o"], cwd=d, env=henv(), timeout=600)
            if rc == 124 or (rc != 0 and not os.path.exists(os.path.join(d, "main.go"))):
                return ("infra", "compile+link timed out / scratch directory disappeared")
            if rc != 0:
                return ("build", (out + err)[-800:])
            return ("ok", c05_rec.real_rdecls(json.load(open(os.path.join(d, "o", "decls.json")))))
        except Exception as e:      # noqa
            return ("infra", "harness driver raised " + repr(e))

    results = C.parallel_map(one, range(n))
    cases, feats = [], {}
    for i, (st, val) in enumerate(results):
        if st == "infra":
            ctx.notes.append("recorder case skipped (infrastructure): " + val[:160])
        elif st == "build" or val is None:
            ctx.violation("recorder-program-rejected", "a generated abstract program did not compile: " + str(val)[-300:],
                          dict(kind="record", go=gens[i].go(), log=str(val)), concrete=False)
        else:
            cases.append((i, val))
            kinds = sorted({x[0] for f in gens[i].funcs for _, refs in f["stmts"] for x in refs})
            for k in kinds:
                feats[k] = feats.get(k, 0) + 1
            ctx.count(["record", gens[i].go()], nontrivial=any(not x["sel"] for x in val) and len(kinds) >= 2)
    shard = 12
    shards = [cases[k:k + shard] for k in range(0, len(cases), shard)]

    def run_shard(k):
        p = os.path.join(wdir(ctx), "rec_%d.v" % k)
        with open(p, "w") as f:
            f.write(REC_HEADER)
            f.write("Definition cases : list rcase := [\n" + ";\n".join(
                "{| rc_prog := %s;\n rc_real := %s |}" % (gens[i].coq(), c05_rec.coq_real(rs)) for i, rs in shards[k]) + "].\n")
            f.write("Definition M := Eval vm_compute in rec_mismatches cases.\nPrint M.\n")
        rc, out = C.coq_run(p)
        flat = out.replace("\n", " ")
        m = re.search(r"M\s*=\s*(\[.*\])\s*:\s*list", flat)
        if rc != 0 or not m:
            return k, None, out[-800:]
        bad = [(int(a), [int(x) for x in re.findall(r"\d+", b)]) for a, b in re.findall(r"\((\d+)%N,\s*\[([^\]]*)\]\)", m.group(1))]
        return k, bad, ""

    errs, nbad = [], 0
    for k, bad, err in C.parallel_map(run_shard, range(len(shards))):
        if bad is None:
            errs.append(err)
            continue
        for ci, idxs in bad:
            i, rs = shards[k][ci]
            nbad += 1
            real_side = [rs[x - 1000] for x in idxs if 1000 <= x < 1000 + len(rs)]
            what = ("real Decls without an equal model Decl: " + "; ".join("%s obj=%r meth=%r deps=%r selected=%r" % (
                x["full_name"], x["obj"], x["meth"], x["deps"], x["sel"]) for x in real_side[:3])) if real_side else "Decl count differs"
            if nbad <= 3:
                ctx.violation("dce-recorded-names-or-deps-differ-from-model",
                              "the DCE names / dependencies / selection the real compiler records for a generated program differ from the mirrored "
                              "recorder (Model.C05_Record) on the same abstract program; " + what[:900],
                              dict(kind="record", go=gens[i].go(), coq_prog=gens[i].coq(), real=rs, model_decl_indexes=[x for x in idxs if x < 999],
                                   real_decl_indexes=[x - 1000 for x in idxs if x >= 1000]), concrete=False)
    errs = drop_timeouts(ctx, errs)
    if errs:
        ctx.violation("model-evaluation-failed", "Coq evaluation of the recorder cases failed: " + errs[0][-300:], dict(log=errs[0]), concrete=False)
    ctx.cov["records"] = dict(programs=n, compared=len(cases), decls=sum(len(v) for _, v in cases), mismatching=nbad, mention_kinds=feats)


def replay_record(ctx, rp):
    d = os.path.join(wdir(ctx), "replay_rec")
    C.write_go_program(d, {"main.go": rp["go"]})
    os.makedirs(os.path.join(d, "o"), exist_ok=True)
    rc, out, err = C.sh2([HARNESS(), "link", "o"], cwd=d, env=henv(), timeout=600)
    print("real compiler: rc=%d %s" % (rc, (out + err)[-300:]))
    if rc == 0:
        for x in c05_rec.real_rdecls(json.load(open(os.path.join(d, "o", "decls.json")))):
            print("  real ", x["tag"], x["obj"], x["meth"], x["deps"], x["sel"])
    p = os.path.join(d, "show.v")
    with open(p, "w") as f:
        f.write(REC_HEADER + "Definition S := Eval vm_compute in show %s.\nPrint S.\n" % rp["coq_prog"])
    print("model:", C.coq_run(p)[1][-6000:])


def correspond(ctx):
    try:
        correspond_(ctx)
    finally:
        d = getattr(ctx, "_c05_dir", None)
        if d:
            shutil.rmtree(d, ignore_errors=True)


def correspond_(ctx):
    wdir(ctx)          # create it in the main thread
    stages = os.environ.get("VERIF_C05_STAGES", "graphs,exprs,witnesses,records,programs").split(",")   # development knob only
    if "graphs" in stages:
        graphs(ctx); ctx.log("graphs done")
    if "exprs" in stages:
        side_effects(ctx); ctx.log("side-effect expressions done")
    if "witnesses" in stages:
        witnesses(ctx); ctx.log("witnesses done")
    if "records" in stages:
        records(ctx); ctx.log("recorder programs done")
    if "programs" in stages:
        programs(ctx); ctx.log("programs done")


def replay(ctx, data):
    rp = data["replay"]
    if rp.get("kind") == "graph":
        rc, out, err = C.sh2([HARNESS(), "select"], inp=json.dumps([rp["graph"]]).encode())
        print("implementation now:", out.strip(), err.strip())
        print("recorded impl:", json.dumps(rp.get("impl")))
        print("least fixed point (spec):", lfp([rp["graph"]["decls"][i] for i in rp["graph"]["order"]]))
    elif rp.get("kind") == "program":
        d = os.path.join(wdir(ctx), "replay")
        res = build_and_check(ctx, d, rp["files"], native=True)
        res.pop("dump", None)
        print(json.dumps(res, indent=1))
    elif rp.get("kind") == "record":
        replay_record(ctx, rp)
    elif rp.get("kind") == "expr":
        src = c05_expr.PRELUDE + "var v0 = " + rp["go"] + "\n"
        print(C.sh2([HARNESS(), "hse"], inp=src.encode()))
        print("recorded:", rp)
    else:
        print(json.dumps(data, indent=1))
    return 0


TECHNIQUE = ("Coq proof (loop invariant of the work-list selector, least-fixed-point characterisation, order independence, monotonicity, soundness w.r.t. any "
             "reference relation over-approximated by the recorded deps; phase 4: executable mirror of the DCE recorder (filter strings + DeclareDCEDep call sites) "
             "over an abstract syntax of mentions, proof that the recorded names/deps cover every reference and every method-set dispatch, hence soundness of the "
             "selection without the over-approximation hypothesis) + differential correspondence with the real dce.Selector, analysis.HasSideEffect, the real "
             "recorded filters/deps of every Decl of generated programs, and double linking (normal / every Decl forced alive) of generated programs")
LEVEL_TEXT = ("Machine-checked theorems over an executable model of dce.Info/Selector/Include: the selection is exactly the least set containing the roots and closed "
              "under `all non-empty filters are deps of selected declarations`, independent of Include order, dep order and duplicates, monotone, and contains "
              "everything reachable from the roots through any reference relation that the recorded deps over-approximate. Phase 4: for programs over the modelled "
              "mentions (package functions/variables, named types through pointers/slices/maps/func types, generic instances, concrete/promoted/interface method calls "
              "and values, method expressions) the recording itself is in the model and C05_select_sound proves, with no hypothesis on the deps, that every declaration "
              "that can be executed or reached by a dynamically possible interface call is selected (C05_recorded_deps_cover_references, C05_method_filter_agrees, "
              "C05_filter_subst), for alias-free spellings; the two historic byte/uint8 counterexamples (repaired by fix 757816d) are positive witnesses, replayed on the real compiler on every run. The models are tied to "
              "the code on every run (random graphs, decl graphs of real programs, recorded filters/deps/selection of every Decl of generated abstract programs); outside "
              "the modelled syntax the over-approximation hypothesis is checked by linking the same archives with and without DCE and a static reference check of out.js.")
LEVEL_NOTE = ("The proof covers the selection algorithm, the root rule and (phase 4) the recorder for the modelled syntax; for struct/interface literals in signatures, "
              "non-any constraints, function-nested types and linknames the adequacy of the recorded dependencies is still a hypothesis (C05_select_sound_partial) that is only "
              "tested (48 programs quick / 500 thorough). The struct zero-value closure and the collapsing of anonymous-type Decls are done by the harness. Known findings: "
              "initialisers that can panic without a call/receive are eliminated (HasSideEffect) -- kept in the model and refuted in Props/C05.v; byte/uint8 (rune/int32) spelled "
              "differently in interface and implementation of an unexported method eliminates the method, and (new) a generic instance spelled F[byte] in dead code and F[uint8] "
              "in live code is eliminated -- both REPAIRED in /repo (fix 757816d), the recorder model follows the repaired printer and Props/C05.v holds the positive witnesses (C05_method_filter_alias_witness_agrees, C05_select_sound_alias_witness_iface/_instance); "
              "a self-referential inline type-parameter constraint overflows the stack in filters.go (not in the model). No axioms.")
