"""C04 — every used generic instantiation exists, is distinct and behaves correctly.
Model: coq/Model/C04_Inst.v (Collector.Scan/Finish/propagate, InstanceSet, Resolver substitution, isGeneric);
theorems: coq/Props/C04.v.

Correspondence:
 (1) collector: random MODEL programs (harness/py/c04_gen.py: generic functions, generic types with value/pointer
     methods, types declared inside generic functions, constraints any/comparable/numeric union/core type ~[]E,
     self-recursive and mutually recursive finite instantiation, 1-3 generic packages + main instantiating each other)
     are printed as Go packages, type-checked with go/types and run through the REAL typeparams.Collector
     (overlay harness c04): once with the real Finish, once with the real propagate in an explicit package order.
     - direct oracle: the Finish result SET must equal the least fixpoint computed from scratch in Python
       (instances reachable by template substitution), lists must be duplicate free, InstanceSet.ID = position;
     - model: the per-package discovery LISTS must equal Coq's `collect` for the same package order.
 (2) run time: the same programs compiled with the real compiler and run under node. Every instance records its name
     and its type arguments ((*T)(nil) values, deduplicated through a map keyed by [3]any = interface comparison /
     map-key distinctness), zero values, arithmetic width (T(100)*T(100)*T(7), T(0)-T(1)<0), comparable/map probes,
     core-type append, channel send/receive, method dispatch through an interface assertion, type switch in main over
     *T for every closed type argument of the predicted instance set. Output must equal native Go's (all programs are
     linked into one native binary) and its E/N/U lines must equal the trace predicted from the model program.
 (3) fixed witness programs of the known defects (see known_findings.d/C04.txt).
"""
import json, os, re
import common as C
import c04_gen as G
import c04_p4 as P4

ID = "C04"
PROPS_FILE = "Props/C04.v"
MODEL_TARGETS = ["Corr/C04_Eval.v", "Corr/C04_P4_Eval.v"]
ALLOWED_AXIOMS = []
RULE = ("model programs: 3-9 (thorough: up to 14) generic objects over 1-3 packages + main; arity 1-2; constraints any/comparable/"
        "numeric union/~[]E; references carry type expressions of depth <= 2 over own/nest parameters (growth only towards "
        "lower-ranked objects, closed or permuted arguments on back/self edges so the instance set is finite); local generic and "
        "non-generic types inside generic functions; explicit and inferred instantiation (cross-package calls inside generic "
        "code only inferred: explicit ones are known finding F12); random package order per case. non-trivial = at least one "
        "instance discovered by propagation (not a seed); distinct by program text + order")
TRUSTED = ["go/types (type checking, inference, Info.Instances/Defs, types.Identical) - the model takes the recorded identifiers as given",
           "model of Collector/InstanceSet/Resolver/isGeneric written by hand (coq/Model/C04_Inst.v), tied by this correspondence",
           "harness/py/c04_gen.py prints the Go source whose ast.Walk identifier order is the model template (checked through the exact list comparison)",
           "per-instance body translation (compiler/decls.go, functions.go) is not modelled; it is covered by the compiled-program comparison with native Go",
           "phase 4: the spelling of closed types and objects (types.TypeString, symbol.New, the JS variable allocated by funcContext.newVariable) is a table given to the naming model (coq/Model/C04_P4_Name.v); the check verifies on every compiled program that distinct generic objects of a package have distinct variables",
           "phase 4: typeutil.Hasher is a parameter of the InstanceMap model (coq/Model/C04_P4_Map.v): the refinement theorem holds for every hash function; Go maps im.data[obj][hash] are modelled as an association list",
           "phase 4: harness/go/repo_overlay/compiler/verifharness/c04p4 + export_c04_p4_verif.go (bucket statistics only); harness/py/c04_p4.py (generators, Python oracles); the build scans packages in ascending import path order (build.Session), which is the seed order given to the model for the emitted-name cases",
           "harness/go/repo_overlay/compiler/verifharness/c04 + compiler/internal/typeparams/export_c04_verif.go (exports propagate/allExhausted)",
           "native Go 1.23 as the reference for run-time behaviour; node 20"]
ASSUMPTIONS = ["types.Identical on the generated type arguments coincides with structural equality of the model terms",
               "the instantiation is finite (go/types rejects instantiation cycles); theorems are conditional on all_exhausted",
               "types declared inside generic functions are not used as type arguments or inside composite types (known findings otherwise)",
               "phase 4: vars_distinct (newVariable gives distinct objects of one package distinct JS variables) is a hypothesis of C04_js_ref_injective for trivial instances only; checked on the compiled programs"]

KF_QUAL = "compiler-panic-qualified-generic-explicit-inst-in-generic"
KF_LOCALARG = "compiler-panic-local-type-of-generic-func-as-type-arg"
KF_LOCALCOMP = "compiler-panic-composite-of-local-type-in-generic-func"


def prepare(ctx):
    C.ensure_go_harness("c04")
    C.ensure_go_harness("c04p4")
    C.ensure_gopherjs()


# ---------------------------------------------------------------- helpers

def run_harness(cases, timeout=600):
    h = os.path.join(C.BIN, "h_c04")
    rc, out, err = C.sh2([h], inp=json.dumps(cases).encode(), timeout=timeout)
    if rc == 124:
        return None                     # infrastructure (overloaded machine): the caller skips these cases
    if rc != 0:
        raise C.BuildError("c04 harness failed: " + (err or out)[-500:])
    return json.loads(out)


def gen_programs(ctx, n, stream, big=False):
    r = ctx.rng(stream)
    progs = []
    tries = 0
    while len(progs) < n and tries < n * 5:
        tries += 1
        g = G.Gen(r, big=big)
        P = g.program()
        S = G.finalize_tags(P)
        if S is None or len(S) > 400:
            continue
        P.expected = S
        # the real Finish visits packages in ascending import path order: "verifc04" (main) < "verifc04/p0" < ...
        P.sorted_order = [P.npkg] + list(range(P.npkg))
        P.order = list(P.sorted_order)
        if len(progs) % 2 == 1:
            r.shuffle(P.order)            # every other program: a random order through the exported propagate
        progs.append(P)
    return progs


def coq_case(P, order, rounds, lists):
    return "{| c_prog := %s;\n c_order := [%s]; c_rounds := %d%%nat;\n c_expect := [%s] |}" % (
        G.coq_prog(P), "; ".join("%d%%nat" % k for k in order), rounds,
        ";\n  ".join("[" + "; ".join(G.coq_inst(i) for i in l) + "]" for l in lists))


def eval_coq(ctx, vcases, shard=10, tag="cases"):
    if not vcases:
        return set(), []
    """returns set of failing case indices, or None entries for shards that failed to evaluate"""
    shards = [vcases[i:i + shard] for i in range(0, len(vcases), shard)]

    def run_shard(k):
        p = os.path.join(ctx.work, "%s_%d.v" % (tag, k))
        with open(p, "w") as f:
            f.write("From Coq Require Import List NArith.\nFrom Verif Require Import Model.C04_Inst Corr.C04_Eval.\nImport ListNotations.\nLocal Open Scope N_scope.\n")
            f.write("Definition cases : list case := [\n" + ";\n".join(shards[k]) + "].\n")
            f.write("Definition M := Eval vm_compute in mismatches cases.\nPrint M.\n")
        rc, out = C.coq_run(p)
        m = re.search(r"M\s*=\s*(\[[^\]]*\])", out.replace("\n", " "))
        if rc == 124 or "[timeout after" in out:
            return k, "timeout", ""
        if rc != 0 or not m:
            return k, None, out[-800:]
        return k, [int(x.replace("%N", "")) for x in re.findall(r"\d+(?:%N)?", m.group(1))], ""

    bad, failed = set(), []
    for k, idxs, err in C.parallel_map(run_shard, range(len(shards))):
        if idxs == "timeout":
            ctx.notes.append("skipped Coq shard %s/%d: timed out" % (tag, k))
        elif idxs is None:
            failed.append((k, err))
        else:
            bad.update(k * shard + i for i in idxs)
    return bad, failed


def harness_case(P, files_pk=None):
    if files_pk is None:
        _, files_pk = G.sources(P)
    return dict(pkgs=[dict(path=p, files=f) for p, f in files_pk], order=[P.pkg_path(k) for k in P.order])


# ---------------------------------------------------------------- (1) collector

def collector_stream(ctx, progs, label, missing_sig="instance-missing"):
    cases = [harness_case(P, getattr(P, "files_pk", None)) for P in progs]
    nsh = max(1, min(C.NCPU, len(cases) // 8))
    chunks = [cases[i::nsh] for i in range(nsh)]
    res_chunks = C.parallel_map(run_harness, chunks)
    results = [None] * len(cases)
    for s, rc in enumerate(res_chunks):
        if rc is None:
            ctx.notes.append("skipped %d collector cases of %s: harness timed out" % (len(chunks[s]), label))
            continue
        for j, r in enumerate(rc):
            results[s + j * nsh] = r
    dist = dict(programs=len(progs), instances=0, propagated=0, local_type_instances=0, method_instances=0, max_set=0,
                packages={}, rounds={}, finish_equals_sorted_path_order=0, finish_list_differs_from_given_order=0)
    vcases, vidx = [], []
    for idx, (P, res) in enumerate(zip(progs, results)):
        if res is None:
            continue
        src = cases[idx]["pkgs"]
        rep = dict(kind="collector", pkgs=src, order=cases[idx]["order"])
        exp = {G.inst_canon(P, i): i for i in P.expected}
        faithful = {G.inst_canon(P, i): i for i in getattr(P, "faithful", P.expected)}   # with isGeneric's lazy rule (witnesses)
        nseed = len(seed_set(P))
        ctx.count([src, cases[idx]["order"]], nontrivial=len(exp) > nseed)
        if res["error"]:
            ctx.violation("collector-harness-error", "type check / Collector failed on a generated program: " + res["error"][:200],
                          dict(rep, error=res["error"]), concrete=res["error"].startswith("panic"))
            continue
        dist["instances"] += len(exp)
        dist["propagated"] += len(exp) - nseed
        dist["max_set"] = max(dist["max_set"], len(exp))
        dist["local_type_instances"] += sum(1 for i in P.expected if P.objs[i[0]].kind == "ltype")
        dist["method_instances"] += sum(1 for i in P.expected if P.objs[i[0]].kind == "method")
        dist["packages"][P.npkg + 1] = dist["packages"].get(P.npkg + 1, 0) + 1
        dist["rounds"][res["rounds"]] = dist["rounds"].get(res["rounds"], 0) + 1
        # ---- the property's own predicate on the implementation's output
        fin = [x for v in res["finish"].values() for x in v]
        bad = None
        missing = sorted(set(exp) - set(fin))
        extra = sorted(set(fin) - set(exp))
        if missing:
            bad = (missing_sig, "an instance reachable by template substitution is not collected by Collector.Finish: " + missing[0])
        elif extra:
            bad = ("instance-extra", "Collector.Finish collected an instance that is not reachable: " + extra[0])
        elif len(fin) != len(set(fin)) or any(len(v) != len(set(v)) for v in res["ordered"].values()):
            bad = ("instance-duplicated", "the same (object, type arguments) was given two ids")
        elif not res["ids_ok"]:
            bad = ("instance-id-not-position", "InstanceSet.ID(values[i]) != i")
        elif set(x for v in res["ordered"].values() for x in v) != set(fin):
            bad = ("instance-set-order-dependent", "the collected SET depends on the order in which packages are visited")
        elif res["finish"] != res.get("sorted", res["finish"]) or (P.order == getattr(P, "sorted_order", None) and res["finish"] != res["ordered"]):
            ctx.violation("finish-order-model-mismatch", "the real Finish does not produce the lists of propagate in ascending import path order "
                          "(the model's Finish = collect with that order)", dict(rep, finish=res["finish"], sorted=res.get("sorted")), concrete=False)
            continue
        if bad:
            ctx.violation(bad[0], bad[1], dict(rep, finish=res["finish"], ordered=res["ordered"], expected=sorted(exp)))
            if not (bad[0] == missing_sig and missing_sig != "instance-missing" and set(fin) == set(faithful)):
                continue
            exp = faithful                     # known finding: still compare the faithful model with the real lists
        # ---- model case: exact discovery lists for the given package order
        lists = []
        for k in range(P.npkg + 1):
            lists.append([exp.get(s) for s in res["ordered"].get(P.pkg_path(k), [])])
        if any(i is None for l in lists for i in l):
            ctx.violation("collector-model-mismatch", "the real propagate produced an instance the model does not know",
                          dict(rep, ordered=res["ordered"]), concrete=False)
            continue
        vcases.append(coq_case(P, P.order, res["rounds"] + 1, lists))
        vidx.append(idx)
        if idx < 2:
            ctx.sample(dict(kind="collector", order=cases[idx]["order"], ordered={k: v[:6] for k, v in res["ordered"].items()},
                            source_main=src[-1]["files"]["main.go"][:600]))
        # informational (C17): does the real Finish list equal what ascending path order gives?
        if res["finish"] != res["ordered"]:
            dist["finish_list_differs_from_given_order"] += 1
        if res["finish"] == res.get("sorted"):
            dist["finish_equals_sorted_path_order"] += 1
    bad, failed = eval_coq(ctx, vcases, tag=label)
    for k, err in failed:
        ctx.violation("model-eval-failed", "Coq evaluation of the model failed", dict(shard=k, log=err), concrete=False)
    for b in sorted(bad):
        idx = vidx[b]
        ctx.violation("collector-model-mismatch", "model `collect` and the real Collector.propagate disagree on the discovery lists "
                      "(correspondence Corr/C04_Eval.case_ok broken)",
                      dict(kind="collector", pkgs=cases[idx]["pkgs"], order=cases[idx]["order"], ordered=results[idx]["ordered"],
                           coq_case=vcases[b][:4000]), concrete=False)
    dist["model_mismatches"] = len(bad)
    dist["model_cases"] = len(vcases)
    ctx.cov["collector_" + label] = dist
    return results


def seed_set(P):
    s = set()
    for it in G.seed_template(P):
        i = G.produced(P, None, it, False)
        if i:
            for j in G.with_methods(P, i):
                s.add(j)
    return s


# ---------------------------------------------------------------- (2) run time

def native_outputs(ctx, progs, label):
    """link all programs into ONE native binary (package qN per program) and run it; returns list of line lists"""
    d = os.path.join(ctx.work, "native_" + label)
    files = {}
    main = ["package main", "", "import ("]
    for n, P in enumerate(progs):
        fs, _ = G.sources(P, mod="verifnat/q%d" % n, mainpkg="q%d" % n)
        for fn, src in fs.items():
            files["q%d/%s" % (n, fn)] = src
        main.append('\t"verifnat/q%d"' % n)
    main += [")", "", "func main() {"]
    for n in range(len(progs)):
        main += ['\tprintln("=== %d")' % n, "\tq%d.Main()" % n]
    main += ["}", ""]
    files["main.go"] = "\n".join(main)
    C.write_go_program(d, files, module="verifnat")
    rc, out, err = C.sh2(["go", "run", "."], cwd=d, env=C.goenv(), timeout=1500)
    if rc != 0:
        return None, err[-1500:]
    outs, cur = [], None
    for l in err.split("\n"):
        if l.startswith("=== "):
            cur = []
            outs.append(cur)
        elif l and cur is not None:
            cur.append(l)
    return outs, ""


def runtime_stream(ctx, progs, label, results=None):
    nat, err = native_outputs(ctx, progs, label)
    if nat is None and "[timeout after" in err:
        ctx.notes.append("skipped runtime group %s: native build timed out" % label)
        return
    if nat is None:
        ctx.violation("native-build-failed", "native Go rejected a generated program (generator defect, not a finding)", dict(log=err), concrete=False)
        return
    dist = dict(programs=len(progs), lines=0, enter_events=0, value_probes=0, distinct_keys=0,
                js_definitions=0, js_type_strings=0, js_instances_expected=0, js_model_cases=0)
    jcases, jreps = [], []

    def one(n):
        P = progs[n]
        d = os.path.join(ctx.work, "rt_%s_%d" % (label, n))
        files, _ = G.sources(P)
        C.write_go_program(d, files, module=G.MOD)
        rc, log = C.gopherjs_build(d)
        if rc != 0:
            return n, files, None, log
        rc, out, err2 = C.run_node(os.path.join(d, "out.js"))
        with open(os.path.join(d, "out.js")) as f:
            JSDEFS[(label, n)] = "\n".join(m.group(0) for m in P4.JS_DEF.finditer(f.read()))
        return n, files, [l for l in out.split("\n") if l], (err2 if rc != 0 else "")

    JSDEFS = {}
    for n, files, lines, log in C.parallel_map(one, range(len(progs))):
        P = progs[n]
        rep = dict(kind="program", files=files)
        ctx.count(["program", files], nontrivial=True)
        # ---- phase 4: the names under which the instances are emitted (JS reference, $newType string)
        res = results[n] if results is not None and n < len(results) else None
        if (label, n) in JSDEFS and res is not None and not res["error"] and P.order is not None:
            jc = P4.js_names_case(ctx, P, JSDEFS[(label, n)], res, rep, dist)
            if jc is not None:
                jcases.append(jc)
                jreps.append(rep)
        gol = nat[n] if n < len(nat) else []
        pred = G.predict_trace(P)
        if lines is None and "[timeout after" in log:
            ctx.notes.append("skipped program %s/%d: gopherjs build timed out" % (label, n))
            continue
        if log and "[timeout after" in log:
            ctx.notes.append("skipped program %s/%d: node timed out" % (label, n))
            continue
        if lines is None:
            ctx.violation(classify_build_failure(log), "gopherjs build failed on a generated generic program: " + first_line(log), dict(rep, log=log[-1500:], native=gol[:50]))
            continue
        if lines != gol:
            k = next((i for i, (a, b) in enumerate(zip(lines, gol)) if a != b), min(len(lines), len(gol)))
            a = lines[k] if k < len(lines) else "<end>"
            b = gol[k] if k < len(gol) else "<end>"
            sig = "runtime-" + {"E": "instance-trace", "V": "zero-or-value", "I": "arith-or-len", "B": "bool-probe", "N": "local-type",
                                "U": "type-identity", "K": "distinct-keys"}.get((a if a != "<end>" else b)[:1], "output") + "-differs"
            if log:
                sig = "runtime-error-in-instance"
            ctx.violation(sig, "compiled program differs from native Go at line %d: gopherjs %r, go %r %s" % (k, a, b, log[:200]),
                          dict(rep, gopherjs=lines[:200], native=gol[:200], stderr=log[-800:]))
            continue
        got = [l for l in lines if l[0] in "ENU"]
        if got != pred:
            ctx.violation("runtime-model-trace-mismatch", "the instance trace predicted from the model program differs from what native Go and gopherjs print",
                          dict(rep, predicted=pred[:100], got=got[:100]), concrete=False)
            continue
        dist["lines"] += len(lines)
        dist["enter_events"] += sum(1 for l in lines if l[0] == "E")
        dist["value_probes"] += sum(1 for l in lines if l[0] in "VIB")
        dist["distinct_keys"] += int(lines[-1][2:]) if lines and lines[-1].startswith("K ") else 0
        if n < 1:
            ctx.sample(dict(kind="program", output=lines[:25]))
    bad, failed = P4.coq_eval(ctx, "p4js_" + label, "jcase", "js_mismatches", jcases, 6)
    for k, err in failed:
        ctx.violation("model-eval-failed", "Coq evaluation of the emitted-name cases failed", dict(shard=k, log=err), concrete=False)
    for b in sorted(bad)[:5]:
        ctx.violation("instance-js-name-model-mismatch", "model js_name / type_string (ids from `collect`) and the names in the compiled program disagree",
                      dict(jreps[b], coq_case=jcases[b][:4000]), concrete=False)
    dist["js_model_cases"] = len(jcases)
    dist["js_model_mismatches"] = len(bad)
    ctx.cov["runtime_" + label] = dist


def first_line(log):
    for l in log.split("\n"):
        if l.strip():
            return l.strip()[:200]
    return ""


def classify_build_failure(log):
    """signatures for build failures of RANDOM programs. The generator avoids the input classes of the known findings,
    so these never coincide with a known-finding key (only the fixed witnesses carry those)."""
    if "Substituting types.Signatures with generic functions" in log:
        return "compiler-panic-substituting-generic-signature-on-generated-program"
    if "did not have function declaration instance" in log:
        return "compiler-panic-function-instance-missing"
    if "requesting ID of instance" in log:
        return "compiler-panic-instance-id-missing"
    if "compiler panic" in log or "panic:" in log:
        return "compiler-panic-on-generic-program"
    return "gopherjs-build-failed"


# ---------------------------------------------------------------- (3) witnesses of the known defects

WIT_TR = G.TR_SRC

WITNESSES = [
    dict(name="qualified-explicit-inst", sig=KF_QUAL, expect="1", files={
        "p0/p0.go": "package p0\n\nfunc G[T any](x T) int { return 1 }\n",
        "main.go": 'package main\n\nimport "verifc04/p0"\n\nfunc A[T any](x T) int { return p0.G[[]T](nil) }\n\nfunc main() { println(A[int](1)) }\n'},
         control={"main.go": 'package main\n\nfunc G[T any](x T) int { return 1 }\n\nfunc A[T any](x T) int { return G[[]T](nil) }\n\nfunc main() { println(A[int](1)) }\n'}),
    dict(name="local-type-arg-mentions-param", sig=KF_LOCALARG, expect="false true", files={
        "main.go": "package main\n\nfunc G[T any]() any { var z T; return z }\n\nfunc A[X any]() any {\n\ttype L struct{ x X }\n\treturn G[L]()\n}\n\n"
                   "func main() {\n\ta := A[int]()\n\tb := A[string]()\n\tprintln(a == b, a == a)\n}\n"}),
    dict(name="local-type-arg-closed", sig=KF_LOCALARG, expect="false true", files={
        "main.go": "package main\n\nfunc G[T any]() any { var z T; return z }\n\nfunc A[X any]() any {\n\ttype L struct{ n int }\n\treturn G[L]()\n}\n\n"
                   "func main() {\n\ta := A[int]()\n\tb := A[string]()\n\tprintln(a == b, a == a)\n}\n"}),
    dict(name="local-type-composite", sig=KF_LOCALCOMP, expect="2", files={
        "main.go": "package main\n\nfunc A[X any]() int {\n\ttype L struct{ n int }\n\ts := []L{{1}, {2}}\n\treturn len(s)\n}\n\nfunc main() { println(A[int]()) }\n"}),
]


def witness_stream(ctx):
    st = {}

    def one(w):
        d = os.path.join(ctx.work, "wit_" + w["name"])
        C.write_go_program(d, w["files"], module=G.MOD)
        rc, err = 0, w["expect"]         # what native Go prints (verified once with go run; the programs are fixed)
        rc2, log = C.gopherjs_build(d, timeout=900)
        got = None
        if rc2 == 0:
            rcn, o, e = C.run_node(os.path.join(d, "out.js"), timeout=300)
            got = o.strip()
            if rcn == 124:
                rc2 = 124
        ctl = None
        if "control" in w:
            dc = d + "_ctl"
            C.write_go_program(dc, w["control"], module=G.MOD)
            rc3, log3 = C.gopherjs_build(dc, timeout=900)
            ctl = "compiles" if rc3 == 0 else "fails"
        return w, rc, err.strip(), rc2, log, got, ctl

    for w, rc, native, rc2, log, got, ctl in C.parallel_map(one, WITNESSES):
        ctx.count(["witness", w["files"]], nontrivial=True)
        if ctl:
            st[w["name"] + "/control-unqualified"] = ctl
        if rc != 0:
            st[w["name"]] = "native-failed"
            continue
        if rc2 == 124:
            st[w["name"]] = "build timed out"
            continue
        if got != native:
            what = ("known witness %s: native Go prints %r, gopherjs %s" % (w["name"], native, ("prints %r" % got) if got is not None else "fails to compile: " + first_line(log)))
            ctx.violation(w["sig"], what, dict(kind="witness", files=w["files"], native=native, gopherjs=got, log=log[-1200:]))
            st[w["name"]] = "reproduced"
        else:
            st[w["name"]] = "not reproduced (fixed)"
    ctx.cov["witnesses"] = st


def witness_model_programs():
    """model programs of the two local-type witnesses (package main only), with their real sources"""
    out = []
    for w, lazy in ((WITNESSES[1], True), (WITNESSES[2], False)):
        P = G.Prog(0)
        g = G.Obj(0, 0, "G", "func", ["any"])
        a = G.Obj(1, 0, "A", "func", ["any"])
        l = G.Obj(2, 0, "L", "ltype", [], nest=1)
        l.lazy = lazy
        l.fields = []
        a.items = [dict(k="ldef", t=2), dict(k="call", t=0, es=[("named", 2, [])], form="explicit")]
        P.objs = [g, a, l]
        P.seed_items[0] = [dict(k="call", t=1, es=[("base", 0)], form="explicit"), dict(k="call", t=1, es=[("base", 1)], form="explicit")]
        P.expected = G.lfp(P, lazy_rule=False)
        P.faithful = G.lfp(P, lazy_rule=True)
        P.order = [0]
        P.files_pk = [(G.MOD, {"main.go": w["files"]["main.go"]})]
        out.append(P)
    return out


def correspond(ctx):
    scale = float(os.environ.get("VERIF_C04_SCALE", "1"))      # only for trying mutations quickly on a loaded machine
    n_col = int((150 if ctx.quick else 1500) * scale)
    n_rt = int((48 if ctx.quick else 420) * scale)
    progs = gen_programs(ctx, n_col, "programs")
    ctx.log("generated %d programs" % len(progs))
    col_results = collector_stream(ctx, progs, "main")
    ctx.log("collector stream done")
    P4.harness_stream(ctx, int((6 if ctx.quick else 80) * scale) or 1)
    ctx.log("phase-4 harness stream (names, InstanceMap histories, Substitute) done")
    if not ctx.quick:
        big = gen_programs(ctx, int(200 * scale), "big", big=True)
        collector_stream(ctx, big, "big")
        ctx.log("big collector stream done")
    rt = progs[:n_rt]
    step = 60
    for i in range(0, len(rt), step):
        runtime_stream(ctx, rt[i:i + step], "rt%d" % (i // step), col_results[i:i + step])
    ctx.log("runtime stream done")
    witness_stream(ctx)
    P4.shadow_witness(ctx)
    collector_stream(ctx, witness_model_programs(), "witnesses", missing_sig=KF_LOCALARG)
    ctx.log("witnesses done")


def replay(ctx, data):
    rp = data["replay"]
    if rp.get("kind") == "collector":
        res = run_harness([dict(pkgs=rp["pkgs"], order=rp["order"])])[0]
        print("implementation now:", json.dumps(res, indent=1)[:6000])
        print("recorded ordered:", json.dumps(rp.get("ordered"), indent=1)[:3000])
        print("expected set:", json.dumps(rp.get("expected"), indent=1)[:3000])
    elif rp.get("kind") == "p4":
        res = P4.run_harness([dict(src=rp["src"], insts=rp["insts"], ops=rp["ops"], substs=rp["substs"])])[0]
        print("implementation now:", json.dumps(res, indent=1)[:8000])
        print("recorded:", json.dumps({k: v for k, v in rp.items() if k not in ("src", "insts", "ops", "substs")}, indent=1)[:4000])
    elif rp.get("kind") in ("program", "witness"):
        d = os.path.join(ctx.work, "replay")
        C.write_go_program(d, rp["files"], module=G.MOD)
        rc, log = C.gopherjs_build(d)
        print("gopherjs build rc=%d\n%s" % (rc, log[-2000:]))
        if rc == 0:
            rc, out, err = C.run_node(os.path.join(d, "out.js"))
            print("gopherjs output:\n" + out + err)
        rc, out, err = C.sh2(["go", "run", "."], cwd=d, env=C.goenv())
        print("native output:\n" + err)
    else:
        print(json.dumps(data, indent=1))
    return 0


TECHNIQUE = ("Coq proof (invariant of the worklist: least fixpoint, order independence of the set, injectivity of ids and of the emitted JS "
             "references, groundness of substituted instances, refinement of the InstanceMap bucket structure to a finite map for every hash "
             "function and history) + differential correspondence with the real typeparams.Collector / Instance / InstanceMap / Resolver and "
             "with compiled programs (emitted instance names, run-time behaviour vs native Go)")
LEVEL_TEXT = ("Machine-checked theorems over an executable model of Collector.Scan/Finish/propagate, InstanceSet.Add/ID, Resolver "
              "substitution and isGeneric: whenever Finish returns, the collected set is exactly the least set containing the seed "
              "instances and closed under template substitution, for every order of package visits; ids are injective; nest-then-own "
              "substitution equals the simultaneous one. The model is tied to /repo on every run by running the real Collector on "
              "generated multi-package programs (exact discovery lists for a given order, set for the real Finish) and the emitted "
              "instances are executed under node and compared with native Go and with the trace predicted from the model. Phase 4: the JS "
              "reference objectName[id] identifies the instance (C04_js_ref_generic_injective, no hypothesis), identical instances get the same "
              "names, every collected instance is ground and its substituted signature has no type parameter (C04_subst_ground, "
              "C04_collected_signature_ground, nested instances), and InstanceMap behaves as a finite map keyed by instance identity for every "
              "hash function and every Set/Get/Has/Delete/Len history (C04_instance_map_refines, _keys). Tied by running the real Instance.String/"
              "TypeString/TypeParamsString, the real InstanceMap on histories with forced typeHash collisions (xor: permuted / moved between "
              "TNest and TArgs / doubled arguments) and the real Resolver.Substitute, and by reading the emitted `X[id /* args */] = ...` / "
              "$newType strings out of every compiled program and comparing them with js_name/type_string over the model's `collect`.")
LEVEL_NOTE = ("Proof is about the hand-written model of the instance collection, naming, substitution and InstanceMap; per-instance code generation "
              "of bodies (decls.go, functions.go, analysis) is covered only differentially (compiled programs vs native Go). The type STRING of an "
              "instance is not injective (C04_type_string_injective_refuted: shadowed local types, replayed on the compiler on every run; harmless "
              "since type identity no longer goes through strings); names of method instances and typeName for anonymous composite types are not modelled. go/types is trusted. Three compiler panics on valid "
              "generic programs are recorded as known findings (qualified explicit instantiation inside generic code; local types of generic "
              "functions as type arguments / inside composite types); ids depend on the package visiting order (C17, proved as "
              "ids_order_dependent_refuted). No axioms.")
