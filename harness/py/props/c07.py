"""C07 — arrays and structs are values; pointers, slices and maps alias.
Model: coq/Model/C07_Heap.v (+ C07_Ops.v); theorems: coq/Props/C07.v.

Correspondence:
 (1) random type shapes are built with the REAL $arrayType/$structType/$sliceType and random op sequences (zero, $clone,
     type.copy, writes through paths, $makeSlice, slice-of-array, $subslice, $append, $appendSlice, $copySlice, element
     get/set, array-from-slice) are run on the real prelude (harness/js/c07_driver.js) and on the Coq model; the status of
     every op and a canonical deep snapshot (values + identity structure of every array/struct node) must agree.
     Independently of the model, Go's value/reference semantics written from scratch (harness/py/c07_spec.py) is the
     direct oracle: a divergence from it is a concrete violation (the failing op sequence is the witness).
 (2) alias-probe Go programs: every copying / aliasing context of the property text x random struct/array shapes,
     mutation on both sides, hashes of both sides printed; real compiler + node versus native Go, line by line.
 (3) the translator's copy decisions (phase 4): one Go function per (context x type shape x expression class) of
     coq/Model/C07_Decision.v — the complete domain of 2940 valid sites, on random instances of each shape — compiled with
     the real gopherjs; the `$clone(` / `.copy(` occurrences in the emitted JavaScript of every site are counted and must
     equal Model.C07_Decision.site_counts; independently of the model, a site where Go copies a struct/array value whose
     source stays reachable and where nothing copies is a concrete violation (harness/py/c07_sites.py).
"""
import json, os, re, sys
import common as C
import c07_gen as G
import c07_spec as S
import c07_progs as PG
import c07_sites as ST

ID = "C07"
PROPS_FILE = "Props/C07.v"
MODEL_TARGETS = ["Corr/C07_Eval.v", "Corr/C07_DecisionEval.v"]
ALLOWED_AXIOMS = []
RULE = ("op sequences: 3-9 type shapes (typed-array numerics, strings, ptr/slice/map references, arrays 0-4, structs 0-4 fields, "
        "nesting <= 4), 4-14 ops over value and slice registers, a quarter of the cases start with an overlapping-window scenario "
        "(make, fill, two subslices, copy both ways, self-append). non-trivial = a clone/copy/append/copyslice followed by a write; distinct by (types, ops). "
        "programs: every context template x random named struct/array shapes (embedding, named element types, reference fields), "
        "random mutated leaf on each side; distinct by source text. decision sites: ALL 2940 valid (context, shape, expression class) "
        "triples of the model, each its own function with exactly one occurrence of the context, on random instances of the 8 type "
        "shapes (field lists, element types, lengths); quick: one instance per shape, thorough: six")
TRUSTED = ["model of type.zero/type.copy/$clone/$copyArray/$subslice/$append/$growSlice/$copySlice/$makeSlice written by hand "
           "(coq/Model/C07_Heap.v), tied by this correspondence",
           "harness/js/c07_driver.js (drives the real prelude, canonical snapshot), harness/py/c07_spec.py (Go semantics oracle)",
           "model of the translator's copy decisions (coq/Model/C07_Decision.v: translateAssign, translateImplicitConversionWithCloning, "
           "translateArgs, makeReceiver, composite literals, send/select, map stores, range, return, boxing, receiver proxies) written by "
           "hand, tied site by site to the JavaScript the real compiler emits (counts of $clone( and .copy( per site function)",
           "the classification on the Go side of C07_clone_decision_sound (stores / may_alias / finding) is a definition, not derived from a "
           "Go semantics; it is duplicated independently in harness/py/props/c07.py (D_NOT_STORING, D_FRESH, D_FINDING) as the direct oracle, "
           "and its consequences are checked dynamically by the alias-probe programs of tie 2",
           "textual detection of a copy in the emitted JavaScript ($clone( / .copy( inside the site function, cut out by a regular expression); "
           "the reflect.Value exception in translateAssign is not modelled (reflect does not build here)",
           "native Go 1.23 as reference for the program-level half; node as the JS engine (typed-array set() = memmove)"]
ASSUMPTIONS = ["reference kinds (pointer, slice, map, chan, func, interface values) are opaque identities in the model",
               "64-bit / complex leaves are immutable objects, modelled as scalars",
               "reflect, unsafe and js-tagged struct fields are out of scope",
               "C07_copy_slice_overlap_nodes / C07_append_refines_in_place assume that the elements of the backing array own pairwise "
               "disjoint nodes (NoDup ns, ~ In a ns): true of every array built by $makeSlice/$growSlice/zero (C07_overlap_hypotheses_satisfiable), "
               "not proved as an invariant of arbitrary op sequences",
               "a call result is treated as possibly aliasing storage (return emits no clone); a received channel value, a composite literal and "
               "a cloning conversion are treated as fresh"]

DRIVER = os.path.join(C.JS, "c07_driver.js")


def prepare(ctx):
    C.ensure_gopherjs()


# ---------------------------------------------------------------- tie 1: prelude op sequences

class Infra(Exception):
    pass


def run_driver(cases, trace=False):
    payload = [dict(c, trace=True) for c in cases] if trace else cases
    rc, out, err = C.sh2(["node", "--stack-size=4000", DRIVER, C.REPO], inp=json.dumps(payload).encode(), timeout=900)
    if rc == 124:
        raise Infra("node driver timed out")
    if rc != 0:
        raise C.BuildError("c07 driver failed: " + err[-800:])
    return json.loads(out)


def run_driver_soft(ctx, cases, trace=False):
    """like run_driver, but a timeout skips the chunk (note in the evidence) instead of failing the check"""
    try:
        return run_driver(cases, trace)
    except Infra as e:
        ctx.notes.append("skipped %d sequences: %s" % (len(cases), e))
        return [dict(skipped=True) for _ in cases]


def spec_run(case, res):
    """run the Go-semantics oracle; capacities of freshly grown slices are taken from the implementation
    (Go leaves the growth policy open) but must be >= what is needed"""
    caps = {}
    nslices = 0
    for i, op in enumerate(case["ops"]):
        if op[0] in ("nil", "make", "sliceof", "subslice", "append", "appendslice"):
            if op[0] in ("append", "appendslice") and nslices < len(res["sregs"]):
                sr = res["sregs"][nslices]
                if isinstance(sr, dict):
                    caps[i] = sr["cap"]
            nslices += 1
    sp = S.Spec(case["types"], cap_of=lambda i: caps.get(i))
    sts, snaps = [], []
    for i, op in enumerate(case["ops"]):
        sts.append(sp.step(i, op))
    return sp, sts


def first_divergence(case, res):
    """res: driver result with per-op snapshots (trace). returns (op index, 'status'|'value'|'identity'|'capacity')"""
    if "crash" in res:
        return 0, "crash"
    nsl = 0
    sp = None
    caps = {}
    for i, op in enumerate(case["ops"]):
        if op[0] in ("nil", "make", "sliceof", "subslice", "append", "appendslice"):
            sr = res["trace"][i]["sregs"]
            if op[0] in ("append", "appendslice") and nsl < len(sr) and isinstance(sr[nsl], dict):
                caps[i] = sr[nsl]["cap"]
            nsl += 1
    sp = S.Spec(case["types"], cap_of=lambda i: caps.get(i))
    for k, op in enumerate(case["ops"]):
        st = sp.step(k, op)
        impl = S.strip_kind(res["trace"][k])
        want = sp.snapshot()
        if st != res["status"][k]:
            return k, "status"
        if sp.cap_violation:
            return k, "capacity"
        if impl != want:
            return k, ("value" if S.values_only(impl) != S.values_only(want) else "identity")
    return None, None


def classify(case, k, how):
    return "prelude-%s-%s-diverges-from-go" % (case["ops"][k][0], how)


def sequences(ctx):
    r = ctx.rng("sequences")
    n = 2400 if ctx.quick else 30000
    n = max(50, int(n * float(os.environ.get("VERIF_C07_SCALE", "1"))))       # development aid
    cases = [G.gen_case(r) for i in range(n)]
    chunk = 400
    chunks = [cases[i:i + chunk] for i in range(0, n, chunk)]
    results = []
    for part in C.parallel_map(lambda ch: run_driver_soft(ctx, ch), chunks):
        results += part
    dist = dict(ops={}, status={}, max_nodes=0, spec_divergences=0, known_shape_cases=0)
    vcases, diverged = [], []
    for idx, (c, res) in enumerate(zip(cases, results)):
        if res.get("skipped"):
            vcases.append(None)
            continue
        if "crash" in res:
            ctx.violation("prelude-driver-crash", "the driver crashed on a case: " + res["crash"][:200], dict(kind="sequence", case=c), concrete=False)
            vcases.append(None)
            continue
        kinds = [o[0] for o in c["ops"]]
        for kd in kinds:
            dist["ops"][kd] = dist["ops"].get(kd, 0) + 1
        for s in res["status"]:
            key = s if isinstance(s, str) else s[0]
            key = key.split(":")[0]
            dist["status"][key] = dist["status"].get(key, 0) + 1
        copyish = [i for i, kd in enumerate(kinds) if kd in ("clone", "copy", "append", "appendslice", "copyslice", "sget", "sset", "arrfromslice")]
        writes = [i for i, kd in enumerate(kinds) if kd in ("write", "swrite")]
        ctx.count([c["types"], c["ops"]], nontrivial=bool(copyish and writes and min(copyish) < max(writes)))
        # --- the property itself: Go semantics from scratch
        sp, sts = spec_run(c, res)
        impl = S.strip_kind(dict(vregs=res["vregs"], sregs=res["sregs"]))
        if sts != res["status"] or impl != sp.snapshot() or sp.cap_violation:
            diverged.append(idx)
        vcases.append(G.coq_case(c, res))
        if idx < 2:
            ctx.sample(dict(kind="sequence", types=c["types"], ops=c["ops"], impl_status=res["status"]))

    # classify divergences from Go (first diverging op decides the signature): one traced re-run of the diverged cases
    seen_sig = {}
    dcases = [cases[i] for i in diverged]
    traced = []
    for part in C.parallel_map(lambda ch: run_driver_soft(ctx, ch, trace=True), [dcases[i:i + 200] for i in range(0, len(dcases), 200)]):
        traced += part
    for idx, c, tr in zip(diverged, dcases, traced):
        if tr.get("skipped"):
            continue
        dist["spec_divergences"] += 1
        k, how = first_divergence(c, tr)
        if k is None:
            ctx.violation("prelude-final-state-diverges-from-go", "final snapshot differs from Go semantics but no single op does",
                          dict(kind="sequence", types=c["types"], ops=c["ops"]), concrete=False)
            continue
        sig = classify(c, k, how)
        seen_sig[sig] = seen_sig.get(sig, 0) + 1
        if seen_sig[sig] > 3:
            continue
        short = dict(types=c["types"], ops=c["ops"][:k + 1])
        res = run_driver_soft(ctx, [short])[0]
        if res.get("skipped"):
            continue
        sp, sts = spec_run(short, res)
        ctx.violation(sig, "op %d (%s) of the sequence: the real prelude diverges from Go semantics in %s" % (k, c["ops"][k][0], how),
                      dict(kind="sequence", types=c["types"], ops=short["ops"], first_diverging_op=k, how=how,
                           impl=dict(status=res.get("status"), vregs=res.get("vregs"), sregs=res.get("sregs")),
                           expected=dict(status=sts, **sp.snapshot())))
    dist["divergence_signatures"] = seen_sig

    # --- the model on exactly the same sequences
    live = [(i, v) for i, v in enumerate(vcases) if v is not None]
    shard = 150
    shards = [live[i:i + shard] for i in range(0, len(live), shard)]

    def run_shard(k):
        p = os.path.join(ctx.work, "cases_%d.v" % k)
        with open(p, "w") as f:
            f.write("From Coq Require Import List ZArith.\nFrom Verif Require Import Model.C07_Heap Model.C07_Ops Corr.C07_Eval.\nImport ListNotations.\n")
            # one Definition per case: elaborating one huge list literal is several times slower
            for j, (_, v) in enumerate(shards[k]):
                f.write("Definition c%d : case := %s.\n" % (j, v))
            f.write("Definition M := Eval vm_compute in mismatches [%s].\nPrint M.\n" % ";".join("c%d" % j for j in range(len(shards[k]))))
        rc, out = C.coq_run(p)
        m = re.search(r"M\s*=\s*(\[[^\]]*\])", out.replace("\n", " "))
        if rc == 124 or "[timeout" in out[-200:]:
            return k, "timeout", ""
        if rc != 0 or not m:
            return k, None, out[-800:]
        return k, [int(x.replace("%N", "")) for x in re.findall(r"\d+(?:%N)?", m.group(1))], ""

    mism = 0
    for k, idxs, err in C.parallel_map(run_shard, range(len(shards))):
        if idxs == "timeout":
            ctx.notes.append("skipped model evaluation of shard %d (%d sequences): coqc timed out" % (k, len(shards[k])))
            continue
        if idxs is None:
            ctx.violation("model-eval-failed", "Coq evaluation of the model failed", dict(shard=k, log=err), concrete=False)
            continue
        for i in idxs:
            gi = shards[k][i][0]
            mism += 1
            if mism <= 3:
                ctx.violation("prelude-model-mismatch", "model and real prelude disagree on an op sequence (correspondence C07 broken)",
                              dict(kind="sequence", types=cases[gi]["types"], ops=cases[gi]["ops"], impl=results[gi],
                                   correspondence="Corr/C07_Eval.mismatches vs compiler/prelude/{prelude,types}.js"), concrete=False)
    dist["model_mismatches"] = mism
    ctx.cov["sequence_distribution"] = dist
    ctx.cov["sequences_validated_against_impl"] = len(live)


# ---------------------------------------------------------------- tie 2: compiled alias-probe programs

def parse_lines(text):
    out = {}
    for line in text.split("\n"):
        m = re.match(r"^(\d+) (-?\d+)((?: \S+)*)\s*$", line)
        if m:
            out.setdefault(int(m.group(1)), []).append(line.strip())
    return out


def programs(ctx):
    r = ctx.rng("programs")
    nprog = 16 if ctx.quick else 200
    nprog = max(2, int(nprog * float(os.environ.get("VERIF_C07_SCALE", "1"))))
    nprobes = (len(PG.COPY) + len(PG.ALIAS)) if ctx.quick else 2 * (len(PG.COPY) + len(PG.ALIAS))
    progs = [PG.gen_program(r, i, nprobes) for i in range(nprog)]

    cache = os.path.join(C.VERIF, ".work", "c07_native_cache")     # native Go output depends on the source text only
    os.makedirs(cache, exist_ok=True)

    def native_output(d, src):
        key = os.path.join(cache, C.sha(src)[:24] + ".txt")
        if os.path.exists(key):
            return "ok", open(key).read()
        for attempt in range(2):
            rc, log = C.sh(["go", "build", "-o", "native", "."], cwd=d, env=C.goenv(), timeout=1500)
            if rc != 124:
                break
        if rc != 0:
            return ("timeout" if rc == 124 else "gen"), log
        rc, nout, nerr = C.sh2(["./native"], cwd=d, timeout=300)
        if rc == 124:
            return "timeout", "native run timed out"
        with open(key + ".tmp%d" % os.getpid(), "w") as f:
            f.write(nerr + nout)
        os.replace(key + ".tmp%d" % os.getpid(), key)
        return "ok", nerr + nout

    def one(i):
        src, probes = progs[i]
        d = os.path.join(ctx.work, "prog%d" % i)
        C.write_go_program(d, {"main.go": src}, module="verifc07")
        how, native = native_output(d, src)
        if how != "ok":
            return i, how, native
        rc2, log = C.gopherjs_build(d, timeout=1500)
        if rc2 != 0:
            return i, ("timeout" if rc2 == 124 else "build"), log
        rc3, jout, jerr = C.run_node(os.path.join(d, "out.js"), cwd=d, timeout=600)
        if rc3 == 124:
            return i, "timeout", "node run timed out"
        return i, "ok", (native, jout + jerr, 0, rc3)

    stats = dict(programs=nprog, probes=0, by_context={}, diverging_contexts={})
    for i, how, data in C.parallel_map(one, range(nprog)):
        src, probes = progs[i]
        ctx.count(["program", src], nontrivial=True)
        if how == "timeout":
            ctx.notes.append("skipped program %d: a build/run timed out (%s)" % (i, data[-120:].replace("\n", " ")))
            continue
        if how == "gen":
            raise C.BuildError("c07 generator produced a program native Go rejects:\n" + data[-1500:])
        if how == "build":
            ctx.violation("program-build-failed", "gopherjs build failed on a generated program", dict(kind="program", source=src, log=data[-1500:]), concrete=False)
            continue
        native, js, rcn, rcj = data
        want, got = parse_lines(native), parse_lines(js)
        reported = set()
        for pid, pr in sorted(probes.items()):
            stats["probes"] += 1
            stats["by_context"][pr["ctx"]] = stats["by_context"].get(pr["ctx"], 0) + 1
            if want.get(pid) != got.get(pid):
                sig = PG.signature(pr["ctx"])
                stats["diverging_contexts"][pr["ctx"]] = stats["diverging_contexts"].get(pr["ctx"], 0) + 1
                if sig in reported:
                    continue
                reported.add(sig)
                ctx.violation(sig, "context '%s' on a %s shape: compiled program prints %r, native Go prints %r" % (pr["ctx"], pr["kind"], got.get(pid), want.get(pid)),
                              dict(kind="program", context=pr["ctx"], probe=pid, probe_code=pr["code"], source=src,
                                   impl=got.get(pid), expected=want.get(pid)))
        if i == 0:
            ctx.sample(dict(kind="program", first_probe=probes[min(probes)]["code"], lines=len(src.split("\n"))))
    ctx.cov["program_distribution"] = stats



# ---------------------------------------------------------------- tie 3: the translator's copy decisions, site by site

# Go-side classification written independently of the Coq model (the direct oracle of C07_clone_decision_sound)
D_NOT_STORING = {"CReturn", "CBlank"}
D_FINDING = {"CBoxAssign": "box-into-interface-does-not-copy", "CBoxArg": "box-into-interface-does-not-copy",
             "CBoxReturn": "box-into-interface-does-not-copy", "CRangeExprArray": "range-over-array-value-does-not-copy",
             "CMethodValueCall": "value-receiver-indirect-call-does-not-copy", "CIfaceCall": "value-receiver-indirect-call-does-not-copy",
             "CIfacePtrCall": "value-receiver-indirect-call-does-not-copy", "CMethodExprPtrCall": "value-receiver-indirect-call-does-not-copy"}
D_FRESH = {"ECompLit", "EParenLit", "EConvOther", "ERecv"}      # the expression yields an object nobody else holds
D_RUNTIME_COPY = {"CAppendArg"}                                 # $append -> $copyArray copies array/struct elements (tie 1)


def decisions(ctx):
    r = ctx.rng("decision-sites")
    rounds = 1 if ctx.quick else 6
    jobs = [(k, sh) for k in range(rounds) for sh in ST.SHAPES]
    progs = [ST.gen_program(r, sh) for _, sh in jobs]

    def one(i):
        src, sites = progs[i]
        d = os.path.join(ctx.work, "sites%d" % i)
        C.write_go_program(d, {"main.go": src}, module="verifc07")
        rc, log = C.gopherjs_build(d, timeout=1500)
        if rc != 0:
            return i, ("timeout" if rc == 124 else "build"), log
        return i, "ok", open(os.path.join(d, "out.js")).read()

    stats = dict(programs=len(jobs), sites=0, by_emitted={}, findings_confirmed_no_copy=0, model_mismatches=0, oracle_failures=0)
    dcases, dmeta = [], []
    seen = set()
    for i, how, data in C.parallel_map(one, range(len(jobs))):
        src, sites = progs[i]
        ctx.count(["sites", src], nontrivial=True)
        if how == "timeout":
            ctx.notes.append("skipped site program %d: build timed out" % i)
            continue
        if how == "build":
            ctx.violation("site-program-build-failed", "gopherjs build failed on a generated clone-decision site program",
                          dict(kind="sites", source=src, log=data[-1500:]), concrete=False)
            continue
        counts = ST.count_sites(data)
        own = {}                                   # clones of the expression itself, MEASURED at the `_ = e` site
        for name, (c, sh, e) in sites.items():
            if c == "CBlank" and name in counts:
                own[e] = counts[name][0]
        for name, (c, sh, e) in sorted(sites.items(), key=lambda kv: int(kv[0].split("_")[1])):
            if name not in counts:
                ctx.violation("site-function-not-found", "site function %s (%s %s %s) is missing from the emitted JavaScript" % (name, c, sh, e),
                              dict(kind="sites", site=[c, sh, e], source=src), concrete=False)
                continue
            ncl, ncp, body = counts[name]
            stats["sites"] += 1
            key = "%s:%d/%d" % (c, min(ncl, 9), ncp)
            stats["by_emitted"][key] = stats["by_emitted"].get(key, 0) + 1
            seen.add((c, sh, e))
            # --- direct oracle: where Go copies and the source stays reachable, the emitted code must copy
            must = (sh in ST.VALUE_SHAPES and c not in D_NOT_STORING and e not in D_FRESH)
            copied = (ncl - own.get(e, 0)) + ncp > 0 or c in D_RUNTIME_COPY
            fsrc = re.search(r"func %s\(.*?\n}\n" % name, src, re.S)
            rp = dict(kind="site", site=[c, sh, e], go=fsrc.group(0) if fsrc else "", emitted_js=body[-1500:], clones=ncl, copies=ncp,
                      clones_of_expression_itself=own.get(e, 0), source=src)
            if must and not copied:
                if c in D_FINDING:
                    stats["findings_confirmed_no_copy"] += 1           # recorded; reported by the alias probes of tie 2
                else:
                    stats["oracle_failures"] += 1
                    sig = "translator-omits-copy-%s" % c
                    if (sig, e) not in seen:
                        seen.add((sig, e))
                        ctx.violation(sig, "context %s, %s value from %s: Go copies the value and the source stays reachable, but the emitted "
                                      "JavaScript contains neither $clone nor .copy at this site" % (c, sh, e), rp)
            if sh not in ST.VALUE_SHAPES and (ncl or ncp):
                stats["oracle_failures"] += 1
                ctx.violation("translator-copies-reference-%s" % c, "context %s on reference/basic shape %s: a $clone/.copy is emitted, aliases would be cut" % (c, sh), rp)
            dcases.append("{| d_ctx := %s; d_sh := %s; d_e := %s; d_clones := %d; d_copies := %d |}" % (c, sh, e, ncl, ncp))
            dmeta.append(rp)
    if len(dcases) == 0:
        return
    # --- the model on exactly the same sites
    shard = 800
    shards = [list(range(i, min(i + shard, len(dcases)))) for i in range(0, len(dcases), shard)]

    def run_shard(k):
        p = os.path.join(ctx.work, "dcases_%d.v" % k)
        with open(p, "w") as f:
            f.write("From Coq Require Import List NArith.\nFrom Verif Require Import Model.C07_Decision Corr.C07_DecisionEval.\nImport ListNotations.\n")
            f.write("Definition M := Eval vm_compute in dmismatches [\n%s].\nPrint M.\n" % ";\n".join(dcases[j] for j in shards[k]))
            f.write("Definition V := Eval vm_compute in valid_sites.\nPrint V.\n")
        rc, out = C.coq_run(p)
        flat = out.replace("\n", " ")
        m = re.search(r"M\s*=\s*(\[[^\]]*\])", flat)
        v = re.search(r"V\s*=\s*(\d+)", flat)
        if rc != 0 or not m or not v:
            return k, None, out[-800:], 0
        idxs = [int(x.replace("%N", "")) for x in re.findall(r"\d+(?:%N)?", m.group(1))]
        if not idxs and m.group(1).strip("[] ") != "":          # a non-empty list we cannot read is a failure, not "no mismatch"
            return k, None, out[-800:], 0
        return k, idxs, "", int(v.group(1))

    for k, idxs, err, nvalid in C.parallel_map(run_shard, range(len(shards))):
        if idxs is None:
            ctx.violation("model-eval-failed", "Coq evaluation of the decision model failed", dict(shard=k, log=err), concrete=False)
            continue
        if nvalid != len(ST.all_sites()):
            ctx.violation("clone-decision-domain-mismatch", "the model has %d valid sites, the generator %d" % (nvalid, len(ST.all_sites())),
                          dict(model=nvalid, generator=len(ST.all_sites())), concrete=False)
        for i in idxs:
            stats["model_mismatches"] += 1
            if stats["model_mismatches"] <= 3:
                rp = dmeta[shards[k][i]]
                ctx.violation("clone-decision-model-mismatch",
                              "site %s: the real compiler emits %d $clone / %d .copy, Model.C07_Decision.site_counts says otherwise "
                              "(correspondence C07 broken)" % (rp["site"], rp["clones"], rp["copies"]),
                              dict(rp, correspondence="Corr/C07_DecisionEval.dmismatches vs compiler/{expressions,statements,utils}.go"), concrete=False)
    missing = [t for t in ST.all_sites() if t not in seen]
    stats["valid_sites_in_model"] = len(ST.all_sites())
    stats["valid_sites_not_compiled"] = len(missing)
    ctx.cov["decision_sites"] = stats


def correspond(ctx):
    only = os.environ.get("VERIF_C07_ONLY", "")        # development aid: "sequences", "programs" or "decisions"
    if only in ("", "decisions"):
        decisions(ctx)
        ctx.log("decision sites done")
    if only in ("", "sequences"):
        sequences(ctx)
        ctx.log("sequences done")
    if only in ("", "programs"):
        programs(ctx)
        ctx.log("programs done")


def replay(ctx, data):
    rp = data["replay"]
    if rp.get("kind") == "sequence":
        c = dict(types=rp["types"], ops=rp["ops"])
        res = run_driver([c])[0]
        sp, sts = spec_run(c, res)
        print("implementation now:", json.dumps(res))
        print("go semantics      :", json.dumps(dict(status=sts, **sp.snapshot())))
        print("recorded impl     :", json.dumps(rp.get("impl")))
    elif rp.get("kind") == "program":
        d = os.path.join(ctx.work, "replay")
        C.write_go_program(d, {"main.go": rp["source"]}, module="verifc07")
        rc, log = C.gopherjs_build(d)
        print(log)
        rc, out, err = C.run_node(os.path.join(d, "out.js"), cwd=d)
        pid = str(rp.get("probe"))
        print("compiled:", [l for l in (out + err).split("\n") if l.startswith(pid + " ")])
        rc, out, err = C.sh2(["go", "run", "."], cwd=d, env=C.goenv())
        print("native  :", [l for l in (out + err).split("\n") if l.startswith(pid + " ")])
        print("recorded: impl=%r expected=%r" % (rp.get("impl"), rp.get("expected")))
    elif rp.get("kind") == "site":
        d = os.path.join(ctx.work, "replay")
        C.write_go_program(d, {"main.go": rp["source"]}, module="verifc07")
        rc, log = C.gopherjs_build(d)
        print(log)
        m = re.search(r"func (site_\d+)", rp.get("go", ""))
        counts = ST.count_sites(open(os.path.join(d, "out.js")).read())
        print("site    :", rp["site"])
        print(rp.get("go", ""))
        if m and m.group(1) in counts:
            print("emitted now: %d $clone, %d .copy\n%s" % counts[m.group(1)])
        print("recorded   : %d $clone, %d .copy (expression itself: %d)" % (rp["clones"], rp["copies"], rp["clones_of_expression_itself"]))
    else:
        print(json.dumps(data, indent=1))
    return 0


TECHNIQUE = ("Coq proof (structural induction over arbitrary nested array/struct type shapes, heap frame reasoning, loop invariants for both "
             "directions of $copyArray; complete case analysis over the finite domain of translator copy decisions) + differential "
             "correspondence with the real prelude (node), with the JavaScript emitted by the real compiler for every decision site, and "
             "compiled alias-probe programs against native Go")
LEVEL_TEXT = ("Machine-checked theorems over an executable heap model of type.zero/type.copy/$clone/$copyArray/$subslice/$append/"
              "$growSlice/$copySlice: a clone has the same deep value as its source, shares no array/struct node with anything that "
              "existed before (so later writes on either side are invisible on the other), reference-kind fields stay shared; "
              "subslice bounds; append shares the array iff the elements fit, otherwise a fresh array with own copies of the elements (any element type), the appended values, a zeroed tail and the coded capacity; append within capacity writes the deep values of the operands into the array's own element nodes and changes nothing else (any element type, also when the operand is the same array); [N]T(slice) copies the slice window; overlapping copy = memmove on cells (leaf elements) and on deep values with element identities preserved (array/struct elements, both loop directions). "
              "Translator: an executable mirror of the compiler's copy decisions over 45 contexts x 8 type shapes x 13 expression classes; proved: every "
              "storing context outside the three recorded findings copies a struct/array value whose source may stay reachable (also through any "
              "number of returns), the copy is omitted exactly for `x := T{...}`, reference shapes are never copied, the findings are exactly the "
              "contexts that never copy (refutation witnesses for the unrestricted statement). The heap model is tied to the prelude on "
              "every run by op sequences compared on canonical deep snapshots; the decision model is tied by compiling all 2940 sites with the real "
              "compiler and counting $clone/.copy per site; the copying/aliasing contexts are additionally run as alias-probe programs against native Go.")
LEVEL_NOTE = ("Proofs are about hand-written models (prelude heap model, translator decision table), each tied to the real code on every run. "
              "The decision theorem is a statement about the table (context x shape x expression class) with a defined Go-side classification "
              "(stores / may_alias); it is not a semantics of Go programs: that the decided $clone makes a whole PROGRAM behave like Go is covered "
              "only differentially (alias-probe programs vs native Go). Recorded findings (translator side, refutation witnesses in Coq): boxing "
              "into an interface does not copy, range over an array value does not copy, value-receiver methods reached indirectly run on the "
              "original. Still only compared, not proved: the NoDup invariant of backing arrays across arbitrary op sequences; C07_copy_slice_overlap_partial "
              "is kept (leaf elements) next to the new C07_copy_slice_overlap_nodes (array/struct elements).")
