"""C15, compiled programs: the same kind of histories as Go source, plus range loops whose body mutates the map.
Each program is built with the real compiler and run under node, and built/run with native Go.
 * direct oracle: GopherJS's output equals native Go's output line by line (histories); the range laws hold on
   GopherJS's own trace (and on native Go's trace, which validates the law itself);
 * model: the Coq model predicts GopherJS's answers, and for range loops the exact visiting order and final order.
Fixed probe programs reproduce each recorded defect class on the real compiler."""
import json, os, re
import common as C
import c15_gen as G

# ------------------------------------------------------------------ Go source printing
def go_name(T, ti):
    return "%s_%d" % (T.t[ti]["name"], ti)


def go_type(T, ti):
    d = T.t[ti]
    k = d["k"]
    if k == "named": return go_name(T, ti)
    if k == "bool": return "bool"
    if k == "int": return G.GO_INT[d["kind"]]
    if k == "float": return "float%d" % d["bits"]
    if k in ("int64", "uint64"): return k
    if k == "complex": return "complex%d" % d["bits"]
    if k == "string": return "string"
    if k == "iface": return "interface {}"
    if k == "ptr": return "*" + go_type(T, d["elem"])
    if k == "chan": return ["chan ", "chan<- ", "<-chan "][d["dir"]] + go_type(T, d["elem"])
    if k == "array": return "[%d]%s" % (d["n"], go_type(T, d["elem"]))
    if k == "slice": return "[]" + go_type(T, d["elem"])
    if k == "map": return "map[%s]%s" % (go_type(T, d["key"]), go_type(T, d["elem"]))
    if k == "func": return "func()"
    if k == "struct":
        if not d["fields"]:
            return "struct {}"
        return "struct { " + "; ".join("%s %s" % (f["name"], go_type(T, f["t"])) for f in d["fields"]) + " }"
    raise ValueError(k)


def go_float(h, bits):
    if G.is_nan_hex(h): e = "math.NaN()"
    elif h == G.NEG0: e = "math.Copysign(0, -1)"
    elif h == G.f64hex(float("inf")): e = "math.Inf(1)"
    elif h == G.f64hex(float("-inf")): e = "math.Inf(-1)"
    else: e = "math.Float64frombits(0x%s)" % h
    return e if bits == 64 else "float32(%s)" % e


def go_val(T, ti, v):
    """a fully typed Go expression for value v of type ti"""
    u = T.under(ti)
    k = u["k"]
    ty = go_type(T, ti)
    if k == "bool": return "%s(%s)" % (ty, "true" if v else "false")
    if k == "int": return "%s(%d)" % (ty, v)
    if k == "float": return "%s(%s)" % (ty, go_float(v[1], u["bits"]))
    if k == "int64":
        return "%s(%d)" % (ty, v[1] * 2**32 + v[2])
    if k == "uint64":
        return "%s(%d)" % (ty, v[1] * 2**32 + v[2])
    if k == "complex":
        return "%s(complex(%s, %s))" % (ty, go_float(v[1], 64), go_float(v[2], 64))
    if k == "string":
        return '%s("%s")' % (ty, "".join("\\x%02x" % c for c in v[1]))
    if k == "ptr": return "(%s)(nil)" % ty if v[0] == "pn" else "obj%d" % v[1]
    if k == "chan": return "(%s)(nil)" % ty if v[0] == "cn" else "obj%d" % v[1]
    if k == "iface":
        if len(v) == 1: return "(%s)(nil)" % ty
        return "(%s)(%s)" % (ty, go_val(T, v[1], v[2]))
    if k == "array": return "%s{%s}" % (ty, ", ".join(go_val(T, u["elem"], x) for x in v[1]))
    if k == "struct": return "%s{%s}" % (ty, ", ".join(go_val(T, f["t"], x) for f, x in zip(u["fields"], v[1])))
    if k == "slice": return "%s{}" % ty
    if k == "map": return "%s{}" % ty
    if k == "func": return "(%s)(func() {})" % ty
    raise ValueError(k)


PRELUDE = '''package main

import "math"

var _ = math.NaN

func has(s, sub string) bool {
	for i := 0; i+len(sub) <= len(s); i++ {
		if s[i:i+len(sub)] == sub {
			return true
		}
	}
	return false
}

// run f; report a panic as "nilmap" or "other"
func try(f func()) (p string) {
	defer func() {
		if r := recover(); r != nil {
			p = "other"
			if e, ok := r.(error); ok && has(e.Error(), "assignment to entry in nil map") {
				p = "nilmap"
			}
		}
	}()
	f()
	return ""
}
'''


def scenario_history(T, key, pool, ops, nil, sid):
    """Go source of one history; every operation prints one line `H <sid> <i> ...`.  Stores go through ONE reused
    key variable (kv = pool[i]; m[kv] = v), the way a loop variable is reused: the map must hold its own copy of the key."""
    kt = go_type(T, key)
    L = ["func scen%d() {" % sid,
         "\tpool := []%s{%s}" % (kt, ", ".join(go_val(T, key, v) for v in pool)),
         "\t_ = pool",
         "\tidx := func(k %s) (j int) {" % kt,
         "\t\tdefer func() { if recover() != nil { j = -2 } }()",
         "\t\tfor j := range pool {", "\t\t\tif pool[j] == k {", "\t\t\t\treturn j", "\t\t\t}", "\t\t}", "\t\treturn -1", "\t}",
         "\t_ = idx",
         "\tvar kv %s" % kt,
         "\t_ = kv",
         "\tvar m map[%s]int" % kt]
    if not nil:
        L.append("\tm = map[%s]int{}" % kt)
    for i, op in enumerate(ops):
        tag = '"H", %d, %d' % (sid, i)
        if op[0] == "set":
            L.append('\tif p := try(func() { kv = pool[%d]; m[kv] = %d }); p != "" { println(%s, "p", p) } else { println(%s, "u") }' % (op[1], op[2], tag, tag))
        elif op[0] == "get":
            L.append('\tif p := try(func() { println(%s, "v", m[pool[%d]]) }); p != "" { println(%s, "p", p) }' % (tag, op[1], tag))
        elif op[0] == "get2":
            L.append('\tif p := try(func() { v, ok := m[pool[%d]]; println(%s, "t", v, ok) }); p != "" { println(%s, "p", p) }' % (op[1], tag, tag))
        elif op[0] == "del":
            L.append('\tif p := try(func() { kv = pool[%d]; delete(m, kv) }); p != "" { println(%s, "p", p) } else { println(%s, "u") }' % (op[1], tag, tag))
        elif op[0] == "len":
            L.append('\tprintln(%s, "l", len(m))' % tag)
        elif op[0] == "nil":
            L.append('\tm = nil')
            L.append('\tprintln(%s, "u")' % tag)
        elif op[0] == "lit":
            L.append('\tif p := try(func() { m = map[%s]int{%s} }); p != "" { println(%s, "p", p) } else { println(%s, "u") }' % (
                kt, ", ".join("pool[%d]: %d" % (k, v) for k, v in op[1]), tag, tag))
    # what range yields at the end (order is unspecified: compared as a multiset), and a lookup with the yielded key
    L.append('\tfor k, v := range m {')
    L.append('\t\tw, ok := m[k]')
    L.append('\t\tprintln("H", %d, %d, "r", idx(k), v, w, ok)' % (sid, len(ops)))
    L.append('\t}')
    L.append("}")
    return "\n".join(L)


def scenario_range(T, key, pool, init, body, sid):
    kt = go_type(T, key)
    L = ["func scen%d() {" % sid,
         "\tpool := []%s{%s}" % (kt, ", ".join(go_val(T, key, v) for v in pool)),
         "\tidx := func(k %s) int {" % kt,
         "\t\tfor j := range pool {", "\t\t\tif pool[j] == k {", "\t\t\t\treturn j", "\t\t\t}", "\t\t}", "\t\treturn -1", "\t}",
         "\tvar kv %s" % kt,
         "\t_ = kv",
         "\tm := map[%s]int{}" % kt]
    for k, v in init:
        L.append("\tkv = pool[%d]" % k)
        L.append("\tm[kv] = %d" % v)
    L.append("\tfor k, v := range m {")
    L.append("\t\tj := idx(k)")
    L.append('\t\tprintln("R", %d, "visit", j, v)' % sid)
    L.append("\t\tswitch j {")
    for j, ops in body:
        L.append("\t\tcase %d:" % j)
        for op in ops:
            if op[0] == "set":
                L.append("\t\t\tkv = pool[%d]" % op[1])
                L.append("\t\t\tm[kv] = %d" % op[2])
            else: L.append("\t\t\tdelete(m, pool[%d])" % op[1])
    L.append("\t\t}")
    L.append("\t}")
    L.append('\tfor k, v := range m {')
    L.append('\t\tprintln("R", %d, "final", idx(k), v)' % sid)
    L.append("\t}")
    L.append('\tprintln("R", %d, "len", len(m))' % sid)
    L.append("}")
    return "\n".join(L)


def scenario_range_blind(T, key, pool, init, body, form, sid):
    """a range that binds no variable (form "none": `for range m`, "blank": `for _, _ = range m`, "blankkey": `for _ = range m`);
    the body is a list of operations per iteration number"""
    kt = go_type(T, key)
    L = ["func scen%d() {" % sid,
         "\tpool := []%s{%s}" % (kt, ", ".join(go_val(T, key, v) for v in pool)),
         "\tidx := func(k %s) int {" % kt,
         "\t\tfor j := range pool {", "\t\t\tif pool[j] == k {", "\t\t\t\treturn j", "\t\t\t}", "\t\t}", "\t\treturn -1", "\t}",
         "\tvar kv %s" % kt,
         "\t_ = kv",
         "\tm := map[%s]int{}" % kt]
    for k, v in init:
        L.append("\tkv = pool[%d]" % k)
        L.append("\tm[kv] = %d" % v)
    L.append("\tn := 0")
    L.append({"none": "\tfor range m {", "blank": "\tfor _, _ = range m {", "blankkey": "\tfor _ = range m {"}[form])
    L.append('\t\tprintln("R", %d, "iter", n, len(m))' % sid)
    L.append("\t\tswitch n {")
    for j, ops in enumerate(body):
        L.append("\t\tcase %d:" % j)
        for op in ops:
            if op[0] == "set":
                L.append("\t\t\tkv = pool[%d]" % op[1])
                L.append("\t\t\tm[kv] = %d" % op[2])
            else:
                L.append("\t\t\tdelete(m, pool[%d])" % op[1])
    L.append("\t\t}")
    L.append("\t\tn++")
    L.append("\t}")
    L.append('\tfor k, v := range m {')
    L.append('\t\tprintln("R", %d, "final", idx(k), v)' % sid)
    L.append("\t}")
    L.append('\tprintln("R", %d, "len", len(m))' % sid)
    L.append("}")
    return "\n".join(L)


def blind_law(T, key, s, lines):
    """range laws for a loop that binds no variable, on a trace of (iteration number, len(m) at its start)"""
    am = G.AbsMap(T, key)
    for k, v in s["init"]:
        am.apply(["set", s["pool"][k], v])
    start = [k for k, _ in am.e]
    size0 = len(am.e)
    deleted, created = [], 0
    n = 0
    finals, ln = [], None
    for t in lines:
        if t[2] == "iter":
            if int(t[3]) != n:
                return "iteration numbers out of sequence"
            if len(am.e) == 0:
                return "iteration %d runs although the map is empty at that moment: every remaining entry was deleted before it was reached" % n
            if int(t[4]) != len(am.e):
                return "len(m) at the start of iteration %d is %s, Go's map holds %d entries" % (n, t[4], len(am.e))
            for op in (s["body"][n] if n < len(s["body"]) else []):
                kk = s["pool"][op[1]]
                if op[0] == "del":
                    if am.find(kk) >= 0:
                        deleted.append(kk)
                    am.apply(["del", kk])
                else:
                    if am.find(kk) < 0:
                        created += 1
                    am.apply(["set", kk, op[2]])
            n += 1
        elif t[2] == "final":
            finals.append((int(t[3]), int(t[4])))
        elif t[2] == "len":
            ln = int(t[3])
    throughout = sum(1 for k in start if not any(G.go_eq(T, key, k, x) for x in deleted))
    if n < throughout:
        return "%d iterations, but %d entries were present from the start to the end of the loop" % (n, throughout)
    if n > size0 + created:
        return "%d iterations, but only %d entries existed at the start and %d were created" % (n, size0, created)
    want = sorted((next(j for j, p in enumerate(s["pool"]) if G.go_eq(T, key, p, k)), v) for k, v in am.e)
    if sorted(finals) != want or ln != len(want):
        return "contents after the loop are %r (len %r), Go's map holds %r" % (sorted(finals), ln, want)
    return None


# ------------------------------------------------------------------ generation
def dedupe_go_eq(T, key, pool):
    out = []
    for v in pool:
        if not any(G.go_eq(T, key, v, w) for w in out):
            out.append(v)
    return out


def has_nan(v):
    if isinstance(v, list):
        if len(v) >= 2 and v[0] in ("f", "c") and isinstance(v[1], str):
            return any(G.is_nan_hex(x) for x in v[1:])
        return any(has_nan(x) for x in v)
    return False


def gen_program(r, pidx, nh, nr):
    g = G.Gen(r, dict(unhashable=0.06, cnan=0.05, anan=0.05, blank=0.15))
    for i in range(r.choice([1, 2, 3])):
        g.gen_named(r.choice(["T", "U"]), r.choice([0, 1, 2]))
    scen = []
    for s in range(nh + nr):
        is_range = s >= nh
        c = r.random()
        if c < 0.4:
            key = g.T.add(dict(k="iface"))
        elif c < 0.5 and g.named_pool:
            key = r.choice(g.named_pool)
        else:
            key = g.gen_type(3)
        if not g.T.comparable(key) or not g.T.usable(key):
            key = g.T.add(dict(k="iface"))
        g.o["unhashable"] = 0.0 if is_range else 0.06
        pool = [g.gen_value(key, 3) for _ in range(r.randint(3, 7))]
        if is_range:
            pool = [v for v in pool if not has_nan(v)]
            pool = dedupe_go_eq(g.T, key, pool) or [g.gen_value(key, 0)]
            pool = [v for v in pool if not has_nan(v)]
            if not pool:
                key = g.T.add(dict(k="int", kind="Int"))
                pool = [1, 2, 3, 4]
            n = len(pool)
            init = [[j, r.randint(1, 9)] for j in range(n) if r.random() < 0.75]
            body = []
            for j in range(n):
                if r.random() < 0.7:
                    ops = []
                    for _ in range(r.randint(1, 3)):
                        if r.random() < 0.55:
                            ops.append(["del", r.choice([j] + list(range(n)))])
                        else:
                            ops.append(["set", r.randrange(n), r.randint(10, 99)])
                    body.append([j, ops])
            if r.random() < 0.4:
                # a loop that binds no variable: the body is per iteration number and mostly deletes entries, so that
                # entries disappear before the iterator reaches them
                init = [[j, r.randint(1, 9)] for j in range(n) if r.random() < 0.85] or [[0, 1]]
                ibody = []
                for _ in range(r.randint(1, n + 1)):
                    ops = []
                    for _ in range(r.choice([0, 1, 2, 3, n])):
                        if r.random() < 0.75:
                            ops.append(["del", r.randrange(n)])
                        else:
                            ops.append(["set", r.randrange(n), r.randint(10, 99)])
                    ibody.append(ops)
                if r.random() < 0.25:
                    ibody[0] = [["del", j] for j in range(n)]          # drain the map in the first iteration
                scen.append(dict(kind="blind", key=key, pool=pool, init=init, body=ibody, form=r.choice(["none", "none", "blank", "blankkey"])))
            else:
                scen.append(dict(kind="range", key=key, pool=pool, init=init, body=body))
        else:
            n = len(pool)
            ops = []
            nil = r.random() < 0.08
            for _ in range(r.randint(6, 14)):
                x = r.random()
                if x < 0.45: ops.append(["set", r.randrange(n), r.randint(1, 99)])
                elif x < 0.55: ops.append(["get", r.randrange(n)])
                elif x < 0.65: ops.append(["get2", r.randrange(n)])
                elif x < 0.85: ops.append(["del", r.randrange(n)])
                elif x < 0.93: ops.append(["len"])
                elif x < 0.97: ops.append(["lit", [[r.randrange(n), r.randint(1, 99)] for _ in range(r.randint(0, 3))]])
                else: ops.append(["nil"])
            # digest after the history: len and a comma-ok lookup of every pool value
            ops.append(["len"])
            ops += [["get2", j] for j in range(n)]
            scen.append(dict(kind="history", key=key, pool=pool, ops=ops, nil=nil))
    return g, scen


def program_source(g, scen):
    T = g.T
    L = [PRELUDE]
    for ti, d in enumerate(T.t):
        if d["k"] == "named":
            L.append("type %s %s" % (go_name(T, ti), go_type(T, d["under"])))
    for oi, ti in enumerate(g.objs):
        u = T.under(ti)
        if u["k"] == "chan":
            L.append("var obj%d %s = make(chan %s)" % (oi, go_type(T, ti), go_type(T, u["elem"])))
        else:
            L.append("var obj%d %s = new(%s)" % (oi, go_type(T, ti), go_type(T, u["elem"])))
    for sid, s in enumerate(scen):
        if s["kind"] == "history":
            L.append(scenario_history(T, s["key"], s["pool"], s["ops"], s["nil"], sid))
        elif s["kind"] == "blind":
            L.append(scenario_range_blind(T, s["key"], s["pool"], s["init"], s["body"], s["form"], sid))
        else:
            L.append(scenario_range(T, s["key"], s["pool"], s["init"], s["body"], sid))
    L.append("func main() {")
    for sid in range(len(scen)):
        L.append("\tscen%d()" % sid)
    L.append("}")
    return "\n\n".join(L) + "\n"


# ------------------------------------------------------------------ running
def parse_output(text):
    """lines of println output -> {sid: [tokens...]}"""
    out = {}
    for line in text.split("\n"):
        t = line.split()
        if len(t) >= 3 and t[0] in ("H", "R"):
            out.setdefault(int(t[1]), []).append(t)
    return out


def build_and_run(ctx, d, src):
    """returns dict(js=.., native=..) or dict(build_error=..) or dict(infra=..) (timeouts etc.: never a violation)"""
    C.write_go_program(d, {"main.go": src}, module="verifc15")
    rc, log = C.gopherjs_build(d, timeout=900)
    if rc == 124 or "[timeout after" in log or "no space left" in log or "cannot allocate" in log:
        return dict(infra="gopherjs build: " + log[-200:])
    if rc != 0:
        return dict(build_error=log[-1500:])
    rc, out, err = C.run_node(os.path.join(d, "out.js"), cwd=d, timeout=600)
    if rc == 124:
        return dict(infra="node run timed out")
    js = dict(rc=rc, text=err + out)
    rc, log = C.sh(["go", "build", "-o", "native.bin", "."], cwd=d, env=C.goenv(), timeout=900)
    if rc == 124 or "[timeout after" in log or "no space left" in log:
        return dict(infra="go build: " + log[-200:])
    if rc != 0:
        return dict(js=js, native_error=log[-1500:])
    rc, out, err = C.sh2([os.path.join(d, "native.bin")], cwd=d, timeout=600)
    if rc == 124:
        return dict(infra="native run timed out")
    return dict(js=js, native=dict(rc=rc, text=err + out))


def steps_from_lines(ops, lines):
    """history lines -> the step records used by the node-history code (r, err)"""
    by = {}
    for t in lines:
        by[int(t[2])] = t
    steps = []
    for i, op in enumerate(ops):
        t = by.get(i)
        if t is None:
            steps.append(dict(r=None, err="js:missing output line"))
        elif t[3] == "p":
            steps.append(dict(r=None, err="runtime error: assignment to entry in nil map" if t[4] == "nilmap" else "js:keyFor is not a function"))
        elif t[3] == "v":
            steps.append(dict(r=int(t[4]), err=None))
        elif t[3] == "t":
            steps.append(dict(r=[int(t[4]), t[5] == "true"], err=None))
        elif t[3] == "l":
            steps.append(dict(r=int(t[4]), err=None))
        else:
            steps.append(dict(r=None, err=None))
    return steps


def classify(T, key, pool, tstr):
    feats = set()
    for i, a in enumerate(pool):
        for b in pool[i:]:
            if G.hashable(T, key, a) and G.hashable(T, key, b):
                G.collision_features(T, key, a, b, tstr, feats)
    if any(G.has_zero_len_unhashable_array(T, key, v) for v in pool):
        feats.add("zero-length-array-of-unhashable-no-panic")
    if any(G.only_blank_fields_unhashable(T, key, v) for v in pool):
        feats.add("blank-unhashable-field-no-panic")
    prio = []       # the classes recorded in known_findings.d/C15.txt; everything else gets a generic signature
    return next((p for p in prio if p in feats), None)


def range_law(T, key, s, lines):
    """the range laws evaluated on a trace; returns None or a text"""
    am = G.AbsMap(T, key)
    for k, v in s["init"]:
        am.apply(["set", s["pool"][k], v])
    start = [k for k, _ in am.e]
    deleted = []                       # start keys deleted at some point
    seen_since_creation = []           # keys visited and not deleted since
    visits = {}
    body = dict((j, ops) for j, ops in s["body"])
    finals = []
    ln = None
    for t in lines:
        if t[2] == "visit":
            j, v = int(t[3]), int(t[4])
            if j < 0 or j >= len(s["pool"]):
                return "visited a key that is not one of the program's keys (index %d)" % j
            k = s["pool"][j]
            i = am.find(k)
            if i < 0:
                return "visited key #%d which is not in the map at that moment (deleted before it was reached)" % j
            if am.e[i][1] != v:
                return "visited key #%d with value %d, the map holds %d" % (j, v, am.e[i][1])
            if any(G.go_eq(T, key, k, x) for x in seen_since_creation):
                return "key #%d visited twice without having been deleted in between" % j
            seen_since_creation.append(k)
            visits[j] = visits.get(j, 0) + 1
            for op in body.get(j, []):
                kk = s["pool"][op[1]]
                if op[0] == "del":
                    if am.find(kk) >= 0:
                        deleted.append(kk)
                        seen_since_creation = [x for x in seen_since_creation if not G.go_eq(T, key, x, kk)]
                    am.apply(["del", kk])
                else:
                    am.apply(["set", kk, op[2]])
        elif t[2] == "final":
            finals.append((int(t[3]), int(t[4])))
        elif t[2] == "len":
            ln = int(t[3])
    for k in start:
        if not any(G.go_eq(T, key, k, x) for x in deleted):
            n = sum(c for j, c in visits.items() if G.go_eq(T, key, s["pool"][j], k))
            if n != 1:
                return "an entry present from the start to the end of the loop was visited %d times" % n
    want = sorted((next(j for j, p in enumerate(s["pool"]) if G.go_eq(T, key, p, k)), v) for k, v in am.e)
    if sorted(finals) != want or ln != len(want):
        return "contents after the loop are %r (len %r), Go's map holds %r" % (sorted(finals), ln, want)
    return None


def node_strings(floats):
    """String(x) for the floats of the programs (the model's nts table)"""
    if not floats:
        return {}
    code = ("const hs=%s;const o={};for(const h of hs){const x=Buffer.from(h,'hex').readDoubleBE(0);const s=String(x);"
            "o[h]=Array.from(s,c=>c.charCodeAt(0));}console.log(JSON.stringify(o));" % json.dumps(sorted(floats)))
    rc, out, err = C.sh2(["node", "-e", code], timeout=60)
    return json.loads(out)


def programs(ctx):
    import props.c15 as P15
    r = ctx.rng("programs")
    nprog = max(2, int((12 if ctx.quick else 80) * P15.SCALE))
    nh, nr = (5, 4) if ctx.quick else (6, 5)
    progs = []
    for i in range(nprog):
        g, scen = gen_program(r, i, nh, nr)
        progs.append((g, scen, program_source(g, scen)))
    fixed = fixed_probes()

    def one(i):
        if i < nprog:
            return build_and_run(ctx, os.path.join(ctx.work, "prog%d" % i), progs[i][2])
        return build_and_run(ctx, os.path.join(ctx.work, "probe%d" % (i - nprog)), fixed[i - nprog][2])
    results = C.parallel_map(one, range(nprog + len(fixed)))

    # ---- fixed probes: GopherJS vs native Go, one signature each
    for (sig, what, src), res in zip(fixed, results[nprog:]):
        if "infra" in res:
            ctx.notes.append("probe %s skipped (infrastructure): %s" % (sig, res["infra"]))
            continue
        ctx.count(["probe", sig], nontrivial=True)
        if "build_error" in res or "native_error" in res:
            ctx.violation("program-build-failed", "a probe program does not build: " + sig, dict(kind="program", source=src, log=res.get("build_error") or res.get("native_error")), concrete=False)
            continue
        if res["js"]["text"] != res["native"]["text"]:
            ctx.violation(sig, what, dict(kind="program", source=src, gopherjs=res["js"]["text"][-600:], native_go=res["native"]["text"][-600:]))
    ctx.cov["probe_programs"] = len(fixed)

    floats = set()
    for g, scen, src in progs:
        floats |= g.floats
        for s in scen:
            floats |= set(P15._floats_in(s["pool"]))
    nts = node_strings(floats)
    hterms, hmeta, rterms, rmeta, iterms, imeta = [], [], [], [], [], []
    dist = dict(history_scenarios=0, range_scenarios=0, range_visits=0, range_body_ops=0, native_go_disagreements=0, law_failures=0)
    for pi, ((g, scen, src), res) in enumerate(zip(progs, results[:nprog])):
        T = g.T
        if "infra" in res:
            ctx.notes.append("program %d skipped (infrastructure): %s" % (pi, res["infra"]))
            continue
        if "build_error" in res or "native_error" in res:
            ctx.violation("program-build-failed", "a generated program does not build", dict(kind="program", source=src, log=res.get("build_error") or res.get("native_error")), concrete=False)
            continue
        js, nat = parse_output(res["js"]["text"]), parse_output(res["native"]["text"])
        tstr_txt = [go_type(T, ti).replace("_%d" % ti, "") if T.t[ti]["k"] == "named" else go_type(T, ti) for ti in range(len(T.t))]
        tstr_model = ["main." + go_type(T, ti) if T.t[ti]["k"] == "named" else go_type(T, ti) for ti in range(len(T.t))]
        if pi == 0:
            ctx.sample(dict(kind="program", source=src[:1500]))
        for sid, s in enumerate(scen):
            key = s["key"]
            ctx.count(["prog", src, sid], nontrivial=True)
            if s["kind"] == "history":
                dist["history_scenarios"] += 1
                jl, nl = js.get(sid, []), nat.get(sid, [])
                jr, nr_ = sorted(t[3:] for t in jl if t[3] == "r"), sorted(t[3:] for t in nl if t[3] == "r")
                jl, nl = [t for t in jl if t[3] != "r"], [t for t in nl if t[3] != "r"]
                if jr != nr_ and [t[2:] for t in jl] == [t[2:] for t in nl]:
                    sig = classify(T, key, s["pool"], tstr_model) or "range-yields-wrong-keys-" + T.under(key)["k"]
                    dist["native_go_disagreements"] += 1
                    ctx.violation(sig, "after a history in which every store went through one reused key variable, range yields (key#, v, m[k], ok) = %r, native Go yields %r (scenario %d)" % (jr[:8], nr_[:8], sid),
                                  dict(kind="program", source=src, scenario=sid, gopherjs=jr[:40], native_go=nr_[:40]))
                if [t[2:] for t in jl] != [t[2:] for t in nl]:
                    # first differing operation
                    bad = next((a, b) for a, b in zip(jl + [None] * len(nl), nl + [None] * len(jl)) if (a and a[2:]) != (b and b[2:]))
                    sig = classify(T, key, s["pool"], tstr_model) or "program-history-differs-from-go-" + T.under(key)["k"]
                    dist["native_go_disagreements"] += 1
                    ctx.violation(sig, "compiled history: GopherJS prints %r where native Go prints %r (scenario %d)" % (bad[0], bad[1], sid),
                                  dict(kind="program", source=src, scenario=sid, gopherjs=[" ".join(t) for t in jl][:60], native_go=[" ".join(t) for t in nl][:60]))
                # model: the answers GopherJS gave
                ops = [[o[0]] + ([s["pool"][o[1]]] if o[0] in ("set", "get", "get2", "del") else []) + ([o[2]] if o[0] == "set" else []) for o in s["ops"]]
                for o, oo in zip(ops, s["ops"]):
                    if oo[0] == "lit":
                        o.append([[s["pool"][k], v] for k, v in oo[1]])
                c = dict(types=T.t, key=key, nilmap=s["nil"], ops=ops, _T=T)
                rs = dict(tstr=tstr_model, nts=nts, ctr0=0, steps=steps_from_lines(s["ops"], jl))
                hterms.append(P15.coq_hcase(c, rs, full=False))
                hmeta.append((src, sid))
            elif s["kind"] == "blind":
                dist["blind_range_scenarios"] = dist.get("blind_range_scenarios", 0) + 1
                jl, nl = js.get(sid, []), nat.get(sid, [])
                iters = sum(1 for t in jl if t[2] == "iter")
                dist["blind_range_iterations"] = dist.get("blind_range_iterations", 0) + iters
                law = blind_law(T, key, s, jl)
                if law:
                    dist["law_failures"] += 1
                    ctx.violation("range-no-variable-law-violated", "range over a map binding no variable (%s), body mutates the map: %s" % (s["form"], law),
                                  dict(kind="program", source=src, scenario=sid, gopherjs=[" ".join(t) for t in jl][:60], native_go=[" ".join(t) for t in nl][:60]))
                lawn = blind_law(T, key, s, nl)
                if lawn:
                    ctx.violation("spec-vs-native-go-mismatch", "the no-variable range law as written in the check does not hold on NATIVE Go's trace: " + lawn,
                                  dict(kind="program", source=src, scenario=sid, native_go=[" ".join(t) for t in nl][:60]), concrete=False)
                pool = P15.Pool(T, key)
                for v in s["pool"]:
                    pool.of(v)
                tstr = [G.S(x) for x in tstr_model]
                fin = [(int(t[3]), int(t[4])) for t in jl if t[2] == "final"]
                if any(j < 0 for j, _ in fin):
                    continue
                pj = lambda j: pool.of(s["pool"][j])
                iterms.append("{| i_t := %s; i_nts := %s; i_pool := [%s]; i_init := [%s];\n i_body := [%s];\n i_iters := %d; i_final := [%s] |}" % (
                    T.shape(key), G.cnts(nts), "; ".join(G.cval(T, key, v, tstr) for v in pool.reps),
                    "; ".join("(%d, %s)" % (pj(k), G.cz(v)) for k, v in s["init"]),
                    "; ".join("[%s]" % "; ".join(("ISet %d %s" % (pj(o[1]), G.cz(o[2]))) if o[0] == "set" else "IDel %d" % pj(o[1]) for o in ops) for ops in s["body"]),
                    iters, "; ".join("(%d, %s)" % (pj(j), G.cz(v)) for j, v in fin)))
                imeta.append((src, sid, jl))
            else:
                dist["range_scenarios"] += 1
                jl, nl = js.get(sid, []), nat.get(sid, [])
                dist["range_visits"] += sum(1 for t in jl if t[2] == "visit")
                dist["range_body_ops"] += sum(len(o) for _, o in s["body"])
                law = range_law(T, key, s, jl)
                if law:
                    dist["law_failures"] += 1
                    sig = classify(T, key, s["pool"], tstr_model) or "range-law-violated"
                    ctx.violation(sig, "range over a map that is mutated by the loop body: " + law,
                                  dict(kind="program", source=src, scenario=sid, gopherjs=[" ".join(t) for t in jl][:60], native_go=[" ".join(t) for t in nl][:60]))
                lawn = range_law(T, key, s, nl)
                if lawn:
                    ctx.violation("spec-vs-native-go-mismatch", "the range law as written in the check does not hold on NATIVE Go's trace: " + lawn,
                                  dict(kind="program", source=src, scenario=sid, native_go=[" ".join(t) for t in nl][:60]), concrete=False)
                pool = P15.Pool(T, key)
                for v in s["pool"]:
                    pool.of(v)
                tstr = [G.S(x) for x in tstr_model]
                vis = [(int(t[3]), int(t[4])) for t in jl if t[2] == "visit"]
                fin = [(int(t[3]), int(t[4])) for t in jl if t[2] == "final"]
                if any(j < 0 for j, _ in vis + fin):
                    continue
                pj = lambda j: pool.of(s["pool"][j])
                rterms.append("{| r_t := %s; r_nts := %s; r_pool := [%s]; r_init := [%s];\n r_body := [%s];\n r_visited := [%s]; r_final := [%s] |}" % (
                    T.shape(key), G.cnts(nts), "; ".join(G.cval(T, key, v, tstr) for v in pool.reps),
                    "; ".join("(%d, %s)" % (pj(k), G.cz(v)) for k, v in s["init"]),
                    "; ".join("(%d, [%s])" % (pj(j), "; ".join(("ISet %d %s" % (pj(o[1]), G.cz(o[2]))) if o[0] == "set" else "IDel %d" % pj(o[1]) for o in ops)) for j, ops in s["body"]),
                    "; ".join("(%d, %s)" % (pj(j), G.cz(v)) for j, v in vis), "; ".join("(%d, %s)" % (pj(j), G.cz(v)) for j, v in fin)))
                rmeta.append((src, sid, jl))
    bad, errs = P15.coq_mismatches(ctx, hterms, "hcase", "mismatches_h", "ph", shard=60)
    bad2, errs2 = P15.coq_mismatches(ctx, rterms, "rcase", "mismatches_r", "pr", shard=60)
    bad3, errs3 = P15.coq_mismatches(ctx, iterms, "icase", "mismatches_i", "pi", shard=60)
    for j in bad3:
        ctx.violation("range-no-variable-model-mismatch", "model and compiled program disagree on the number of iterations / final contents of a range loop that binds no variable",
                      dict(kind="program", source=imeta[j][0], scenario=imeta[j][1], gopherjs=[" ".join(t) for t in imeta[j][2]][:60],
                           correspondence="Corr/C15_Eval.mismatches_i vs compiled program"), concrete=False)
    for k, err in errs + errs2 + errs3:
        ctx.violation("model-eval-failed", "Coq evaluation of the model failed (programs)", dict(shard=k, log=err), concrete=False)
    for j in bad:
        ctx.violation("program-history-model-mismatch", "model and compiled program disagree on a history",
                      dict(kind="program", source=hmeta[j][0], scenario=hmeta[j][1], correspondence="Corr/C15_Eval.mismatches_h vs compiled program"), concrete=False)
    for j in bad2:
        ctx.violation("range-loop-model-mismatch", "model and compiled program disagree on the visiting order / final contents of a range loop",
                      dict(kind="program", source=rmeta[j][0], scenario=rmeta[j][1], gopherjs=[" ".join(t) for t in rmeta[j][2]][:60],
                           correspondence="Corr/C15_Eval.mismatches_r vs compiled program"), concrete=False)
    dist["model_mismatches"] = len(bad) + len(bad2) + len(bad3)
    ctx.cov["program_distribution"] = dist
    ctx.cov["programs"] = nprog


# ------------------------------------------------------------------ fixed probes (one per recorded defect class)
def fixed_probes():
    P = []
    head = 'package main\n\nimport "math"\n\nvar _ = math.NaN\n\n'
    P.append(("iface-key-type-string-collision",
              "interface keys of two DISTINCT types that have the same type string address one entry (len 1, Go: 2)",
              head + "func f() interface{} { type T int; return T(1) }\nfunc g() interface{} { type T int; return T(1) }\n\n"
              "func main() {\n\tm := map[interface{}]int{}\n\tm[f()] = 1\n\tm[g()] = 2\n\tprintln(len(m), m[f()], m[g()])\n}\n"))
    P.append(("complex-nan-key-equal",
              "a complex key with a NaN part is found again / overwritten (Go: NaN keys are never equal)",
              head + "func main() {\n\tm := map[complex128]int{}\n\tc := complex(math.NaN(), 1)\n\tm[c] = 1\n\tm[c] = 2\n\t_, ok := m[c]\n\tprintln(len(m), ok)\n}\n"))
    P.append(("float-array-nan-key-equal",
              "an array-of-float key containing NaN is found again / overwritten (Go: never equal)",
              head + "func main() {\n\tm := map[[1]float64]int{}\n\tk := [1]float64{math.NaN()}\n\tm[k] = 1\n\tm[k] = 2\n\t_, ok := m[k]\n\tprintln(len(m), ok)\n}\n"))
    P.append(("struct-blank-field-in-key",
              "struct keys differing only in a blank field are different map keys (Go: == ignores blank fields)",
              head + "type S struct {\n\ta int\n\t_ int\n}\n\nfunc main() {\n\tm := map[S]int{}\n\tm[S{1, 2}] = 1\n\tm[S{1, 3}] = 2\n\tprintln(len(m), m[S{1, 4}])\n}\n"))
    P.append(("zero-length-array-of-unhashable-no-panic",
              "a key whose dynamic type is a zero-length array of an uncomparable type does not panic (Go: hash of unhashable type)",
              head + "func main() {\n\tdefer func() { println(recover() != nil) }()\n\tm := map[interface{}]int{}\n\tvar k interface{} = [0][]int{}\n\tm[k] = 1\n\tprintln(len(m))\n}\n"))
    P.append(("anon-struct-blank-field-key-crash",
              "a map keyed by an ANONYMOUS struct type with a blank field of a 64-bit/composite type panics on every use (Go: works)",
              head + "func main() {\n\tdefer func() { println(recover() != nil) }()\n\tm := map[struct {\n\t\ta int\n\t\t_ int64\n\t}]int{}\n"
              "\tvar k struct {\n\t\ta int\n\t\t_ int64\n\t}\n\tk.a = 1\n\tm[k] = 1\n\tprintln(len(m), m[k])\n}\n"))
    P.append(("blank-unhashable-field-no-panic",
              "a key whose dynamic type is uncomparable only because of a blank struct field does not panic (Go: hash of unhashable type)",
              head + "type B struct {\n\ta int\n\t_ []int\n}\n\nfunc main() {\n\tdefer func() { println(recover() != nil) }()\n\tm := map[interface{}]int{}\n"
              "\tvar k interface{} = B{a: 1}\n\tm[k] = 1\n\tprintln(len(m))\n}\n"))
    P.append(("stale-comparable-flag-no-panic",
              "a composite key type built over a named struct type before that type's init() keeps comparable = true: [0]C, [1]B, struct{x B} "
              "as interface-typed keys do not panic (Go: hash of unhashable type)",
              head + "type B struct {\n\ta int\n\t_ []int\n}\n\ntype C struct {\n\ta int\n\ts []int\n}\n\n"
              "func try(name string, f func()) {\n\tdefer func() { println(name, recover() != nil) }()\n\tf()\n}\n\n"
              "func main() {\n\tm := map[interface{}]int{}\n"
              "\ttry(\"[0]C\", func() { var k interface{} = [0]C{}; m[k] = 1 })\n"
              "\ttry(\"[1]B\", func() { var k interface{} = [1]B{}; m[k] = 1 })\n"
              "\ttry(\"struct{x B}\", func() { var k interface{} = struct{ x B }{}; m[k] = 1 })\n"
              "\tprintln(len(m))\n}\n"))
    return P
