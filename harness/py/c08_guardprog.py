"""C08 part A: table-driven Go program exercising the guards that exist only as emitted code (index, slice
expressions, make, division, slice->array pointer, nil map store), the operand grid, the from-scratch
specification predicate (Go spec with a 32-bit int), and the mapping to the Coq model's op codes."""

MAXINT = 2147483647
I64 = 1 << 63

GUARD_PROGRAM_HEAD = '''package main

type rtErr interface{ RuntimeError() }

func mk(n, c int64) []int {
	b := make([]int, c)
	for i := range b {
		b[i] = 100 + i
	}
	return b[:n]
}

func mkstr(n int64) string {
	s := ""
	for i := int64(0); i < n; i++ {
		s += string(rune(48 + i))
	}
	return s
}

func first(t []int) int {
	if cap(t) == 0 {
		return -1
	}
	return t[:1][0] - 100
}

func sfirst(t string) int {
	if len(t) == 0 {
		return -1
	}
	return int(t[0]) - 48
}

var arr5 = [5]int{100, 101, 102, 103, 104}
var parr5 = &arr5

func run(no int, c []int64) {
	defer func() {
		v := recover()
		if v == nil {
			return
		}
		_, isErr := v.(error)
		_, isRt := v.(rtErr)
		println(no, "panic", isErr, isRt)
	}()
	a, b, d, e := c[1], c[2], c[3], c[4]
	_, _, _, _ = a, b, d, e
	switch c[0] {
'''

# op -> (go case body, n operands).  Operands a b d e are int64; `int(x)` conversions are exact for the grid values used.
OPS = {
    1: ('println(no, "ok", mk(a, a)[int(b)]-100)', "idx-slice-int"),
    2: ('println(no, "ok", mk(a, a)[b]-100)', "idx-slice-int64"),
    3: ('println(no, "ok", int(mkstr(a)[int(b)])-48)', "idx-string-int"),
    4: ('println(no, "ok", parr5[int(b)]-100)', "idx-arrayptr-int"),
    5: ('println(no, "ok", mk(a, a)[3]-100)', "idx-slice-const"),
    6: ('t := mk(a, b)[int(d):int(e)]; println(no, "ok", first(t), len(t), cap(t))', "slice-lh-int"),
    7: ('t := mk(a, b)[d:e]; println(no, "ok", first(t), len(t), cap(t))', "slice-lh-int64"),
    8: ('t := mk(a, b)[int(d):]; println(no, "ok", first(t), len(t), cap(t))', "slice-l"),
    9: ('t := mk(a, b)[:int(e)]; println(no, "ok", first(t), len(t), cap(t))', "slice-h"),
    10: ('t := mk(a, b)[int(d):int(e):int(c[5])]; println(no, "ok", first(t), len(t), cap(t))', "slice-lhm"),
    11: ('t := mk(a, b)[:int(e):int(c[5])]; println(no, "ok", first(t), len(t), cap(t))', "slice-hm"),
    12: ('t := mkstr(a)[int(d):int(e)]; println(no, "ok", sfirst(t), len(t))', "str-lh"),
    13: ('t := mkstr(a)[int(d):]; println(no, "ok", sfirst(t), len(t))', "str-l"),
    14: ('t := mkstr(a)[:int(e)]; println(no, "ok", sfirst(t), len(t))', "str-h"),
    15: ('t := mkstr(a)[d:e]; println(no, "ok", sfirst(t), len(t))', "str-lh-int64"),
    16: ('t := make([]int, int(a)); println(no, "ok", len(t), cap(t))', "make-slice-int"),
    17: ('t := make([]int, int(a), int(b)); println(no, "ok", len(t), cap(t))', "make-slice-cap-int"),
    18: ('t := make([]int, a); println(no, "ok", len(t), cap(t))', "make-slice-int64"),
    19: ('t := make([]int, a, b); println(no, "ok", len(t), cap(t))', "make-slice-cap-int64"),
    20: ('t := make(map[int]int, int(a)); println(no, "ok", len(t))', "make-map-int"),
    21: ('t := make(map[int]int, a); println(no, "ok", len(t))', "make-map-int64"),
    22: ('t := make(chan int, int(a)); println(no, "ok", cap(t))', "make-chan-int"),
    23: ('t := make(chan int, a); println(no, "ok", cap(t))', "make-chan-int64"),
    70: ('t := (*[4]int)(mk(a, a+1)); println(no, "ok", len(t), t[3]-100)', "slice2arr"),
    71: ('var m map[int]int; if a != 0 { m = map[int]int{} }; m[1] = 2; println(no, "ok", len(m))', "nilmap-store"),
    72: ('t := arr5[int(d):int(e)]; println(no, "ok", first(t), len(t), cap(t))', "slice-array-lh"),
}
KINDS = [("int8", 8, True), ("int16", 16, True), ("int32", 32, True), ("int", 32, True),
         ("uint8", 8, False), ("uint16", 16, False), ("uint32", 32, False), ("uint", 32, False),
         ("int64", 64, True), ("uint64", 64, False)]
for _i, (_t, _b, _s) in enumerate(KINDS):
    OPS[30 + _i] = ('v := int64(%s(a) / %s(b)); println(no, "ok64", int(v>>32), int((v>>16)&0xffff), int(v&0xffff))' % (_t, _t), "quo-" + _t)
    OPS[50 + _i] = ('v := int64(%s(a) %% %s(b)); println(no, "ok64", int(v>>32), int((v>>16)&0xffff), int(v&0xffff))' % (_t, _t), "rem-" + _t)


def guard_program(cases):
    L = [GUARD_PROGRAM_HEAD]
    for op in sorted(OPS):
        L.append("\tcase %d:\n\t\t%s" % (op, OPS[op][0]))
    L.append("\t}\n}\n")
    L.append("var cases = [][]int64{")
    for c in cases:
        row = list(c) + [0] * (6 - len(c))
        L.append("\t{" + ", ".join(str(x) for x in row) + "},")
    L.append("}\n")
    L.append("func main() {\n\tfor i, c := range cases {\n\t\trun(i, c)\n\t}\n\tprintln(\"end\")\n}\n")
    return "\n".join(L)


# ------------------------------------------------------------------ grid

def around(*vals):
    s = set()
    for v in vals:
        s.update([v - 1, v, v + 1])
    return s


BIG = [MAXINT, MAXINT + 1, -MAXINT - 1, -MAXINT - 2, 1 << 32, (1 << 32) + 1, 1 << 53, -(1 << 40)]


def int32_ok(v):
    return -MAXINT - 1 <= v <= MAXINT


def grid(r, quick):
    """list of cases [op, a, b, d, e, f].  Deterministic boundary grid + random fill."""
    cs = []
    lens = [0, 1, 3, 5]
    for n in lens:
        idxs = sorted(around(0, n) | {n - 1})
        for i in idxs:
            cs += [[1, n, i], [3, n, i]]
            cs.append([2, n, i])
        for i in BIG:
            cs.append([2, n, i])
            if int32_ok(i):
                cs += [[1, n, i], [3, n, i]]
        cs.append([5, n, 0])
    cs.append([5, 4, 0])
    for i in sorted(around(0, 5)) + [MAXINT, -MAXINT - 1]:
        cs.append([4, 0, i])
    shapes = [(0, 0), (0, 3), (2, 2), (2, 5), (3, 4), (5, 5)]
    for (n, c) in shapes:
        pts = sorted(around(0, n, c))
        for lo in pts:
            cs.append([8, n, c, lo, 0])
            for hi in pts:
                cs.append([6, n, c, lo, hi])
                cs.append([7, n, c, lo, hi])
                if not quick or r.random() < 0.35:
                    for mx in pts:
                        cs.append([10, n, c, lo, hi, mx])
        for hi in pts:
            cs.append([9, n, c, 0, hi])
            for mx in pts:
                cs.append([11, n, c, 0, hi, mx])
        for big in BIG:
            cs += [[7, n, c, big, big], [7, n, c, 0, big], [7, n, c, big, n]]
            if int32_ok(big):
                cs += [[6, n, c, 0, big], [6, n, c, big, n], [8, n, c, big, 0], [9, n, c, 0, big], [10, n, c, 0, n, big], [11, n, c, 0, n, big]]
    for n in [0, 1, 3, 6]:
        pts = sorted(around(0, n))
        for lo in pts:
            cs.append([13, n, 0, lo, 0])
            for hi in pts:
                cs += [[12, n, 0, lo, hi], [15, n, 0, lo, hi]]
        for hi in pts:
            cs.append([14, n, 0, 0, hi])
        for big in BIG:
            cs += [[15, n, 0, big, big], [15, n, 0, 0, big], [15, n, 0, big, n]]
            if int32_ok(big):
                cs += [[12, n, 0, 0, big], [12, n, 0, big, n], [13, n, 0, big, 0], [14, n, 0, 0, big]]
    for lo in range(-1, 7):
        for hi in range(-1, 7):
            cs.append([72, 0, 0, lo, hi])
    small = [-2, -1, 0, 1, 2, 7, 64]
    for a in small:
        cs += [[16, a], [18, a], [20, a], [21, a], [22, a], [23, a]]
        for b in small:
            cs += [[17, a, b], [19, a, b]]
    for big in BIG:
        if big > 64 or big < 0:
            # oversized / negative lengths must panic; legal huge sizes are only exercised through the prelude stubs
            if big < 0 or big > MAXINT:
                cs += [[18, big], [21, big], [23, big], [19, 1, big], [19, big, big]]
            if int32_ok(big) and big < 0:
                cs += [[16, big], [20, big], [22, big], [17, 1, big]]
    for n in range(0, 8):
        cs.append([70, n])
    cs += [[71, 0], [71, 1]]
    # division
    for ki, (t, bits, signed) in enumerate(KINDS):
        lo, hi = (-(1 << (bits - 1)), (1 << (bits - 1)) - 1) if signed else (0, (1 << bits) - 1)
        hi = min(hi, (1 << 63) - 1)      # the operand table is [][]int64
        xs = sorted(set(v for v in [lo, lo + 1, -7, -1, 0, 1, 2, 7, hi - 1, hi] if lo <= v <= hi))
        ys = sorted(set(v for v in [lo, -3, -1, 0, 1, 2, 3, hi] if lo <= v <= hi))
        for x in xs:
            for y in ys:
                if signed and x == lo and y == -1 and bits < 32:
                    continue      # int8/int16 MinInt / -1: value defect F8 belongs to C06
                cs += [[30 + ki, x, y], [50 + ki, x, y]]
        nrand = 6 if quick else 60
        for _ in range(nrand):
            x, y = r.randint(lo, hi), r.choice([0, 0, r.randint(lo, hi)])
            if signed and x == lo and y == -1:
                continue
            cs += [[30 + ki, x, y], [50 + ki, x, y]]
    # random fill for slices
    nrand = 150 if quick else 3000
    for _ in range(nrand):
        c = r.randint(0, 8)
        n = r.randint(0, c)
        v = lambda: r.choice([r.randint(-2, 10), r.randint(-2, 10), r.choice([n, c, n - 1, c + 1])])
        op = r.choice([6, 7, 8, 9, 10, 11])
        cs.append([op, n, c, v() if op not in (9, 11) else 0, v(), v()])
    return [c + [0] * (6 - len(c)) for c in cs]


# ------------------------------------------------------------------ specification (from scratch, int = 32 bit)

def wrap(v, bits, signed):
    v &= (1 << bits) - 1
    if signed and v >= 1 << (bits - 1):
        v -= 1 << bits
    return v


def quot(x, y):
    q = abs(x) // abs(y)
    return q if (x >= 0) == (y >= 0) else -q


def spec(c):
    """-> "panic" or tuple of ints the program prints"""
    op, a, b, d, e, f = c
    if op in (1, 2, 3):
        return (b,) if 0 <= b < a else "panic"
    if op == 4:
        return (b,) if 0 <= b < 5 else "panic"
    if op == 5:
        return (3,) if 3 < a else "panic"

    def sl(off, n, cp, lo, hi, mx):
        if not (0 <= lo <= hi <= mx <= cp):
            return "panic"
        return ((off + lo) if mx - lo > 0 else -1, hi - lo, mx - lo)
    if op in (6, 7):
        return sl(0, a, b, d, e, b)
    if op == 8:
        return sl(0, a, b, d, a, b)
    if op == 9:
        return sl(0, a, b, 0, e, b)
    if op == 10:
        return sl(0, a, b, d, e, f)
    if op == 11:
        return sl(0, a, b, 0, e, f)
    if op == 72:
        return sl(0, 5, 5, d, e, 5)

    def st(n, lo, hi):
        if not (0 <= lo <= hi <= n):
            return "panic"
        return (lo if hi > lo else -1, hi - lo)
    if op in (12, 15):
        return st(a, d, e)
    if op == 13:
        return st(a, d, a)
    if op == 14:
        return st(a, 0, e)
    if op in (16, 18):
        return (a, a) if 0 <= a <= MAXINT else "panic"
    if op in (17, 19):
        return (a, b) if 0 <= a <= b <= MAXINT else "panic"
    if op in (20, 21):
        return (0,) if 0 <= a <= MAXINT else "panic"
    if op in (22, 23):
        return (a,) if 0 <= a <= MAXINT else "panic"
    if op == 70:
        return (4, 3) if a >= 4 else "panic"
    if op == 71:
        return (1,) if a != 0 else "panic"
    if 30 <= op < 30 + len(KINDS):
        t, bits, signed = KINDS[op - 30]
        return "panic" if b == 0 else (wrap(quot(a, b), bits, signed),)      # uint64 operands are < 2^63 (table is int64)
    if 50 <= op < 50 + len(KINDS):
        return "panic" if b == 0 else (a - b * quot(a, b),)
    raise ValueError(op)


def native_ok(c):
    """can this case be run under native Go (64-bit int, gc's makemap) with the same expected result?"""
    op, a, b = c[0], c[1], c[2]
    if op in (33, 53) and a == -MAXINT - 1 and b == -1:
        return False                   # int is 64 bits natively: no wrap-around
    if op in (37, 57):
        return True
    if op in (16, 17, 18, 19, 22, 23):
        return all(-MAXINT - 1 <= v <= 4096 for v in (a, b))
    if op in (20, 21):
        return 0 <= a <= 4096          # gc does not panic for a negative map size hint
    return True


def coq_case(c, observed):
    """-> (op, args, expect) for Corr/C08_Eval.gcase, or None when the op has no integer model.
    observed: "panic" or tuple as printed by the program."""
    op, a, b, d, e, f = c

    def ok_slice(o, lo):
        off, n, cp = o
        return "GOk [%d; %d; %d]" % (lo if off == -1 else off, n, cp)

    def ok_str(o):
        st, n = o
        return "GOk [%d; %d]" % (0 if n == 0 else st, n)
    thr = observed == "panic"
    if op == 3:
        inr = 0 <= b < a
        return 10, [b, a], "GThrow" if thr else ("GOk [%d]" % observed[0] if inr else "GOk []")
    if op in (1, 2):
        return 0, [b, a], "GThrow" if thr else "GOk [%d]" % observed[0]
    if op == 4:
        return 0, [b, 5], "GThrow" if thr else "GOk [%d]" % observed[0]
    if op == 5:
        return 1, [3, a], "GThrow" if thr else "GOk [%d]" % observed[0]
    if op in (6, 7):
        return 2, [0, a, b, d, 1, e, 0, 0], "GThrow" if thr else ok_slice(observed, d)
    if op == 8:
        return 2, [0, a, b, d, 0, 0, 0, 0], "GThrow" if thr else ok_slice(observed, d)
    if op == 9:
        return 2, [0, a, b, 0, 1, e, 0, 0], "GThrow" if thr else ok_slice(observed, 0)
    if op == 10:
        return 2, [0, a, b, d, 1, e, 1, f], "GThrow" if thr else ok_slice(observed, d)
    if op == 11:
        return 2, [0, a, b, 0, 1, e, 1, f], "GThrow" if thr else ok_slice(observed, 0)
    if op == 72:
        return 2, [0, 5, 5, d, 1, e, 0, 0], "GThrow" if thr else ok_slice(observed, d)
    if op in (12, 15):
        return 3, [a, d, 1, e], "GThrow" if thr else ok_str(observed)
    if op == 13:
        return 3, [a, d, 0, 0], "GThrow" if thr else ok_str(observed)
    if op == 14:
        return 3, [a, 0, 1, e], "GThrow" if thr else ok_str(observed)
    if op in (16, 18):
        return 4, [a, 0, 0], "GThrow" if thr else "GOk [0; %d; %d]" % observed
    if op in (17, 19):
        return 4, [a, 1, b], "GThrow" if thr else "GOk [0; %d; %d]" % observed
    if op in (20, 21):
        return 5, [a], "GThrow" if thr else "GOk [%d]" % a
    if op in (22, 23):
        return 5, [a], "GThrow" if thr else "GOk [%d]" % observed[0]
    if op == 70:
        return 9, [a, 4], "GThrow" if thr else "GOk [%d]" % observed[0]
    if 30 <= op < 38:
        t, bits, signed = KINDS[op - 30]
        return (6 if signed else 7), [a, b], "GThrow" if thr else "GOk [%d]" % observed[0]
    if 50 <= op < 58:
        return 8, [a, b], "GThrow" if thr else "GOk [%d]" % observed[0]
    return None
