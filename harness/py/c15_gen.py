"""C15 helpers: key-type / key-value generators, the Go-side specification (==, hashability, abstract map)
written from the Go spec independently of the Coq model, and printers to Coq terms and Go source."""
import struct, json

# ------------------------------------------------------------------ floats
def f64hex(x):
    return struct.pack(">d", x).hex()

def hexf64(h):
    return struct.unpack(">d", bytes.fromhex(h))[0]

def fround(x):
    return struct.unpack(">f", struct.pack(">f", x))[0]

NAN1 = "7ff8000000000000"
NAN2 = "7ff8000000000001"      # a different payload (JS canonicalises, Go keeps it)
NEG0 = "8000000000000000"
F64_POOL = [f64hex(0.0), NEG0, f64hex(1.0), f64hex(-1.0), NAN1, NAN1, f64hex(float("inf")), f64hex(float("-inf")),
            f64hex(0.1), f64hex(1e21), f64hex(5e-324), f64hex(1.5), f64hex(36.0), f64hex(1e-7), f64hex(123456789012345680000.0),
            f64hex(2.0**53), f64hex(-2.5)]
F32_POOL = [f64hex(0.0), NEG0, f64hex(1.0), f64hex(-1.0), NAN1, f64hex(float("inf")), f64hex(fround(0.1)), f64hex(1.5),
            f64hex(fround(3e38)), f64hex(fround(1e-45)), f64hex(16777216.0)]

def is_nan_hex(h):
    x = hexf64(h)
    return x != x

INT_RANGE = {"Int": (-2**31, 2**31 - 1), "Int8": (-128, 127), "Int16": (-2**15, 2**15 - 1), "Int32": (-2**31, 2**31 - 1),
             "Uint": (0, 2**32 - 1), "Uint8": (0, 255), "Uint16": (0, 65535), "Uint32": (0, 2**32 - 1), "Uintptr": (0, 2**32 - 1)}
INT_POOL = [0, 1, -1, 2, 3, 10, 36, 92, 127, -128, 255, 256, 65535, 2**31 - 1, -2**31, 2**32 - 1, 12]
GO_INT = {"Int": "int", "Int8": "int8", "Int16": "int16", "Int32": "int32", "Uint": "uint", "Uint8": "uint8",
          "Uint16": "uint16", "Uint32": "uint32", "Uintptr": "uintptr"}

def S(s):
    return [ord(c) for c in s]

STR_POOL = [S(""), S("$"), S("\\"), S("\\$"), S("$$"), S("a"), S("a$b"), S("a\\"), S("\\\\$"), S("nil"), S("1"), S("true"),
            S("NaN$1"), S("int$1"), S("main.T$1"), S("$1"), S("1$2"), S("a$"), S("$a"), S("b"), [0], [255, 36], S("\\\\"), S("$\\"),
            S("0"), S("undefined"), S("a\\$b"), [0xe2, 0x82, 0xac], S("x\\"), S("$y"), S("x$\\"), S("y"), S("\\"), S("$"), S("$\\")]

# ------------------------------------------------------------------ type table
class Types:
    """type table; entries refer to earlier entries by index. Unnamed types are interned, every named entry is a new type."""
    def __init__(self):
        self.t = []
        self._intern = {}

    def add(self, d):
        if d["k"] != "named":
            key = json.dumps(d, sort_keys=True)
            if key in self._intern:
                return self._intern[key]
            self.t.append(d)
            self._intern[key] = len(self.t) - 1
            return len(self.t) - 1
        self.t.append(d)
        return len(self.t) - 1

    def under(self, ti):
        d = self.t[ti]
        while d["k"] == "named":
            d = self.t[d["under"]]
        return d

    def comparable(self, ti):
        u = self.under(ti)
        if u["k"] in ("slice", "map", "func"):
            return False
        if u["k"] == "array":
            return self.comparable(u["elem"])
        if u["k"] == "struct":
            return all(self.comparable(f["t"]) for f in u["fields"])
        return True

    def shape(self, ti):
        u = self.under(ti)
        k = u["k"]
        if k == "bool": return "TBool"
        if k == "int": return "TInt"
        if k == "float": return "TFloat"
        if k in ("int64", "uint64"): return "T64"
        if k == "complex": return "TComplex"
        if k == "string": return "TString"
        if k in ("ptr", "chan"): return "TRef"
        if k == "iface": return "TIface"
        if k == "array": return "(TArray %d %s)" % (u["n"], self.shape(u["elem"]))
        if k == "struct": return "(TStruct [%s])" % "; ".join("(%s, %s)" % ("true" if f["name"] == "_" else "false", self.shape(f["t"])) for f in u["fields"])
        return "TNoKey"

    def usable(self, ti):
        """can be the type of a generated value: no ANONYMOUS struct type with blank fields inside (its constructor drops
        the blank fields; that class is probed by a compiled program, not modelled)"""
        return True
        d = self.t[ti]
        if d["k"] == "named":
            u = self.under(ti)
            if u["k"] == "struct":
                return all(self.usable(f["t"]) for f in u["fields"])
            return self.usable(d["under"])
        if d["k"] == "struct":
            return all(f["name"] != "_" and self.usable(f["t"]) for f in d["fields"])
        if d["k"] == "array":
            return self.usable(d["elem"])
        return True

    def depth(self, ti):
        u = self.under(ti)
        if u["k"] == "array": return 1 + self.depth(u["elem"])
        if u["k"] == "struct": return 1 + max([self.depth(f["t"]) for f in u["fields"]] + [0])
        return 0


BASIC = ([dict(k="bool")] + [dict(k="int", kind=k) for k in ("Int", "Int8", "Uint8", "Int32", "Uint32", "Uint16", "Uintptr")] +
         [dict(k="float", bits=64), dict(k="float", bits=32), dict(k="int64"), dict(k="uint64"),
          dict(k="complex", bits=128), dict(k="complex", bits=64), dict(k="string")])


class Gen:
    """one case: a type universe, identity objects, and key values of a given type"""
    def __init__(self, r, opts=None):
        self.r = r
        self.T = Types()
        self.objs = []            # type index of each identity object
        self.o = dict(same_name=0.0, blank=0.0, unhashable=0.0, cnan=0.0, anan=0.0, named=0.3)
        self.o.update(opts or {})
        self.named_pool = []
        self.floats = set()

    # -------- types
    def gen_type(self, depth, allow_iface=True, top=False):
        r = self.r
        c = r.random()
        if self.named_pool and c < 0.12:
            ti = r.choice(self.named_pool)
            if self.T.depth(ti) <= depth and self.T.comparable(ti):
                return ti
        if depth <= 0 or c < 0.45:
            k = r.random()
            if allow_iface and k < 0.25:
                return self.T.add(dict(k="iface"))
            if k < 0.35:
                return self.T.add(dict(k="ptr", elem=self.T.add(r.choice(BASIC[:3] + [dict(k="string")]))))
            if k < 0.42:
                return self.T.add(dict(k="chan", elem=self.T.add(dict(k="int", kind="Int")), dir=r.choice([0, 0, 1, 2])))
            return self.T.add(r.choice(BASIC))
        if c < 0.72:
            n = r.choice([0, 1, 2, 2, 3])
            return self.T.add(dict(k="array", n=n, elem=self.gen_type(depth - 1, allow_iface)))
        nf = r.choice([0, 1, 2, 2, 3])
        names = ["a", "b", "c", "D"]
        fields = [dict(name=names[i], t=self.gen_type(depth - 1, allow_iface)) for i in range(nf)]
        return self.T.add(dict(k="struct", fields=fields))

    def gen_named(self, name, depth):
        """type <name> <underlying>; with blank fields only here (named structs)"""
        r = self.r
        if r.random() < self.o["blank"]:
            nf = r.choice([1, 2, 3])
            fields = [dict(name=("_" if r.random() < 0.5 else "abc"[i]), t=self.T.add(r.choice(BASIC))) for i in range(nf)]
            if not any(f["name"] == "_" for f in fields):
                fields[-1]["name"] = "_"
            u = self.T.add(dict(k="struct", fields=fields))
        else:
            u = self.gen_type(depth, allow_iface=True)
        ti = self.T.add(dict(k="named", name=name, under=u))
        self.named_pool.append(ti)
        return ti

    def gen_unhashable_type(self):
        r = self.r
        k = r.random()
        e = self.T.add(dict(k="int", kind="Int"))
        if k < 0.3:
            return self.T.add(dict(k="slice", elem=e))
        if k < 0.4:
            return self.T.add(dict(k="func"))
        if k < 0.5:
            return self.T.add(dict(k="map", key=e, elem=e))
        sl = self.T.add(dict(k="slice", elem=e))
        if r.random() < self.o.get("blank_unhashable", 0.0):
            return self.T.add(dict(k="struct", fields=[dict(name="a", t=e), dict(name="_", t=sl)]))
        if k < 0.75:
            return self.T.add(dict(k="array", n=r.choice([0, 0, 1, 2]), elem=sl))
        return self.T.add(dict(k="struct", fields=[dict(name="a", t=e), dict(name="b", t=sl)]))

    # -------- values
    def new_obj(self, ti):
        self.objs.append(ti)
        return len(self.objs) - 1

    def gen_float(self, bits, allow_nan=True):
        h = self.r.choice(F32_POOL if bits == 32 else F64_POOL)
        if is_nan_hex(h) and not allow_nan:
            h = f64hex(2.0)
        self.floats.add(h)
        return h

    def gen_value(self, ti, depth=3, in_native_array=False, in_complex_ok=True):
        r, T = self.r, self.T
        u = T.under(ti)
        k = u["k"]
        if k == "bool":
            return r.random() < 0.5
        if k == "int":
            lo, hi = INT_RANGE[u["kind"]]
            return r.choice([x for x in INT_POOL if lo <= x <= hi])
        if k == "float":
            nan_ok = (not in_native_array) or r.random() < self.o["anan"]
            return ["f", self.gen_float(u["bits"], nan_ok)]
        if k == "int64":
            return ["q", r.choice([0, 1, -1, 2**31 - 1, -2**31, 36, 12, 1 << 21, 1 << 21, -(1 << 21)]), r.choice([0, 1, 2**32 - 1, 2**31, 92, 23, 3, 2, 2**32 - 2])]
        if k == "uint64":
            return ["q", r.choice([0, 1, 2**32 - 1, 2**31, 36, 12, 1 << 21, 1 << 21, 2**32 - 1]), r.choice([0, 1, 2**32 - 1, 2**31, 92, 23, 3, 2, 2**32 - 2])]
        if k == "complex":
            nan_ok = r.random() < self.o["cnan"]
            return ["c", self.gen_float(u["bits"] // 2, nan_ok), self.gen_float(u["bits"] // 2, nan_ok)]
        if k == "string":
            return ["s", list(r.choice(STR_POOL))]
        if k == "ptr":
            mine = [i for i, t in enumerate(self.objs) if t == ti]
            c = r.random()
            if c < 0.2:
                return ["pn"]
            if mine and (c < 0.8 or len(mine) >= 3):
                return ["p", r.choice(mine)]
            return ["p", self.new_obj(ti)]
        if k == "chan":
            mine = [i for i, t in enumerate(self.objs) if t == ti]
            c = r.random()
            if c < 0.2:
                return ["cn"]
            if mine and (c < 0.8 or len(mine) >= 3):
                return ["p", r.choice(mine)]
            return ["p", self.new_obj(ti)]
        if k == "iface":
            c = r.random()
            if c < 0.12:
                return ["i"]
            if c < 0.12 + self.o["unhashable"]:
                dt = self.gen_unhashable_type()
                return ["i", dt, self.gen_value(dt, depth - 1)]
            # dynamic type: an existing non-interface comparable type, or a fresh basic one
            cands = [i for i, d in enumerate(T.t) if T.under(i)["k"] != "iface" and T.comparable(i) and T.usable(i) and T.depth(i) <= max(depth - 1, 0)]
            if cands and r.random() < 0.75:
                dt = r.choice(cands)
            else:
                dt = T.add(r.choice(BASIC))
            return ["i", dt, self.gen_value(dt, depth - 1)]
        if k == "array":
            native = T.under(u["elem"])["k"] in ("int", "float")
            return ["a", [self.gen_value(u["elem"], depth - 1, in_native_array=native) for _ in range(u["n"])]]
        if k == "struct":
            return ["t", [self.gen_value(f["t"], depth - 1) for f in u["fields"]]]
        return ["u"]


# ------------------------------------------------------------------ Go specification side (independent of the Coq model)
def go_eq(T, ti, a, b):
    """Go's == on two values of static type ti (both hashable)"""
    u = T.under(ti)
    k = u["k"]
    if k in ("bool", "int"):
        return a == b
    if k == "float":
        x, y = hexf64(a[1]), hexf64(b[1])
        return x == y                      # IEEE: NaN != NaN, +0 == -0
    if k in ("int64", "uint64"):
        return a[1] == b[1] and a[2] == b[2]
    if k == "complex":
        return hexf64(a[1]) == hexf64(b[1]) and hexf64(a[2]) == hexf64(b[2])
    if k == "string":
        return a[1] == b[1]
    if k in ("ptr", "chan"):
        return a == b
    if k == "iface":
        if len(a) == 1 or len(b) == 1:
            return len(a) == len(b)
        return a[1] == b[1] and go_eq(T, a[1], a[2], b[2])      # identical dynamic types and equal dynamic values
    if k == "array":
        return all(go_eq(T, u["elem"], x, y) for x, y in zip(a[1], b[1]))
    if k == "struct":
        return all(f["name"] == "_" or go_eq(T, f["t"], x, y) for f, x, y in zip(u["fields"], a[1], b[1]))
    raise ValueError(k)


def hashable(T, ti, v):
    """hashing v (static type ti, comparable) does not panic"""
    u = T.under(ti)
    k = u["k"]
    if k in ("slice", "map", "func"):
        return False
    if k == "iface":
        if len(v) == 1:
            return True
        return T.comparable(v[1]) and hashable(T, v[1], v[2])
    if k == "array":
        return T.comparable(u["elem"]) and all(hashable(T, u["elem"], x) for x in v[1])
    if k == "struct":       # Go's generated struct hash skips blank fields
        return all(f["name"] == "_" or hashable(T, f["t"], x) for f, x in zip(u["fields"], v[1]))
    return True


def same_value(T, ti, a, b):
    """same bits (NaN = NaN up to payload, +0 <> -0): used to compare stored keys"""
    u = T.under(ti)
    k = u["k"]
    if k == "float":
        return a[1] == b[1] or (is_nan_hex(a[1]) and is_nan_hex(b[1]))
    if k == "complex":
        return all(x == y or (is_nan_hex(x) and is_nan_hex(y)) for x, y in ((a[1], b[1]), (a[2], b[2])))
    if k == "iface":
        if len(a) == 1 or len(b) == 1:
            return len(a) == len(b)
        return a[1] == b[1] and same_value(T, a[1], a[2], b[2])
    if k == "array":
        return all(same_value(T, u["elem"], x, y) for x, y in zip(a[1], b[1]))
    if k == "struct":       # blank fields cannot be read back in Go: unobservable
        return all(f["name"] == "_" or same_value(T, f["t"], x, y) for f, x, y in zip(u["fields"], a[1], b[1]))
    if k in ("ptr", "chan"):
        return a[:2] == b[:2] if a[0] == "p" else a[0] == b[0]
    if k in ("slice", "map", "func"):
        return True
    return a == b


def collision_features(T, ti, a, b, tstr, out):
    """why two values that Go keeps apart might be flattened to one key: the known defect classes present in the pair"""
    u = T.under(ti)
    k = u["k"]
    if k == "complex":
        if any(is_nan_hex(x) for x in (a[1], a[2], b[1], b[2])):
            out.add("complex-nan-key-equal")
    elif k == "iface":
        if len(a) == 3 and len(b) == 3:
            if a[1] != b[1]:
                if tstr[a[1]] == tstr[b[1]]:
                    out.add("iface-key-type-string-collision")
            else:
                collision_features(T, a[1], a[2], b[2], tstr, out)
    elif k == "array":
        eu = T.under(u["elem"])
        for x, y in zip(a[1], b[1]):
            if eu["k"] == "float" and (is_nan_hex(x[1]) or is_nan_hex(y[1])):
                out.add("float-array-nan-key-equal")
            collision_features(T, u["elem"], x, y, tstr, out)
    elif k == "struct":
        for f, x, y in zip(u["fields"], a[1], b[1]):
            if f["name"] == "_":
                if not same_value(T, f["t"], x, y):
                    out.add("struct-blank-field-in-key")
            else:
                collision_features(T, f["t"], x, y, tstr, out)
    return out


def comparable_ignoring_blank(T, ti):
    u = T.under(ti)
    if u["k"] in ("slice", "map", "func"):
        return False
    if u["k"] == "array":
        return comparable_ignoring_blank(T, u["elem"])
    if u["k"] == "struct":
        return all(f["name"] == "_" or comparable_ignoring_blank(T, f["t"]) for f in u["fields"])
    return True


def only_blank_fields_unhashable(T, ti, v):
    """somewhere in v a dynamic type is uncomparable, but would be comparable if blank fields did not count"""
    u = T.under(ti)
    k = u["k"]
    if k == "iface":
        if len(v) != 3:
            return False
        if not T.comparable(v[1]) and comparable_ignoring_blank(T, v[1]):
            return True
        return only_blank_fields_unhashable(T, v[1], v[2])
    if k == "array":
        return any(only_blank_fields_unhashable(T, u["elem"], x) for x in v[1])
    if k == "struct":
        return any(only_blank_fields_unhashable(T, f["t"], x) for f, x in zip(u["fields"], v[1]))
    return False


def has_zero_len_unhashable_array(T, ti, v):
    u = T.under(ti)
    k = u["k"]
    if k == "iface":
        return len(v) == 3 and has_zero_len_unhashable_array(T, v[1], v[2])
    if k == "array":
        if u["n"] == 0 and not T.comparable(u["elem"]):
            return True
        return any(has_zero_len_unhashable_array(T, u["elem"], x) for x in v[1])
    if k == "struct":
        return any(has_zero_len_unhashable_array(T, f["t"], x) for f, x in zip(u["fields"], v[1]))
    return False


class AbsMap:
    """a Go map by the spec: association by ==, nil map reads as empty and panics on write"""
    def __init__(self, T, ti, nil=False):
        self.T, self.ti, self.nil, self.e = T, ti, nil, []

    def find(self, k):
        for i, (k2, _) in enumerate(self.e):
            if go_eq(self.T, self.ti, k2, k):
                return i
        return -1

    def apply(self, op):
        """returns ('panic', kind) or ('ok', result)"""
        T, ti = self.T, self.ti
        if op[0] == "len":
            return ("ok", len(self.e))
        if op[0] == "nil":
            self.nil, self.e = True, []
            return ("ok", None)
        if op[0] == "lit":
            for k, _ in op[1]:
                if not hashable(T, ti, k):
                    return ("panic", "unhashable")
            self.nil, self.e = False, []
            for k, v in op[1]:
                i = self.find(k)
                if i >= 0:
                    self.e[i] = (k, v)
                else:
                    self.e.append((k, v))
            return ("ok", None)
        k = op[1]
        if op[0] == "set":
            if self.nil:
                return ("panic", "nilmap")        # (Go checks the nil map first as well)
            if not hashable(T, ti, k):
                return ("panic", "unhashable")
            i = self.find(k)
            if i >= 0:
                self.e[i] = (k, op[2])
            else:
                self.e.append((k, op[2]))
            return ("ok", None)
        if not hashable(T, ti, k):
            return ("panic", "unhashable")
        i = self.find(k)
        if op[0] == "get":
            return ("ok", self.e[i][1] if i >= 0 else 0)
        if op[0] == "get2":
            return ("ok", [self.e[i][1], True] if i >= 0 else [0, False])
        if op[0] == "del":
            if i >= 0:
                del self.e[i]
            return ("ok", None)
        raise ValueError(op[0])


# ------------------------------------------------------------------ printing Coq terms
def cz(n):
    return "(%d)%%Z" % n

def cstr(units):
    return "[" + ";".join(str(x) for x in units) + "]"

def cfl(h):
    return "FNaN" if is_nan_hex(h) else "(FNum %d)" % int(h, 16)

def cdyn(T, ti, tstr, tid=None):
    return "{| d_id := %d; d_str := %s; d_shape := %s |}" % (tid[ti] if tid else ti, cstr(tstr[ti]), T.shape(ti))

NIL_CHAN_REF = 999

def cval(T, ti, v, tstr, tid=None):
    u = T.under(ti)
    k = u["k"]
    if k == "bool": return "(VBool %s)" % ("true" if v else "false")
    if k == "int": return "(VInt (%d))" % v
    if k == "float": return "(VFloat %s)" % cfl(v[1])
    if k in ("int64", "uint64"): return "(V64 (%d) (%d))" % (v[1], v[2])
    if k == "complex": return "(VComplex %s %s)" % (cfl(v[1]), cfl(v[2]))
    if k == "string": return "(VString %s)" % cstr(v[1])
    if k == "ptr": return "(VRef %d)" % (1000 + ti if v[0] == "pn" else v[1])
    if k == "chan": return "(VRef %d)" % (NIL_CHAN_REF if v[0] == "cn" else v[1])
    if k == "iface":
        if len(v) == 1: return "VNil"
        return "(VDyn %s %s)" % (cdyn(T, v[1], tstr, tid), cval(T, v[1], v[2], tstr, tid))
    if k == "array": return "(VArr [%s])" % "; ".join(cval(T, u["elem"], x, tstr, tid) for x in v[1])
    if k == "struct": return "(VStruct [%s])" % "; ".join(cval(T, f["t"], x, tstr, tid) for f, x in zip(u["fields"], v[1]))
    return "VOpaque"


def cop(T, ti, op, tstr):
    if op[0] == "set": return "OSet %s %s" % (cval(T, ti, op[1], tstr), cz(op[2]))
    if op[0] == "get": return "OGet %s" % cval(T, ti, op[1], tstr)
    if op[0] == "get2": return "OGet2 %s" % cval(T, ti, op[1], tstr)
    if op[0] == "del": return "ODel %s" % cval(T, ti, op[1], tstr)
    if op[0] == "len": return "OLen"
    if op[0] == "nil": return "OMakeNil"
    if op[0] == "lit": return "OLit [%s]" % "; ".join("(%s, %s)" % (cval(T, ti, k, tstr), cz(v)) for k, v in op[1])
    raise ValueError(op[0])


def cnts(nts):
    return "[" + "; ".join("(%s, %s)" % (cz(int(h, 16)), cstr(u)) for h, u in sorted(nts.items()) if not is_nan_hex(h)) + "]"


def ckey(k):
    if k[0] == "n": return "(KNum (%d))" % k[1]
    if k[0] == "b": return "(KBool %s)" % ("true" if k[1] else "false")
    return "(KStr %s)" % cstr(k[1])
