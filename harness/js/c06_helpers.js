// C06 — direct calls of the REAL 64-bit runtime helpers ($mul64, $div64, $shiftLeft64, $shiftRightInt64,
// $shiftRightUint64, the $Int64/$Uint64 constructors, $flatten64) loaded from <repo>/compiler/prelude,
// each result cross-checked against BigInt arithmetic (the independent oracle).
//
// stdin: {repo, jobs:[{id, h:"mul|quo|rem|shl|shr|ushr|ctor|ctorreal|flatten", sg:bool, xs:[[hi,lo]...], ys:[[hi,lo]...] }]}
//   for shifts ys = [[0,count]...]; for ctor xs is ignored per row (one row per x anyway) and ys = [[high,low]...] raw
//   constructor arguments; for ctorreal ys = [[num,den]...] (low = num/den as a double, exact by construction).
// stdout: {results:[{id, digests:[per x], bad:[{x,y,got,want}], calls:n}]}
'use strict';
const path = require('path');
const input = JSON.parse(require('fs').readFileSync(0, 'utf8'));
globalThis.require = require;     // the prelude does `$global.require = require` when it sees a CommonJS `module`
const P = require(path.join(__dirname, 'prelude_loader.js')).load(input.repo);
const $Int64 = P.get('$Int64'), $Uint64 = P.get('$Uint64');
const H = {
  mul: P.get('$mul64'), div: P.get('$div64'), shl: P.get('$shiftLeft64'), shr: P.get('$shiftRightInt64'),
  ushr: P.get('$shiftRightUint64'), flatten: P.get('$flatten64'),
};
const M32 = 4294967296n, M64 = 1n << 64n;

function big(sg, hi, lo) { return BigInt(hi) * M32 + BigInt(lo); }
function wrap(sg, v) { v = ((v % M64) + M64) % M64; if (sg && v >= (1n << 63n)) v -= M64; return v; }
function split(sg, v) {                 // -> [hi, lo] with hi signed for sg
  v = wrap(sg, v);
  const lo = ((v % M32) + M32) % M32;
  return [Number((v - lo) / M32), Number(lo)];
}
function words(z) {                     // [z mod 2^32, floor(z / 2^32) mod 2^32] for any integer Number
  const b = BigInt(z);
  const lo = ((b % M32) + M32) % M32;
  const hi = ((((b - lo) / M32) % M32) + M32) % M32;
  return [Number(lo), Number(hi)];
}
function fnv(h, ws) { for (const w of ws) { h = (h * 1000003 + w) % 4294967291; } return h; }
function encObj(r) {
  if (r === 'T') return [3];
  if (!Array.isArray(r) || !Number.isInteger(r[0]) || !Number.isInteger(r[1]) || Object.is(r[0], -0) || Object.is(r[1], -0)) return [4];
  return [5].concat(words(r[0]), words(r[1]));
}

function reference(job, x, y) {
  const sg = job.sg;
  const X = big(sg, x[0], x[1]);
  switch (job.h) {
    case 'mul': return split(sg, X * big(sg, y[0], y[1]));
    case 'quo': { const Y = big(sg, y[0], y[1]); return Y === 0n ? 'T' : split(sg, X / Y); }
    case 'rem': { const Y = big(sg, y[0], y[1]); return Y === 0n ? 'T' : split(sg, X % Y); }
    case 'shl': return y[1] >= 64 ? [0, 0] : split(sg, X << BigInt(y[1]));
    case 'shr': case 'ushr': {
      if (y[1] >= 64) return X < 0n ? split(sg, -1n) : [0, 0];
      return split(sg, X >> BigInt(y[1]));      // BigInt >> is arithmetic; X >= 0 for unsigned
    }
    case 'ctor': return split(sg, BigInt(y[0]) * M32 + BigInt(y[1]));
    case 'flatten': return Number(X);           // float64(v): the correctly rounded double of the exact integer
    case 'ctorreal': {                          // Go: conversion truncates toward zero
      const n = BigInt(y[0]), d = BigInt(y[1]);
      return split(sg, n / d);
    }
  }
  throw new Error('unknown helper ' + job.h);
}

function implementation(job, x, y) {
  const C = job.sg ? $Int64 : $Uint64;
  try {
    let r;
    switch (job.h) {
      case 'mul': r = H.mul(new C(x[0], x[1]), new C(y[0], y[1])); break;
      case 'quo': r = H.div(new C(x[0], x[1]), new C(y[0], y[1]), false); break;
      case 'rem': r = H.div(new C(x[0], x[1]), new C(y[0], y[1]), true); break;
      case 'shl': r = H.shl(new C(x[0], x[1]), y[1]); break;
      case 'shr': r = H.shr(new C(x[0], x[1]), y[1]); break;
      case 'ushr': r = H.ushr(new C(x[0], x[1]), y[1]); break;
      case 'ctor': r = new C(y[0], y[1]); break;
      case 'ctorreal': r = new C(0, y[0] / y[1]); break;
      case 'flatten': { const f = H.flatten(new C(x[0], x[1])); return Object.is(f, -0) ? '-0' : f; }
    }
    return [r.$high, r.$low];
  } catch (e) {
    if (e && e.$runtimeError === 'integer divide by zero') return 'T';
    return 'E:' + (e && e.message ? e.message : String(e));
  }
}

const out = [];
for (const job of input.jobs) {
  const res = {id: job.id, digests: [], bad: [], calls: 0, raw: []};
  for (const x of job.xs) {
    let d = 2166136261;
    for (const y of job.ys) {
      const got = implementation(job, x, y);
      const want = reference(job, x, y);
      res.calls++;
      if (JSON.stringify(got) !== JSON.stringify(want) || (Array.isArray(got) && (Object.is(got[0], -0) || Object.is(got[1], -0)))) {
        if (res.bad.length < 50) res.bad.push({x, y, got, want});
        res.nbad = (res.nbad || 0) + 1;
      }
      d = fnv(d, encObj(got));
      if (job.raw) res.raw.push(got);
    }
    res.digests.push(d);
  }
  // $flatten64 on every x (exact below 2^53, correctly rounded above: compare with Number(BigInt))
  if (job.h === 'ctor') {
    const C = job.sg ? $Int64 : $Uint64;
    for (const x of job.xs) {
      const f = H.flatten(new C(x[0], x[1]));
      const want = Number(big(job.sg, x[0], x[1]));
      res.calls++;
      if (f !== want) { if (res.bad.length < 50) res.bad.push({x, y: 'flatten64', got: f, want}); res.nbad = (res.nbad || 0) + 1; }
    }
  }
  out.push(res);
}
process.stdout.write(JSON.stringify({results: out}));
