// C11 driver: runs the REAL $externalize / $internalize / $externalizeFunction / $block of
// <repo>/compiler/prelude on values described in JSON, with type objects built by the real
// constructors ($sliceType, $mapType, $structType, ...).  stdin: {"repo":..., "cases":[...]}, stdout: JSON results.
//
//  type T  : "bool" "int" ... "string" | ["slice",T] | ["array",n,T] | ["map",T] | ["struct",[[name,exported,T]..]]
//            | ["ptr",T] | "iface" | "ifacem" | "jsobj" | "funcany"
//  number  : "i<dec>" | "-0" | "nan" | "inf" | "-inf" | "d<m>/<e>"   (m / 2^e, m odd)
//  Go  G   : {b} {n} {h,l} {s:[bytes]} {sl:null|[..]} {ar:[..],bk} {m:null|[[bytes,G]..]} {st:[..]} {p:null|G}
//            {i:null|{t,v}} {j:J} {fj:id}
//  JS  J   : {u:1} null {b} {n} {s:[units]} {a:[..]} {ta:name,v:[num]} {o:[[units,J]..]} {f:id}
'use strict';
globalThis.require = require;
const fs = require('fs');
const input = JSON.parse(fs.readFileSync(0, 'utf8'));
const P = require('./prelude_loader.js').load(input.repo);
const E = s => P.eval(s);

// the js package's Object type, declared exactly as the compiled js package declares it
E(`var __JsObject = $newType(0, $kindStruct, "js.Object", true, "github.com/gopherjs/gopherjs/js", true, function(object_) { this.$val = this; if (arguments.length === 0) { this.object = null; return; } this.object = object_; });
$jsObjectPtr = $ptrType(__JsObject);
__JsObject.init("github.com/gopherjs/gopherjs/js", [{prop: "object", name: "object", embedded: false, exported: false, typ: $jsObjectPtr, tag: ""}]);`);

const G = n => P.get(n);
const $externalize = G('$externalize'), $internalize = G('$internalize'), $externalizeFunction = G('$externalizeFunction');
const $jsObjectPtr = G('$jsObjectPtr'), $emptyInterface = G('$emptyInterface'), $ifaceNil = G('$ifaceNil');
const $sliceType = G('$sliceType'), $arrayType = G('$arrayType'), $mapType = G('$mapType'), $structType = G('$structType'),
  $ptrType = G('$ptrType'), $funcType = G('$funcType'), $interfaceType = G('$interfaceType'), $makeMap = G('$makeMap'),
  $toNativeArray = G('$toNativeArray'), $String = G('$String'), $throwNilPointerError = G('$throwNilPointerError');
const BASIC = {bool: '$Bool', int: '$Int', int8: '$Int8', int16: '$Int16', int32: '$Int32', int64: '$Int64', uint: '$Uint', uint8: '$Uint8',
  uint16: '$Uint16', uint32: '$Uint32', uint64: '$Uint64', uintptr: '$Uintptr', float32: '$Float32', float64: '$Float64', string: '$String'};
const KIND = {};
for (const k of ['Bool', 'Int', 'Int8', 'Int16', 'Int32', 'Int64', 'Uint', 'Uint8', 'Uint16', 'Uint32', 'Uint64', 'Uintptr', 'Float32', 'Float64',
  'String', 'Array', 'Slice', 'Map', 'Struct', 'Ptr', 'Interface', 'Func']) KIND[G('$kind' + k)] = k;
const ifaceM = $interfaceType([{prop: 'M', name: 'M', pkg: '', typ: $funcType([], [], false)}]);
const funcAny = $funcType([$sliceType($emptyInterface)], [$jsObjectPtr], true);

function mkType(T) {
  if (typeof T === 'string') {
    if (BASIC[T]) return G(BASIC[T]);
    if (T === 'iface') return $emptyInterface;
    if (T === 'ifacem') return ifaceM;
    if (T === 'jsobj') return $jsObjectPtr;
    if (T === 'funcany') return funcAny;
    throw new Error('bad type ' + T);
  }
  switch (T[0]) {
    case 'slice': return $sliceType(mkType(T[1]));
    case 'array': return $arrayType(mkType(T[2]), T[1]);
    case 'map': return $mapType($String, mkType(T[1]));
    case 'ptr': return $ptrType(mkType(T[1]));
    case 'struct': return $structType('', T[1].map(f => ({prop: f[0], name: f[0], embedded: false, exported: f[1], typ: mkType(f[2]), tag: ''})));
  }
  throw new Error('bad type ' + JSON.stringify(T));
}

function typeToJson(t) {
  if (t === $jsObjectPtr) return 'jsobj';
  if (t === funcAny) return 'funcany';
  const k = KIND[t.kind];
  switch (k) {
    case 'Slice': return ['slice', typeToJson(t.elem)];
    case 'Array': return ['array', t.len, typeToJson(t.elem)];
    case 'Map': return t.key === $String ? ['map', typeToJson(t.elem)] : ['othermap', t.string];
    case 'Ptr': return ['ptr', typeToJson(t.elem)];
    case 'Struct': return ['struct', t.fields.map(f => [f.name, f.exported, typeToJson(f.typ)])];
    case 'Interface': return t.methods.length === 0 ? 'iface' : 'ifacem';
    case 'Func': return ['func', t.string];
    default: return k.toLowerCase();
  }
}

// ---- numbers
function decNum(s) {
  if (s === '-0') return -0;
  if (s === 'nan') return NaN;
  if (s === 'inf') return Infinity;
  if (s === '-inf') return -Infinity;
  if (s[0] === 'i') return Number(BigInt(s.slice(1)));
  if (s[0] === 'd') { const [m, e] = s.slice(1).split('/'); return Number(BigInt(m)) * Math.pow(2, -Number(e)) ; }
  throw new Error('bad num ' + s);
}
const f64 = new Float64Array(1), u64 = new BigUint64Array(f64.buffer);
function encNum(x) {
  if (typeof x !== 'number') return 'weird:' + typeof x + ':' + String(x);
  if (x !== x) return 'nan';
  if (x === Infinity) return 'inf';
  if (x === -Infinity) return '-inf';
  if (Object.is(x, -0)) return '-0';
  if (Number.isInteger(x)) return 'i' + BigInt(x).toString();
  f64[0] = x;
  const bits = u64[0];
  const neg = (bits >> 63n) === 1n;
  const ex = Number((bits >> 52n) & 0x7ffn);
  let m = bits & 0xfffffffffffffn;
  let e;                         // value = m * 2^e
  if (ex === 0) { e = -1074; } else { m |= 1n << 52n; e = ex - 1075; }
  while ((m & 1n) === 0n) { m >>= 1n; e++; }
  return 'd' + (neg ? '-' : '') + m.toString() + '/' + (-e);
}
function exactNum(s) {       // does decNum(s) represent s exactly?
  return encNum(decNum(s)) === s;
}

// ---- JS values
const jsFuncs = new Map(), jsFuncIds = new Map();
function jsFunc(id) {
  if (!jsFuncs.has(id)) {
    const f = function () { return {__fn: id, args: Array.prototype.slice.call(arguments), self: this}; };
    jsFuncs.set(id, f); jsFuncIds.set(f, id);
  }
  return jsFuncs.get(id);
}
const TA = {Int8Array, Int16Array, Int32Array, Uint8Array, Uint16Array, Uint32Array, Float32Array, Float64Array};
function units(a) { let s = ''; for (const c of a) s += String.fromCharCode(c); return s; }
function unitsOf(s) { const a = []; for (let i = 0; i < s.length; i++) a.push(s.charCodeAt(i)); return a; }
function mkJs(J) {
  if (J === null) return null;
  if ('u' in J) return undefined;
  if ('b' in J) return J.b;
  if ('n' in J) return decNum(J.n);
  if ('s' in J) return units(J.s);
  if ('a' in J) return J.a.map(mkJs);
  if ('ta' in J) return new TA[J.ta](J.v.map(decNum));
  if ('o' in J) { const o = {}; for (const [k, v] of J.o) o[units(k)] = mkJs(v); return o; }
  if ('f' in J) return jsFunc(J.f);
  throw new Error('bad js ' + JSON.stringify(J));
}
function serJs(v, depth) {
  depth = depth || 0;
  if (depth > 12) return {weird: 'too deep'};
  if (v === undefined) return {u: 1};
  if (v === null) return null;
  switch (typeof v) {
    case 'boolean': return {b: v};
    case 'number': return {n: encNum(v)};
    case 'string': return {s: unitsOf(v)};
    case 'function': return {f: jsFuncIds.has(v) ? jsFuncIds.get(v) : -1};
    case 'object':
      if (Array.isArray(v)) return {a: v.map(x => serJs(x, depth + 1))};
      if (ArrayBuffer.isView(v)) return {ta: v.constructor.name, v: Array.from(v).map(encNum)};
      if (v.$val !== undefined || v === $ifaceNil) return {weird: 'go value leaked: ' + (v.constructor && v.constructor.string)};
      return {o: Object.keys(v).map(k => [unitsOf(k), serJs(v[k], depth + 1)])};
  }
  return {weird: typeof v};
}

// ---- Go values
function mkGo(T, V) {
  const t = mkType(T);
  if (T === 'jsobj') return mkJs(V.j);
  if (T === 'iface' || T === 'ifacem') {
    if (V.i === null) return $ifaceNil;
    const dt = mkType(V.i.t), dv = mkGo(V.i.t, V.i.v);
    if (dt === $jsObjectPtr) return new $jsObjectPtr(dv);
    return dt.wrapped ? new dt(dv) : dv;
  }
  if (T === 'funcany') throw new Error('funcany values are built by the func op');
  if (typeof T === 'string') {
    if (T === 'bool') return V.b;
    if (T === 'int64' || T === 'uint64') { const x = new t(0, 0); x.$high = V.h; x.$low = V.l; return x; }
    if (T === 'string') return units(V.s);
    return decNum(V.n);
  }
  switch (T[0]) {
    case 'slice':
      if (V.sl === null) return t.nil;
      return new t($toNativeArray(t.elem.kind, V.sl.map(x => mkGo(T[1], x))));
    case 'array': {
      const a = V.ar.map(x => mkGo(T[2], x));
      return V.bk === 'Array' ? a : $toNativeArray(t.elem.kind, a);
    }
    case 'map':
      if (V.m === null) return false;
      return $makeMap($String.keyFor, V.m.map(([k, v]) => ({k: units(k), v: mkGo(T[1], v)})));
    case 'ptr':
      if (V.p === null) return t.nil;
      if (T[1][0] === 'struct') return mkGo(T[1], V.p);
      throw new Error('only pointers to structs');
    case 'struct':
      return new t.ptr(...V.st.map((x, i) => mkGo(T[1][i][2], x)));
  }
  throw new Error('bad go value for ' + JSON.stringify(T));
}

function serGo(t, v, depth) {
  try { return serGo1(t, v, depth); } catch (e) { return {weird: 'not a ' + t.string + ': ' + e.message}; }
}
function serGo1(t, v, depth) {
  depth = depth || 0;
  if (depth > 12) return {weird: 'too deep'};
  if (t === $jsObjectPtr) return {j: serJs(v)};
  if ((v === undefined || v === null) && KIND[t.kind] !== 'Interface') return {weird: 'a ' + t.string + ' is ' + String(v)};
  if (t === funcAny) {
    if (typeof v !== 'function') return {weird: 'func is ' + typeof v};
    try {
      const r = v(new ($sliceType($emptyInterface))([]));
      if (r && r.__fn !== undefined) return {fj: r.__fn};
      return {weird: 'func result'};
    } catch (e) { return {weird: 'func call threw ' + e.message}; }
  }
  const k = KIND[t.kind];
  switch (k) {
    case 'Bool': return typeof v === 'boolean' ? {b: v} : {weird: 'bool is ' + typeof v};
    case 'Int64': case 'Uint64':
      if (!v || v.constructor !== t) return {weird: '64-bit value has wrong constructor'};
      return {h: v.$high, l: v.$low};
    case 'String':
      if (typeof v !== 'string') return {weird: 'string is ' + typeof v};
      return {s: unitsOf(v)};
    case 'Slice':
      if (v === t.nil) return {sl: null};
      if (v.constructor !== t) return {weird: 'slice has wrong constructor'};
      if (v.$array.constructor !== t.nativeArray) return {weird: 'slice backing store is ' + v.$array.constructor.name};
      { const out = []; for (let i = 0; i < v.$length; i++) out.push(serGo(t.elem, v.$array[v.$offset + i], depth + 1)); return {sl: out}; }
    case 'Array':
      { const out = []; for (let i = 0; i < v.length; i++) out.push(serGo(t.elem, v[i], depth + 1)); return {ar: out, bk: v.constructor.name}; }
    case 'Map':
      if (!v || v.keys === undefined) return {m: null};
      return {m: Array.from(v.values()).map(e => [unitsOf(e.k), serGo(t.elem, e.v, depth + 1)])};
    case 'Ptr':
      if (v === t.nil) return {p: null};
      if (KIND[t.elem.kind] === 'Struct') return {p: serGo(t.elem, v, depth + 1)};
      return {weird: 'pointer to non-struct'};
    case 'Struct':
      return {st: t.fields.map(f => serGo(f.typ, v[f.prop], depth + 1))};
    case 'Interface':
      if (v === $ifaceNil) return {i: null};
      if (v === undefined || v === null || v.constructor === undefined) return {weird: 'interface holds ' + String(v)};
      { const dt = v.constructor;
        if (dt === $jsObjectPtr) return {i: {t: 'jsobj', v: {j: serJs(v.object)}}};
        if (dt.kind === undefined) return {weird: 'interface holds a non-Go value'};
        return {i: {t: typeToJson(dt), v: serGo(dt, dt.wrapped ? v.$val : v, depth + 1)}}; }
    default:
      return {n: encNum(v)};
  }
}

function classify(e) {
  if (e && e.$runtimeError !== undefined) {
    const m = e.$runtimeError;
    if (/^cannot externalize/.test(m)) return 'ECannotExternalize';
    if (/^cannot internalize .* as a /.test(m)) return 'ENullAsArray';
    if (/^cannot internalize/.test(m)) return 'ECannotInternalize';
    if (/wrong size/.test(m)) return 'EArraySize';
    return 'runtime:' + m;
  }
  if (e instanceof TypeError) return 'EJsTypeError';
  return 'other:' + (e && e.message ? e.message : String(e));
}

function doExt(T, goVal) {
  try { return {ok: true, raw: $externalize(goVal, mkType(T))}; } catch (e) { return {ok: false, throw: classify(e)}; }
}
function doInt(T, jsVal) {
  try { return {ok: true, raw: $internalize(jsVal, mkType(T))}; } catch (e) { return {ok: false, throw: classify(e)}; }
}
function serRes(r, ser) { return r.ok ? {ok: ser(r.raw)} : {throw: r.throw}; }

function runCase(c) {
  switch (c.op) {
    case 'ext': {         // Go -> JS, then back with the same type and with interface{}
      const v = mkGo(c.t, c.v);
      const e = doExt(c.t, v);
      const out = {js: serRes(e, serJs)};
      if (e.ok) {
        const t = mkType(c.t);
        out.back = serRes(doInt(c.t, e.raw), x => serGo(t, x));
        out.any = serRes(doInt('iface', e.raw), x => serGo($emptyInterface, x));
        if (c.t === 'int8' || Array.isArray(c.t) && c.t[0] === 'slice') {
          // typed-array sharing: a numeric slice is passed as a view of the same memory
          out.shared = !!(e.raw && v.$array && e.raw.buffer !== undefined && e.raw.buffer === v.$array.buffer);
        }
      }
      return out;
    }
    case 'int': {         // JS -> Go with type t, then forth again
      const j = mkJs(c.j);
      const t = mkType(c.t);
      const i = doInt(c.t, j);
      const out = {go: serRes(i, x => serGo(t, x))};
      if (i.ok) out.fwd = serRes(doExt(c.t, i.raw), serJs);
      return out;
    }
    case 'numcheck':      // does the number encoding survive the transport?
      return {exact: c.nums.map(exactNum)};
    case 'func': {
      // Go functions f0..f(n-1) of type func(a T0) T1 (identity-like: returns its argument converted by conv);
      // seq: list of ids to externalize in order; reports the identity pattern of the wrappers and call results
      const ft = $funcType([mkType(c.pt)], [mkType(c.rt)], false);
      const calls = [];
      const fns = [];
      for (let i = 0; i < c.n; i++) fns.push(function (a) { calls.push(serGo(mkType(c.pt), a)); return mkGo(c.rt, c.ret); });
      const seen = [], ids = [];
      for (const k of c.seq) {
        const w = k < 0 ? $externalize($throwNilPointerError, ft) : $externalize(fns[k], ft);
        if (w === null) { ids.push(null); continue; }
        let id = seen.indexOf(w);
        if (id < 0) { seen.push(w); id = seen.length - 1; }
        ids.push(id);
      }
      let result = null;
      if (c.arg !== undefined) {
        const w = $externalize(fns[0], ft);
        try { result = {ok: serJs(w(mkJs(c.arg)))}; } catch (e) { result = {throw: classify(e)}; }
      }
      // through an interface value and through $externalizeFunction directly
      const viaIface = $externalize(new ft(fns[0]), $emptyInterface) === $externalize(fns[0], ft);
      const direct = $externalizeFunction(fns[0], ft, false) === $externalize(fns[0], ft);
      return {ids, calls, result, viaIface, direct};
    }
    case 'jsfunc': {      // JS function -> variadic Go func(fixed..., ...vt) *js.Object, called with a spread of a (sub)slice
      const f = jsFunc(c.f);
      const fixed = c.fixed || [], vt = c.vt || 'iface', pre = c.pre || [], post = c.post || [];
      const st = $sliceType(mkType(vt));
      const ft = $funcType(fixed.map(x => mkType(x[0])).concat([st]), [$jsObjectPtr], true);
      const g = $internalize(f, ft);
      const all = pre.concat(c.args, post).map(a => mkGo(vt, a));
      let sl = new st($toNativeArray(st.elem.kind, all));
      if (pre.length || post.length) sl = G('$subslice')(sl, pre.length, pre.length + c.args.length);
      const r = g(...fixed.map(x => mkGo(x[0], x[1])), sl);
      return {fn: r.__fn, args: r.args.map(x => serJs(x)), offset: sl.$offset};
    }
    case 'block': {       // $block with $curGoroutine = $noGoroutine, and with a goroutine
      const before = E('({cur: $curGoroutine === $noGoroutine, asleep: $noGoroutine.asleep, total: $totalGoroutines, awake: $awakeGoroutines, sched: $scheduled.length})');
      let thrown = null;
      try { G('$block')(); } catch (e) { thrown = P.classify(e); }
      const after = E('({cur: $curGoroutine === $noGoroutine, asleep: $noGoroutine.asleep, total: $totalGoroutines, awake: $awakeGoroutines, sched: $scheduled.length})');
      // with a current goroutine
      const r2 = E(`(function(){ var g = {asleep: false, exit: false, deferStack: [], panicStack: []}; var saved = $curGoroutine; $curGoroutine = g;
        var thrown = null; try { $block(); } catch (e) { thrown = String(e.$runtimeError || e.message); }
        $curGoroutine = saved; return {thrown: thrown, asleep: g.asleep}; })()`);
      const thrown2 = r2.thrown, asleep2 = r2.asleep;
      return {before, after, thrown, thrown2, asleep2};
    }
  }
  throw new Error('bad op ' + c.op);
}

const results = [];
for (const c of input.cases) {
  try { results.push(runCase(c)); } catch (e) { results.push({driver_error: String(e && e.stack || e)}); }
}
process.stdout.write(JSON.stringify(results));
