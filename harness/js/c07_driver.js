// C07 — drives the REAL prelude ($newType/$arrayType/$structType/$sliceType, type.zero/type.copy, $clone,
// $copyArray via $copySlice, $subslice, $append/$appendSlice/$internalAppend/$growSlice, $makeSlice)
// on generated type shapes and op sequences and prints, per case, the status of every op and a canonical
// deep snapshot (values + identity structure of every array/struct node) of all registers.
//
//   node c07_driver.js <repoDir>  < cases.json  > results.json
//
// Type table entries (may refer to earlier entries by index):
//   ["num", "int"|"uint8"|"float64"|"int16"]  ["str"]  ["ref", "ptr"|"slice"|"map"]  ["arr", n, ti]  ["struct", [ti...]]
// Ops: see exec() below.  Value registers hold array/struct nodes (or leaves), slice registers hold slices.
'use strict';
const path = require('path');
globalThis.require = require;   // the prelude reads the global `require` (new Function scope has none)
const repo = process.argv[2] || process.env.VERIF_REPO || '/repo';
const P = require(path.join(__dirname, 'prelude_loader.js')).load(repo);
const G = n => P.get(n);
const $clone = G('$clone'), $subslice = G('$subslice'), $append = G('$append'), $appendSlice = G('$appendSlice'),
  $copySlice = G('$copySlice'), $makeSlice = G('$makeSlice'), $arrayType = G('$arrayType'), $structType = G('$structType'),
  $sliceType = G('$sliceType'), $ptrType = G('$ptrType'), $mapType = G('$mapType'), $sliceToGoArray = G('$sliceToGoArray');
const basic = { int: G('$Int'), uint8: G('$Uint8'), float64: G('$Float64'), int16: G('$Int16'), str: G('$String') };

// pools of reference values (identity only matters): index k>=1 -> object; 0 = the type's zero value
const refPools = {};
function refValue(kind, k) {
  const t = refType(kind);
  if (k === 0) return t.zero();
  const key = kind + k;
  if (!refPools[key]) {
    if (kind === 'ptr') { let cell = k; refPools[key] = new t(() => cell, v => { cell = v; }); }
    else if (kind === 'slice') refPools[key] = $makeSlice(t, 1, 1);
    else refPools[key] = new Map();
    refIds.set(refPools[key], k);
  }
  return refPools[key];
}
const refIds = new Map();
function refType(kind) {
  if (kind === 'ptr') return $ptrType(basic.int);
  if (kind === 'slice') return $sliceType(basic.int);
  return $mapType(basic.int, basic.int);
}

function buildTypes(defs) {
  const ts = [];
  for (const d of defs) {
    let t;
    if (d[0] === 'num') t = { k: 'num', js: basic[d[1]] };
    else if (d[0] === 'str') t = { k: 'str', js: basic.str };
    else if (d[0] === 'ref') t = { k: 'ref', kind: d[1], js: refType(d[1]) };
    else if (d[0] === 'arr') t = { k: 'arr', n: d[1], elem: ts[d[2]], js: $arrayType(ts[d[2]].js, d[1]) };
    else if (d[0] === 'struct') {
      const fs = d[1].map((ti, i) => ({ prop: 'f' + i, name: 'f' + i, embedded: false, exported: false, typ: ts[ti].js, tag: '' }));
      t = { k: 'struct', fields: d[1].map(ti => ts[ti]), js: $structType('', fs) };
    } else throw new Error('bad type def ' + JSON.stringify(d));
    ts.push(t);
  }
  return ts;
}

function isNode(t) { return t.k === 'arr' || t.k === 'struct'; }
function leafToJs(t, z) {
  if (t.k === 'num') return z;
  if (t.k === 'str') return z === 0 ? '' : String(z);
  return refValue(t.kind, z);
}
function leafFromJs(t, v) {
  if (t.k === 'num') return v;
  if (t.k === 'str') return v === '' ? 0 : parseInt(v, 10);
  if (v === false || v === t.js.nil) return 0;
  const k = refIds.get(v);
  return k === undefined ? -1 : k;
}
// navigate: returns {t, get(), set(v)} for the place reached from (t, holder) through path
function place(t, getter, setter, p) {
  let cur = { t, get: getter, set: setter };
  for (const i of p) {
    const node = cur.get(), ct = cur.t;
    if (ct.k === 'arr') cur = { t: ct.elem, get: () => node[i], set: v => { node[i] = v; } };
    else if (ct.k === 'struct') cur = { t: ct.fields[i], get: () => node['f' + i], set: v => { node['f' + i] = v; } };
    else throw new Error('path through a leaf');
  }
  return cur;
}

function runCase(c) {
  const ts = buildTypes(c.types);
  const vregs = [];   // {t, v}
  const sregs = [];   // {t (elem), s}
  const status = [];
  const trace = [];
  const vplace = (r, p) => { const reg = vregs[r]; return place(reg.t, () => reg.v, v => { reg.v = v; }, p); };
  const elemPlace = (sr, i, p) => { const s = sr.s; const idx = s.$offset + i; return place(sr.t, () => s.$array[idx], v => { s.$array[idx] = v; }, p); };
  const slt = t => $sliceType(t.js);
  for (const op of c.ops) {
    let st = 'ok';
    try {
      switch (op[0]) {
        case 'zero': { const t = ts[op[1]]; vregs.push({ t, v: t.js.zero() }); break; }
        case 'clone': { const pl = vplace(op[1], op[2]); vregs.push({ t: pl.t, v: isNode(pl.t) ? $clone(pl.get(), pl.t.js) : pl.get() }); break; }
        case 'copy': { const d = vplace(op[1], op[2]), s = vplace(op[3], op[4]);
          if (isNode(d.t)) d.t.js.copy(d.get(), s.get()); else d.set(s.get()); break; }
        case 'write': { const pl = vplace(op[1], op[2]); pl.set(leafToJs(pl.t, op[3])); break; }
        case 'nil': { const t = ts[op[1]]; sregs.push({ t, s: slt(t).nil }); break; }
        case 'make': { const t = ts[op[1]]; let s; try { s = $makeSlice(slt(t), op[2], op[3]); } catch (e) { sregs.push({ t, s: slt(t).nil }); throw e; } sregs.push({ t, s }); break; }
        case 'sliceof': { const pl = vplace(op[1], op[2]); sregs.push({ t: pl.t.elem, s: new (slt(pl.t.elem))(pl.get()) }); break; }
        case 'subslice': { const sr = sregs[op[1]]; let s;
          try { s = $subslice(sr.s, op[2], op[3] === null ? undefined : op[3], op[4] === null ? undefined : op[4]); }
          catch (e) { sregs.push({ t: sr.t, s: slt(sr.t).nil }); throw e; }
          sregs.push({ t: sr.t, s }); break; }
        case 'append': { const sr = sregs[op[1]];
          const args = op[2].map(it => it[0] === 'z' ? leafToJs(sr.t, it[1]) : (() => { const pl = vplace(it[1], it[2]); return isNode(pl.t) ? $clone(pl.get(), pl.t.js) : pl.get(); })());
          sregs.push({ t: sr.t, s: $append.apply(null, [sr.s].concat(args)) }); break; }
        case 'appendslice': { const a = sregs[op[1]], b = sregs[op[2]]; sregs.push({ t: a.t, s: $appendSlice(a.s, b.s) }); break; }
        case 'copyslice': { const n = $copySlice(sregs[op[1]].s, sregs[op[2]].s); st = ['n', n]; break; }
        case 'swrite': { const sr = sregs[op[1]]; if (sr.s.$length === 0) { st = 'skip'; break; }
          const pl = elemPlace(sr, op[2] % sr.s.$length, op[3]); pl.set(leafToJs(pl.t, op[4])); break; }
        case 'sget': { const sr = sregs[op[1]];
          if (sr.s.$length === 0) { st = 'skip'; vregs.push({ t: sr.t, v: sr.t.js.zero() }); break; }
          const pl = elemPlace(sr, op[2] % sr.s.$length, []); vregs.push({ t: sr.t, v: isNode(sr.t) ? $clone(pl.get(), sr.t.js) : pl.get() }); break; }
        case 'sset': { const sr = sregs[op[1]]; if (sr.s.$length === 0) { st = 'skip'; break; }
          const d = elemPlace(sr, op[2] % sr.s.$length, []), s = vplace(op[3], op[4]);
          if (isNode(d.t)) d.t.js.copy(d.get(), s.get()); else d.set(s.get()); break; }
        case 'arrfromslice': { const d = vplace(op[1], op[2]); d.t.js.copy(d.get(), sregs[op[3]].s); break; }
        default: throw new Error('unknown op ' + op[0]);
      }
    } catch (e) {
      st = e && e.$runtimeError !== undefined ? 'err' : 'jserr:' + (e && e.message ? e.message : String(e)).slice(0, 80);
    }
    status.push(st);
    if (c.trace) trace.push(snapshotAll());
  }
  const fin = snapshotAll();
  return { status, vregs: fin.vregs, sregs: fin.sregs, trace: c.trace ? trace : undefined };
  // canonical snapshot
  function snapshotAll() {
  const ids = new Map();
  const snap = (t, v) => {
    if (!isNode(t)) return leafFromJs(t, v);
    if (v === undefined || v === null) return { bad: String(v) };
    if (ids.has(v)) return { seen: ids.get(v) };
    const id = ids.size; ids.set(v, id);
    if (t.k === 'arr') {
      const e = []; for (let i = 0; i < v.length; i++) e.push(snap(t.elem, v[i]));
      return { id, kind: v.constructor === Array ? 'arr' : 'typed', e };
    }
    return { id, kind: 'struct', e: t.fields.map((ft, i) => snap(ft, v['f' + i])) };
  };
  const vs = vregs.map(r => snap(r.t, r.v));
  const ss = sregs.map(r => {
    if (r.s === $sliceType(r.t.js).nil) return 'nil';
    return { arr: snap({ k: 'arr', elem: r.t }, r.s.$array), off: r.s.$offset, len: r.s.$length, cap: r.s.$capacity };
  });
  return { vregs: vs, sregs: ss };
  }

}

let input = '';
process.stdin.on('data', d => { input += d; });
process.stdin.on('end', () => {
  const cases = JSON.parse(input);
  const out = cases.map(c => { try { return runCase(c); } catch (e) { return { crash: String(e && e.stack || e).slice(0, 400) }; } });
  process.stdout.write(JSON.stringify(out));
});
