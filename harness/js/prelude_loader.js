// Loads the five REAL prelude files from <repo>/compiler/prelude (order as in prelude.go:
// prelude, numeric, types, goroutines, jsmapping) inside one function scope and returns an
// accessor for any internal ($decodeRune, $mul64, $newType, $Chan, $select, $methodSet, ...).
//
//   const P = require('./prelude_loader.js').load(repoDir, {seedRandom: fn?});
//   P.get('$decodeRune')("abc", 0)      P.eval('<js expression evaluated inside the prelude scope>')
//
// Runtime errors raised through $throwRuntimeError / $panic surface as JS exceptions; use
// P.classify(e) to map them to a small enum-like string.
'use strict';
const fs = require('fs');
const path = require('path');

function load(repoDir, opts) {
  opts = opts || {};
  const dir = path.join(repoDir || process.env.VERIF_REPO || '/repo', 'compiler', 'prelude');
  const files = ['prelude.js', 'numeric.js', 'types.js', 'goroutines.js', 'jsmapping.js'];
  let src = files.map(f => fs.readFileSync(path.join(dir, f), 'utf8')).join('\n');
  // the compiler defines these when assembling a program (compiler.go WriteProgramCode)
  const pre = 'var $global = globalThis, $module = undefined; var $packages = {}, $idCounter = 0; var $goVersion = "go1.20";\n';
  const post = `
;var $throwRuntimeError = function(msg) { var e = new Error("runtime error: " + msg); e.$runtimeError = msg; throw e; };
var __get = function(name) { return eval(name); };
var __eval = function(code) { return eval(code); };
return {get: __get, eval: __eval};`;
  if (typeof globalThis.require === 'undefined') { globalThis.require = require; }
  const realRandom = Math.random;
  if (opts.random) { Math.random = opts.random; }
  const fn = new Function(pre + src + post);
  const api = fn.call(globalThis);
  api.restoreRandom = function() { Math.random = realRandom; };
  api.classify = function(e) {
    if (e && e.$runtimeError !== undefined) return 'runtime error: ' + e.$runtimeError;
    if (e && e.$panicValue !== undefined) return 'panic';
    return 'js:' + (e && e.message ? e.message : String(e));
  };
  return api;
}
module.exports = {load};
