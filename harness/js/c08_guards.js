// C08 part A driver: calls the REAL prelude guards ($subslice, $substring, $makeSlice, $Chan,
// $sliceToGoArray, $close, $send) with stub operands, so that boundary values that cannot be
// allocated for real (length 2^31-1 ...) are still exercised.
//   node c08_guards.js <repoDir>  < cases.json  > results.json
// case: {op: "subslice", a: [...]}  result: {ok: [...]} | {throw: "msg"} | {jserr: "text"}
'use strict';
const path = require('path');
globalThis.require = require;   // prelude.js does `$global.require = require` under node (new Function scope has none)
const P = require(path.join(__dirname, 'prelude_loader.js')).load(process.argv[2]);
const $subslice = P.get('$subslice'), $substring = P.get('$substring'), $makeSlice = P.get('$makeSlice'),
  $Chan = P.get('$Chan'), $sliceToGoArray = P.get('$sliceToGoArray'), $close = P.get('$close'), $send = P.get('$send'),
  $chanNil = P.get('$chanNil'), $assertType = P.get('$assertType');

function FakeSlice(array) { this.$array = array; this.$offset = 0; this.$length = 0; this.$capacity = 0; }
FakeSlice.nil = new FakeSlice([]);
function mkslice(off, len, cap) { const s = new FakeSlice({ fake: true }); s.$offset = off; s.$length = len; s.$capacity = cap; return s; }
function FakeTyp(array) { this.$array = array; this.$offset = 0; this.$length = array.length; this.$capacity = array.length; }
FakeTyp.nativeArray = function (n) { this.length = n; };
FakeTyp.elem = { zero() { return 0; } };
const U = undefined;
const opt = (p, v) => (p ? v : U);

const fnCache = new Map();
function fn(code) { if (!fnCache.has(code)) fnCache.set(code, P.eval(code)); return fnCache.get(code); }
function mkmap(isnil, l) {
  if (isnil) return P.get('$mapType')(P.get('$Int'), P.get('$Int')).zero();      // the real nil map value
  const m = new Map();
  for (let i = 0; i + 1 < l.length; i += 2) m.set(P.get('$Int').keyFor(l[i]), { k: l[i], v: l[i + 1] });
  return m;
}
const structCache = new Map();
function mkstruct(n, withMethod) {
  const key = n + (withMethod ? 'm' : '');
  if (structCache.has(key)) return structCache.get(key);
  const props = [];
  for (let i = 0; i < n; i++) props.push('f' + i);
  // the constructor shape the compiler emits for a struct type
  const ctor = function () {
    this.$val = this;
    if (arguments.length === 0) { for (const p of props) this[p] = 0; return; }
    for (let i = 0; i < props.length; i++) this[props[i]] = arguments[i];
  };
  const S = P.get('$newType')(0, P.get('$kindStruct'), 'main.S' + key, true, 'main', true, ctor);
  if (withMethod) S.ptr.methods = [{ prop: 'M', name: 'M', pkg: '', typ: P.get('$funcType')([], [], false) }];
  S.init('main', props.map(p => ({ prop: p, name: p, embedded: false, exported: false, typ: P.get('$Int'), tag: '' })));
  structCache.set(key, S);
  return S;
}
let PAL = null;
function assertPalette() {
  if (PAL) return PAL;
  // runtime.TypeAssertionError is defined by the runtime package; stand-in whose Error() text marks the panic
  P.eval('$packages["runtime"] = { TypeAssertionError: { ptr: function(a, b, c, d) { this.Error = function() { return "TAE:" + d; }; } }, _type: { ptr: function(s) { this.str = s; } } }; $packages["runtime"]._type.ptr.nil = null;');
  const $Int = P.get('$Int'), $String = P.get('$String'), $Float64 = P.get('$Float64');
  const S1 = mkstruct(1, false), S2 = mkstruct(2, true);
  const ft = P.get('$funcType')([], [], false);
  const mkI = (name, ms) => { const I = P.get('$newType')(8, P.get('$kindInterface'), 'main.' + name, true, 'main', true, null); I.init(ms.map(m => ({ prop: m, name: m, pkg: '', typ: ft }))); return I; };
  PAL = {
    // dynamic types: index = type identity in the model; methods: S2's pointer type has method M (model id 100)
    values: [
      { typ: $Int, make: pl => new $Int(pl), read: v => v },
      { typ: $String, make: pl => new $String(String(pl)), read: v => (v === '' ? 0 : parseInt(v, 10)) },
      { typ: $Float64, make: pl => new $Float64(pl), read: v => v },
      { typ: S1.ptr, make: pl => new S1.ptr(pl), read: v => (v === S1.ptr.nil ? 0 : v.f0) },
      { typ: S2.ptr, make: pl => new S2.ptr(pl, 0), read: v => (v === S2.ptr.nil ? 0 : v.f0) },
    ],
    // interface targets: {} / {M} / {M, N}
    ifaces: [P.get('$emptyInterface'), mkI('IM', ['M']), mkI('IMN', ['M', 'N'])],
  };
  return PAL;
}

function run(c) {
  const a = c.a;
  switch (c.op) {
    case 'subslice': { // offset len cap low hp h mp m
      const r = $subslice(mkslice(a[0], a[1], a[2]), a[3], opt(a[4], a[5]), opt(a[6], a[7]));
      return [r.$offset, r.$length, r.$capacity];
    }
    case 'substring': { // len low hp h   (a real string, len <= 64)
      let s = '';
      for (let i = 0; i < a[0]; i++) s += String.fromCharCode(48 + i);
      const r = $substring(s, a[1], opt(a[2], a[3]));
      return r.length === 0 ? [0, 0] : [r.charCodeAt(0) - 48, r.length];
    }
    case 'substring_fake': { // huge length: stub string object, high always present
      const s = { length: a[0], substring(l, h) { return { l, h }; } };
      const r = $substring(s, a[1], opt(a[2], a[3]));
      return r.h === r.l ? [0, 0] : [r.l, r.h - r.l];
    }
    case 'makeslice': { // len cp c
      const r = a[1] ? $makeSlice(FakeTyp, a[0], a[2]) : $makeSlice(FakeTyp, a[0]);
      return [0, r.$length, r.$array.length];
    }
    case 'makechan': { const ch = new $Chan(null, a[0]); return [ch.$capacity]; }
    case 'slice2arr': { // slen alen ; numeric backing array
      const s = new FakeSlice(new Int32Array(a[0] + 2)); s.$offset = 1; s.$length = a[0]; s.$capacity = a[0] + 1;
      const r = $sliceToGoArray(s, { elem: { len: a[1] }, nil: null });
      return [r.length];
    }
    case 'close_nil': { // probes the real $close on the nil channel; must throw per the Go spec
      const was = $chanNil.$closed;
      try { $close($chanNil); } finally { $chanNil.$closed = was; }
      return [0];
    }
    case 'close_closed': { const ch = new $Chan(null, 0); $close(ch); $close(ch); return [0]; }
    case 'send_closed': { const ch = new $Chan(null, 1); $close(ch); $send(ch, 1); return [0]; }
  }
  switch (c.op) {
    // ---- phase 4: guards on the shape of a value.  c.code: the JavaScript the compiler emits for the
    // operation, instantiated by the check from the format strings in statements.go / expressions.go ----
    case 'map_store': { // isnil k v k1 v1 ...
      const m = mkmap(a[0], a.slice(3));
      const r = fn(c.code)(m, a[1], a[2]);
      const out = [];
      for (const e of r.values()) out.push(e.k, e.v);
      return out;
    }
    case 'map_read': { // isnil k k1 v1 ... ; code returns [plain value, [value, ok]]
      const m = mkmap(a[0], a.slice(2));
      const r = fn(c.code)(m, a[1]);
      if (r[0] !== r[1][0]) throw new Error('plain and comma-ok map reads disagree');
      return [r[1][0], r[1][1] ? 1 : 0];
    }
    case 'ptr_get': { // isnil n i f0 ...
      const S = mkstruct(a[1]);
      const p = a[0] ? S.ptr.nil : new S.ptr(...a.slice(3));
      const v = p['f' + a[2]];
      return v === undefined ? [] : [v];
    }
    case 'ptr_set': { // isnil n i v f0 ...
      const S = mkstruct(a[1]);
      const p = a[0] ? S.ptr.nil : new S.ptr(...a.slice(4));
      if (!a[0] && a[2] >= a[1]) return a.slice(4);   // no such field: not expressible in Go
      p['f' + a[2]] = a[3];
      if (a[0]) return [-1];                          // a store through the nil pointer went through: must not be masked by the reads below
      const out = [];
      for (let i = 0; i < a[1]; i++) out.push(p['f' + i]);
      return out;
    }
    case 'assert': { // tuple vnil vtid pl tkind ttid nvm vms... ims...   (ids index the palettes below)
      const pal = assertPalette();
      const value = a[1] ? P.get('$ifaceNil') : pal.values[a[2]].make(a[3]);
      const type = a[4] ? pal.ifaces[a[5]] : pal.values[a[5]].typ;
      let r;
      try { r = a[0] ? $assertType(value, type, true) : $assertType(value, type); }
      catch (e) {
        if (e && typeof e.message === 'string' && e.message.startsWith('TAE:')) { const t = new Error('tae'); t.$runtimeError = e.message; throw t; }
        throw e;
      }
      const dec = v => (a[4] ? (v === value ? a[3] : -1) : pal.values[a[5]].read(v));
      if (!a[0]) return [dec(r)];
      if (r[1]) return [dec(r[0]), 1];
      return [r[0] === type.zero() ? 0 : -1, 0];
    }
    case 'map_zero': { const t = P.get('$mapType')(P.get('$Int'), P.get('$Int')); return [t.zero() === false ? 1 : 0]; }
  }
  throw new Error('bad op ' + c.op);
}

let input = '';
process.stdin.on('data', d => { input += d; });
process.stdin.on('end', () => {
  const out = JSON.parse(input).map(c => {
    try { return { ok: run(c) }; } catch (e) {
      if (e && e.$runtimeError !== undefined) return { throw: e.$runtimeError };
      return { jserr: String(e && e.message ? e.message : e) };
    }
  });
  process.stdout.write(JSON.stringify(out));
});
