// C08 part A driver: calls the REAL prelude guards ($subslice, $substring, $makeSlice, $Chan,
// $sliceToGoArray, $close, $send) with stub operands, so that boundary values that cannot be
// allocated for real (length 2^31-1 ...) are still exercised.
//   node c08_guards.js <repoDir>  < cases.json  > results.json
// case: {op: "subslice", a: [...]}  result: {ok: [...]} | {throw: "msg"} | {jserr: "text"}
'use strict';
const path = require('path');
globalThis.require = require;   // prelude.js does `$global.require = require` under node (new Function scope has none)
const P = require(path.join(__dirname, 'prelude_loader.js')).load(process.argv[2]);
const $subslice = P.get('$subslice'), $substring = P.get('$substring'), $makeSlice = P.get('$makeSlice'),
  $Chan = P.get('$Chan'), $sliceToGoArray = P.get('$sliceToGoArray'), $close = P.get('$close'), $send = P.get('$send'),
  $chanNil = P.get('$chanNil');

function FakeSlice(array) { this.$array = array; this.$offset = 0; this.$length = 0; this.$capacity = 0; }
FakeSlice.nil = new FakeSlice([]);
function mkslice(off, len, cap) { const s = new FakeSlice({ fake: true }); s.$offset = off; s.$length = len; s.$capacity = cap; return s; }
function FakeTyp(array) { this.$array = array; this.$offset = 0; this.$length = array.length; this.$capacity = array.length; }
FakeTyp.nativeArray = function (n) { this.length = n; };
FakeTyp.elem = { zero() { return 0; } };
const U = undefined;
const opt = (p, v) => (p ? v : U);

function run(c) {
  const a = c.a;
  switch (c.op) {
    case 'subslice': { // offset len cap low hp h mp m
      const r = $subslice(mkslice(a[0], a[1], a[2]), a[3], opt(a[4], a[5]), opt(a[6], a[7]));
      return [r.$offset, r.$length, r.$capacity];
    }
    case 'substring': { // len low hp h   (a real string, len <= 64)
      let s = '';
      for (let i = 0; i < a[0]; i++) s += String.fromCharCode(48 + i);
      const r = $substring(s, a[1], opt(a[2], a[3]));
      return r.length === 0 ? [0, 0] : [r.charCodeAt(0) - 48, r.length];
    }
    case 'substring_fake': { // huge length: stub string object, high always present
      const s = { length: a[0], substring(l, h) { return { l, h }; } };
      const r = $substring(s, a[1], opt(a[2], a[3]));
      return r.h === r.l ? [0, 0] : [r.l, r.h - r.l];
    }
    case 'makeslice': { // len cp c
      const r = a[1] ? $makeSlice(FakeTyp, a[0], a[2]) : $makeSlice(FakeTyp, a[0]);
      return [0, r.$length, r.$array.length];
    }
    case 'makechan': { const ch = new $Chan(null, a[0]); return [ch.$capacity]; }
    case 'slice2arr': { // slen alen ; numeric backing array
      const s = new FakeSlice(new Int32Array(a[0] + 2)); s.$offset = 1; s.$length = a[0]; s.$capacity = a[0] + 1;
      const r = $sliceToGoArray(s, { elem: { len: a[1] }, nil: null });
      return [r.length];
    }
    case 'close_nil': { // probes the real $close on the nil channel; must throw per the Go spec
      const was = $chanNil.$closed;
      try { $close($chanNil); } finally { $chanNil.$closed = was; }
      return [0];
    }
    case 'close_closed': { const ch = new $Chan(null, 0); $close(ch); $close(ch); return [0]; }
    case 'send_closed': { const ch = new $Chan(null, 1); $close(ch); $send(ch, 1); return [0]; }
  }
  throw new Error('bad op ' + c.op);
}

let input = '';
process.stdin.on('data', d => { input += d; });
process.stdin.on('end', () => {
  const out = JSON.parse(input).map(c => {
    try { return { ok: run(c) }; } catch (e) {
      if (e && e.$runtimeError !== undefined) return { throw: e.$runtimeError };
      return { jserr: String(e && e.message ? e.message : e) };
    }
  });
  process.stdout.write(JSON.stringify(out));
});
