// C03 driver: interprets goroutine scripts against the REAL prelude ($go/$schedule/$runScheduled/
// $block/$setTimeout/$send/$recv/$close/$select, $Chan, $chanNil), using the calling convention the
// compiler emits for blocking calls:
//     $r = $send(c, v); $s = 9; case 9: if ($c) { $c = false; $r = $r.$blk(); } if ($r && $r.$blk !== undefined) { break s; }
// i.e. a goroutine function returns a frame with $blk when a callee blocked and is re-entered through
// frame.$blk(), which first calls the callee's $blk().
//
//   node c03_driver.js <repoDir> <request.json>      -> JSON reply on stdout
// request: {cases: [{caps:[..], scripts:[[op..]..], picks:[n..], breaks:[0|1..]}]}
//   op   = ["send",c,v] | ["recv",c] | ["close",c] | ["select",[comm..]] | ["range",c] | ["go",k] |
//          ["gosched"] | ["goexit"] | ["print",v]          (channel 0 is the nil channel)
//   comm = ["default"] | ["recv",c] | ["send",c,v]
// The environment is deterministic: setTimeout/clearTimeout are a FIFO timer queue pumped by the driver
// (same-delay timers fire in insertion order, as in node), Date.now is a clock that jumps past the 4 ms
// slice when the `breaks` oracle says so, Math.random replays the `picks` oracle ((n+0.5)/60), and
// process.exit / console.error are captured.  Every goroutine runs with the equivalent of
// `defer func(){ recover() }()` at its top: a panic raised by a channel operation is recorded and ends
// that goroutine normally.
'use strict';
const fs = require('fs');
const path = require('path');
const loader = require(path.join(__dirname, 'prelude_loader.js'));
const repoDir = process.argv[2];
const req = JSON.parse(fs.readFileSync(process.argv[3], 'utf8'));

const real = {setTimeout: globalThis.setTimeout, clearTimeout: globalThis.clearTimeout, now: Date.now,
              exit: process.exit, cerr: console.error, random: Math.random};
const PICK_L = 60;

class ExitSignal { constructor(code) { this.code = code; } }

function runCase(cs) {
  // ---- deterministic environment
  let timers = [], tid = 0, clock = 1000, pickIdx = 0, breakIdx = 0, stderr = [];
  globalThis.setTimeout = (f, t) => { const id = ++tid; timers.push({id, f}); return id; };
  globalThis.clearTimeout = id => { const k = timers.findIndex(x => x.id === id); if (k >= 0) timers.splice(k, 1); };
  Date.now = () => clock;
  process.exit = code => { throw new ExitSignal(code); };
  console.error = (...a) => { stderr.push(a.join(' ')); };
  const random = () => { const n = pickIdx < cs.picks.length ? cs.picks[pickIdx] % PICK_L : 0; pickIdx++; return (n + 0.5) / PICK_L; };
  const P = loader.load(repoDir, {random});
  const $go = P.get('$go'), $send = P.get('$send'), $recv = P.get('$recv'), $close = P.get('$close'),
        $select = P.get('$select'), $Chan = P.get('$Chan'), $chanNil = P.get('$chanNil'), $Int = P.get('$Int'),
        $setTimeout = P.get('$setTimeout'), $throw = P.get('$throw');
  const chans = [$chanNil].concat(cs.caps.map(c => new $Chan($Int, c)));
  const trace = [];
  let ngor = 0;
  const status = [];

  function panicKind(e) {
    if (e && e.$runtimeError !== undefined) {
      switch (e.$runtimeError) {
        case 'send on closed channel': return 'send-closed';
        case 'close of closed channel': return 'close-closed';
        case 'close of nil channel': return 'close-nil';
      }
      return 'runtime:' + e.$runtimeError;
    }
    return 'js-error';
  }
  const comm = c => c[0] === 'default' ? [] : c[0] === 'recv' ? [chans[c[1]]] : [chans[c[1]], c[2]];

  // one goroutine = one "compiled function": fn() starts it, frame.$blk() re-enters it
  function makeFn(script, gid) {
    return function () {
      status[gid] = 'running';
      let pc = 0, $r, $c = false, gs = null;     // gs: Gosched's inner state (the hidden channel)
      const frame = {$blk() { $c = true; return body(); }};
      const endSlice = ret => {                   // time-slice oracle: consumed each time the function returns
        const b = breakIdx < cs.breaks.length ? cs.breaks[breakIdx] : 0; breakIdx++;
        if (b) clock += 5;
        return ret;
      };
      function body() {
        try {
          while (pc < script.length) {
            const op = script[pc];
            switch (op[0]) {
              case 'send':
                if ($c) { $c = false; $r = $r.$blk(); } else { $r = $send(chans[op[1]], op[2]); }
                if ($r && $r.$blk !== undefined) { return endSlice(frame); }
                trace.push([gid, 'send']); break;
              case 'recv':
                if ($c) { $c = false; $r = $r.$blk(); } else { $r = $recv(chans[op[1]]); }
                if ($r && $r.$blk !== undefined) { return endSlice(frame); }
                trace.push([gid, 'recv', $r[0], $r[1]]); break;
              case 'range':
                if ($c) { $c = false; $r = $r.$blk(); } else { $r = $recv(chans[op[1]]); }
                if ($r && $r.$blk !== undefined) { return endSlice(frame); }
                trace.push([gid, 'recv', $r[0], $r[1]]);
                if ($r[1]) { continue; }          // loop: same pc
                break;
              case 'close':
                $close(chans[op[1]]); trace.push([gid, 'close']); break;
              case 'select': {
                const hasDefault = op[1].some(c => c[0] === 'default');
                if (hasDefault) {                 // the compiler emits no $blk protocol for a select with default
                  $r = $select(op[1].map(comm));
                } else {
                  if ($c) { $c = false; $r = $r.$blk(); } else { $r = $select(op[1].map(comm)); }
                  if ($r && $r.$blk !== undefined) { return endSlice(frame); }
                }
                if ($r.length > 1 && $r[1] && $r[1].$blk !== undefined) { trace.push([gid, 'sel-inner-blocked', $r[0]]); }
                else if ($r.length > 1) { trace.push([gid, 'sel', $r[0], $r[1][0], $r[1][1]]); }
                else { trace.push([gid, 'sel', $r[0]]); }
                break;
              }
              case 'go':
                trace.push([gid, 'go', op[1]]);
                $go(makeFn(cs.scripts[op[1]], ngor++), []); break;
              case 'gosched':                     // natives/src/runtime/runtime.go Gosched, by hand
                if ($c) { $c = false; $r = $r.$blk(); }
                else { const c = new $Chan($Int, 0); $setTimeout(() => { $close(c); }, 0); $r = $recv(c); }
                if ($r && $r.$blk !== undefined) { return endSlice(frame); }
                trace.push([gid, 'sched']); break;
              case 'goexit':                      // natives/src/runtime/runtime.go Goexit, by hand
                trace.push([gid, 'goexit']);
                status[gid] = 'exited';
                { const g = P.eval('$curGoroutine'); g.exit = true; g.exitFrames = g.deferStack.length; }
                $throw(null);
                break;
              case 'print':
                trace.push([gid, 'print', op[1]]); break;
              default: throw new Error('bad op ' + op[0]);
            }
            pc++;
          }
        } catch (e) {
          if (e === null || e instanceof ExitSignal) { endSlice(); throw e; }
          trace.push([gid, 'panic', panicKind(e)]);   // recovered at the top of the goroutine
          status[gid] = 'done';
          if (gid === 0) P.eval('$mainFinished = true');
          return endSlice(undefined);
        }
        status[gid] = 'done';
        if (gid === 0) P.eval('$mainFinished = true');    // what $init does after main() returns
        return endSlice(undefined);
      }
      return body();
    };
  }

  let outcome = 'exit', crash = null;
  try {
    $go(makeFn(cs.scripts[0], ngor++), []);
    let guard = 0;
    while (timers.length && guard++ < 100000) { const t = timers.shift(); t.f(); }
    if (timers.length) outcome = 'timer-loop';
  } catch (e) {
    if (e instanceof ExitSignal) { outcome = e.code === 2 && stderr.some(s => /all goroutines are asleep/.test(s)) ? 'deadlock' : 'exit-code-' + e.code; }
    else { outcome = 'crash'; crash = String(e && e.stack || e).slice(0, 400); }
  }
  const fin = chans.map(c => ({buf: Array.from(c.$buffer), closed: !!c.$closed, sq: c.$sendQueue.length, rq: c.$recvQueue.length}));
  const res = {trace, outcome, awake: P.eval('$awakeGoroutines'), total: P.eval('$totalGoroutines'),
               mainFinished: P.eval('$mainFinished'), scheduled: P.eval('$scheduled.length'), chans: fin,
               picksUsed: pickIdx, breaksUsed: breakIdx, ngor};
  if (crash) res.crash = crash;
  P.restoreRandom();
  return res;
}

const out = req.cases.map(cs => {
  try { return runCase(cs); } catch (e) { return {outcome: 'driver-error', error: String(e && e.stack || e).slice(0, 400), trace: []}; }
});
globalThis.setTimeout = real.setTimeout; globalThis.clearTimeout = real.clearTimeout; Date.now = real.now;
process.exit = real.exit; console.error = real.cerr; Math.random = real.random;
process.stdout.write(JSON.stringify({results: out}));
