// C14 driver: runs the REAL prelude string functions (loaded from <repo>/compiler/prelude by
// prelude_loader.js) on the inputs of a JSON request file and prints a JSON reply.
//   node c14_driver.js <repoDir> <request.json>
// Go strings are JS strings with one byte per code unit; hex <-> such strings here.
'use strict';
const fs = require('fs');
const path = require('path');
globalThis.require = require;   // prelude.js reads the free variable `require` (the loader evaluates it via new Function)
const P = require(path.join(__dirname, 'prelude_loader.js')).load(process.argv[2]);
const req = JSON.parse(fs.readFileSync(process.argv[3], 'utf8'));

const $decodeRune = P.get('$decodeRune'), $encodeRune = P.get('$encodeRune');
const $stringToRunes = P.get('$stringToRunes'), $runesToString = P.get('$runesToString');
const $stringToBytes = P.get('$stringToBytes'), $bytesToString = P.get('$bytesToString');
const $substring = P.get('$substring'), $copyString = P.get('$copyString');
const $subslice = P.get('$subslice');
const runeSlice = P.eval('$sliceType($Int32)'), byteSlice = P.eval('$sliceType($Uint8)');

function unhex(h) { let s = ''; for (let i = 0; i < h.length; i += 2) s += String.fromCharCode(parseInt(h.substr(i, 2), 16)); return s; }
function units(s) { const a = new Array(s.length); for (let i = 0; i < s.length; i++) a[i] = s.charCodeAt(i); return a; }
function guarded(f) { try { return f(); } catch (e) { return {error: P.classify(e)}; } }
// a real Go slice value (prelude slice type) windowing [off, off+len) of a typed array
function mkslice(typ, native, off, len) { return $subslice(new typ(native), off, off + len); }

const rep = {};
rep.strings = (req.strings || []).map(h => guarded(() => {
  const s = unhex(h);
  const decs = [];
  for (let pos = 0; pos <= s.length; pos++) { const r = $decodeRune(s, pos); decs.push([r[0], r[1]]); }
  const runes = $stringToRunes(s);                       // Int32Array
  const back = $runesToString(mkslice(runeSlice, runes, 0, runes.length));
  return {decs, runes: Array.from(runes), back: units(back), bytes: Array.from($stringToBytes(s))};
}));
rep.runes = (req.runes || []).map(r => guarded(() => units($encodeRune(r))));
rep.r2s = (req.r2s || []).map(q => guarded(() => units($runesToString(mkslice(runeSlice, Int32Array.from(q.arr), q.off, q.len)))));
rep.b2s = (req.b2s || []).map(q => guarded(() => {
  // arr[i] = (a*i + b) % 256 for i < n  (the same formula is used by the Python side)
  const arr = new Uint8Array(q.n); for (let i = 0; i < q.n; i++) arr[i] = (q.a * i + q.b) % 256;
  return units($bytesToString(mkslice(byteSlice, arr, q.off, q.len)));
}));
rep.copy = (req.copy || []).map(q => guarded(() => {
  const arr = Uint8Array.from(q.arr);
  const n = $copyString(mkslice(byteSlice, arr, q.off, q.len), unhex(q.src));
  return {n, arr: Array.from(arr)};
}));
rep.subs = (req.subs || []).map(q => guarded(() => {
  const s = unhex(q.s);
  return {v: units(q.hi === null || q.hi === undefined ? $substring(s, q.lo) : $substring(s, q.lo, q.hi))};
}));
// value V8 gives to the literal emitted by encodeString (ASCII text, hex encoded)
rep.lits = (req.lits || []).map(h => guarded(() => ({v: units((0, eval)(unhex(h)))})));
process.stdout.write(JSON.stringify(rep));
