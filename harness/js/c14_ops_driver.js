// C14 (phase 4) driver: calls the functions of the string-operator table program exactly as the REAL compiler
// emitted them (harness/py/c14_gen.py builds the program with the gopherjs of the tree under test; its main
// publishes the raw, unwrapped JS functions as globalThis.c14ops through js.InternalObject), with the prelude
// that is linked into that program.
//   node c14_ops_driver.js <out.js> <request.json>
// Go strings are JS strings with one byte per code unit; they travel as hex.  Slices are passed as plain
// objects with the fields the prelude reads ($array, $offset, $length, $capacity).
'use strict';
const fs = require('fs');
const req = JSON.parse(fs.readFileSync(process.argv[3], 'utf8'));
require(process.argv[2]);

function unhex(h) { let s = ''; for (let i = 0; i < h.length; i += 2) s += String.fromCharCode(parseInt(h.substr(i, 2), 16)); return s; }
function units(s) { const a = new Array(s.length); for (let i = 0; i < s.length; i++) a[i] = s.charCodeAt(i); return a; }

function arg(a) {
  if ('s' in a) return unhex(a.s);
  if ('n' in a) return a.n;
  if ('gen' in a) {       // byte slice over arr[i] = (a*i + b) % 256, i < n
    const g = a.gen, arr = new Uint8Array(g.n);
    for (let i = 0; i < g.n; i++) arr[i] = (g.a * i + g.b) % 256;
    return {$array: arr, $offset: g.off, $length: g.len, $capacity: g.cap};
  }
  if ('bytes' in a) return {$array: Uint8Array.from(a.bytes.arr), $offset: a.bytes.off, $length: a.bytes.len, $capacity: a.bytes.cap};
  if ('runes' in a) return {$array: Int32Array.from(a.runes.arr), $offset: a.runes.off, $length: a.runes.len, $capacity: a.runes.cap};
  if ('i64' in a) return {$high: a.i64[0], $low: a.i64[1]};
  throw new Error('bad argument');
}

function out(v) {
  if (typeof v === 'string') return {str: units(v)};
  if (typeof v === 'number') return v !== v ? {nan: true} : {num: v};
  if (typeof v === 'boolean') return {bool: v};
  if (v === undefined) return {undef: true};
  if (v && v.$array instanceof Uint8Array) return {bytes: {arr: Array.from(v.$array), off: v.$offset, len: v.$length, cap: v.$capacity}};
  if (v && v.$array instanceof Int32Array) return {runes: {arr: Array.from(v.$array), off: v.$offset, len: v.$length, cap: v.$capacity}};
  return {other: String(v)};
}

function guarded(f) {
  try { return f(); } catch (e) {
    // $throwRuntimeError of a linked program panics with a runtime.Error value; its message is what Go prints
    let msg = null;
    try { if (e && e.$panicValue !== undefined) { const pv = e.$panicValue; msg = pv.Error ? pv.Error() : (pv.$val && pv.$val.Error ? pv.$val.Error() : null); } } catch (e2) { msg = null; }
    if (msg === null || msg === undefined) msg = (e && e.message) ? e.message : String(e);
    return {panic: String(msg)};
  }
}

function main() {
  const ops = globalThis.c14ops;
  const rep = {};
  rep.calls = (req.calls || []).map(c => guarded(() => out(ops[c.t].apply(undefined, c.args.map(arg)))));
  // x += y must be the same as x + y
  rep.addassign = (req.addassign || []).map(c => guarded(() => out(ops.AddAssign(unhex(c[0]), unhex(c[1])))));
  rep.switches = (req.switches || []).map(h => guarded(() => ({num: ops.Switch(unhex(h))})));
  rep.maps = (req.maps || []).map(script => guarded(() => {
    const m = ops.MapNew(), gets = [];
    for (const op of script) {
      const k = unhex(op.k);
      if (op.op === 'set') ops.MapSet(m, k, op.v);
      else if (op.op === 'del') ops.MapDel(m, k);
      else { const r = ops.MapGet2(m, k); gets.push([r[0], r[1], ops.MapGet(m, k)]); }
    }
    // the Map's own keys (insertion order) and the Go keys stored in the entries
    const keys = [], gokeys = [];
    m.forEach((e, key) => { keys.push(units(key)); gokeys.push(units(e.k)); });
    return {gets, len: ops.MapLen(m), keys, gokeys};
  }));
  process.stdout.write(JSON.stringify(rep));
}

let tries = 0;
(function wait() {
  if (globalThis.c14ops) return main();
  if (++tries > 200) { process.stderr.write('c14ops was not published by the table program\n'); process.exit(3); }
  setTimeout(wait, 5);
})();
