// C15 driver: builds key types with the REAL run-time type constructors ($newType, $structType,
// $arrayType, $ptrType, $chanType, ...) of <repo>/compiler/prelude, builds key values the way the
// compiler's output does, and runs operation histories with the map-operation snippets the
// compiler EMITS (the Go format strings are extracted from expressions.go / statements.go by
// harness/py/props/c15.py and handed in as JS source in input.tpl).
//
// stdin : {repo, tpl:{set,get,get2,del,len,make,lit_open,...}, cases:[case...]}
// case  : {types:[tdesc...], objs:[ti...], key:ti, nilmap:bool, ops:[...], floats:[hex...]}
// stdout: [{ctr0, tstr:[...], nts:{hex:[units]}, steps:[{r, err, snap:[[key,k,v]...], ctr}]}]
'use strict';
const fs = require('fs');
const path = require('path');
const input = JSON.parse(fs.readFileSync(0, 'utf8'));
globalThis.require = require;   // prelude.js does `$global.require = require` under node
const loader = require(path.join(__dirname, 'prelude_loader.js'));
// a fresh prelude instance per case: $idCounter starts at 0 and no type object / nil pointer object
// carries a $id from an earlier case
let P, G, KIND, OPS;
const SIZE = { Bool: 1, Int: 4, Int8: 1, Int16: 2, Int32: 4, Int64: 8, Uint: 4, Uint8: 1, Uint16: 2, Uint32: 4, Uint64: 8, Uintptr: 4, Float32: 4, Float64: 8, Complex64: 8, Complex128: 16, String: 8 };
function fresh() {
  P = loader.load(input.repo);
  G = n => P.get(n);
  KIND = {};
  ['Bool', 'Int', 'Int8', 'Int16', 'Int32', 'Int64', 'Uint', 'Uint8', 'Uint16', 'Uint32', 'Uint64', 'Uintptr', 'Float32',
    'Float64', 'Complex64', 'Complex128', 'Array', 'Chan', 'Func', 'Interface', 'Map', 'Ptr', 'Slice', 'String', 'Struct'
  ].forEach(n => { KIND[n] = G('$kind' + n); });
  // the emitted operations, evaluated inside the prelude scope
  OPS = {};
  for (const name of Object.keys(input.tpl)) { OPS[name] = P.eval('(' + input.tpl[name] + ')'); }
}

function f64FromHex(h) { const b = Buffer.from(h, 'hex'); return b.readDoubleBE(0); }
function hexFromF64(x) { const b = Buffer.alloc(8); b.writeDoubleBE(x, 0); return b.toString('hex'); }
function strFromUnits(u) { return String.fromCharCode.apply(null, u); }
function unitsFromStr(s) { const r = []; for (let i = 0; i < s.length; i++) r.push(s.charCodeAt(i)); return r; }

function runCase(c) {
  fresh();
  const T = [];            // type objects
  const basicKind = [];    // for describe/build: resolved descriptor (named -> underlying, with ctor = the named type)
  const revType = new Map();
  function under(ti) { let d = c.types[ti]; while (d.k === 'named') d = c.types[d.under]; return d; }
  // ---- types, in table order (entries only refer to earlier entries)
  c.types.forEach((d, ti) => {
    let t;
    switch (d.k) {
      case 'bool': t = G('$Bool'); break;
      case 'int': t = G('$' + d.kind); break;
      case 'float': t = G(d.bits === 32 ? '$Float32' : '$Float64'); break;
      case 'int64': t = G('$Int64'); break;
      case 'uint64': t = G('$Uint64'); break;
      case 'complex': t = G(d.bits === 64 ? '$Complex64' : '$Complex128'); break;
      case 'string': t = G('$String'); break;
      case 'iface': t = G('$emptyInterface'); break;
      case 'ptr': t = G('$ptrType')(T[d.elem]); break;
      case 'chan': t = G('$chanType')(T[d.elem], d.dir === 1, d.dir === 2); break;
      case 'array': t = G('$arrayType')(T[d.elem], d.n); break;
      case 'slice': t = G('$sliceType')(T[d.elem]); break;
      case 'map': t = G('$mapType')(T[d.key], T[d.elem]); break;
      case 'func': t = G('$funcType')([], [], false); break;
      case 'struct':
        t = G('$structType')('main', d.fields.map((f, i) => ({
          prop: f.name === '_' ? '_$' + i : f.name, name: f.name, embedded: false, exported: /^[A-Z]/.test(f.name), typ: T[f.t], tag: f.tag || ''
        })));
        break;
      case 'named': {
        // what the compiler emits for `type Name Under` (decls.go): $newType(size, kind, "main.Name", true, "main", exported, ctor) then .init(...)
        const u = under(ti);
        const str = 'main.' + d.name;
        switch (u.k) {
          case 'bool': t = G('$newType')(1, KIND.Bool, str, true, 'main', true, null); break;
          case 'int': t = G('$newType')(SIZE[u.kind], KIND[u.kind], str, true, 'main', true, null); break;
          case 'float': t = G('$newType')(u.bits / 8, u.bits === 32 ? KIND.Float32 : KIND.Float64, str, true, 'main', true, null); break;
          case 'int64': t = G('$newType')(8, KIND.Int64, str, true, 'main', true, null); break;
          case 'uint64': t = G('$newType')(8, KIND.Uint64, str, true, 'main', true, null); break;
          case 'complex': t = G('$newType')(u.bits / 8, u.bits === 64 ? KIND.Complex64 : KIND.Complex128, str, true, 'main', true, null); break;
          case 'string': t = G('$newType')(8, KIND.String, str, true, 'main', true, null); break;
          case 'iface': t = G('$newType')(8, KIND.Interface, str, true, 'main', true, null); t.init([]); break;
          case 'ptr': t = G('$newType')(4, KIND.Ptr, str, true, 'main', true, null); t.init(T[u.elem]); break;
          case 'chan': t = G('$newType')(4, KIND.Chan, str, true, 'main', true, null); t.init(T[u.elem], false, false); break;
          case 'array': t = G('$newType')(0, KIND.Array, str, true, 'main', true, null); t.init(T[u.elem], u.n); break;
          case 'slice': t = G('$newType')(12, KIND.Slice, str, true, 'main', true, null); t.init(T[u.elem]); break;
          case 'map': t = G('$newType')(4, KIND.Map, str, true, 'main', true, null); t.init(T[u.key], T[u.elem]); break;
          case 'func': t = G('$newType')(4, KIND.Func, str, true, 'main', true, null); t.init([], [], false); break;
          case 'struct': {
            const props = u.fields.map((f, i) => f.name === '_' ? '_$' + i : f.name);
            const ctor = function (...args) { this.$val = this; for (let i = 0; i < props.length; i++) this[props[i]] = args[i]; };
            t = G('$newType')(0, KIND.Struct, str, true, 'main', true, ctor);
            t.init('main', u.fields.map((f, i) => ({ prop: props[i], name: f.name, embedded: false, exported: /^[A-Z]/.test(f.name), typ: T[f.t], tag: f.tag || '' })));
            break;
          }
          default: throw new Error('named over ' + u.k);
        }
        break;
      }
      default: throw new Error('type kind ' + d.k);
    }
    T.push(t);
    if (!revType.has(t)) revType.set(t, ti);
  });
  // ---- identity objects
  const objs = c.objs.map(ti => {
    const u = under(ti), t = T[ti];
    if (u.k === 'chan') return new (G('$Chan'))(T[u.elem], 0);
    const eu = under(u.elem);
    if (eu.k === 'struct') return T[u.elem].zero();       // *struct is the struct object itself
    let cell = 0;
    return new t(() => cell, v => { cell = v; });
  });
  const objIndex = new Map(); objs.forEach((o, i) => objIndex.set(o, i));
  const nilIndex = new Map();   // nil pointer objects get numbers after the objs
  function refNumber(o) {
    if (objIndex.has(o)) return objIndex.get(o);
    if (!nilIndex.has(o)) nilIndex.set(o, 1000 + nilIndex.size);
    return nilIndex.get(o);
  }

  function build(ti, v) {
    const u = under(ti), t = T[ti];
    switch (u.k) {
      case 'bool': case 'int': return v;
      case 'float': { const x = f64FromHex(v[1]); return u.bits === 32 ? Math.fround(x) : x; }
      case 'int64': case 'uint64': return new t(v[1], v[2]);
      case 'complex': return new t(f64FromHex(v[1]), f64FromHex(v[2]));
      case 'string': return strFromUnits(v[1]);
      case 'ptr': return v[0] === 'pn' ? t.nil : objs[v[1]];
      case 'chan': return v[0] === 'cn' ? G('$chanNil') : objs[v[1]];
      case 'iface': {
        if (v.length === 1) return G('$ifaceNil');
        const dt = T[v[1]], inner = build(v[1], v[2]);
        return dt.wrapped ? new dt(inner) : inner;     // translateImplicitConversion to an interface type
      }
      case 'array': return G('$toNativeArray')(T[u.elem].kind, v[1].map(x => build(u.elem, x)));
      case 'struct': return new t.ptr(...v[1].map((x, i) => build(u.fields[i].t, x)));
      case 'slice': return new t([]);
      case 'map': return new Map();
      case 'func': return function () { };
    }
    throw new Error('build ' + u.k);
  }
  function describe(ti, x) {
    const u = under(ti);
    switch (u.k) {
      case 'bool': case 'int': return x;
      case 'float': return ['f', hexFromF64(x)];
      case 'int64': case 'uint64': return ['q', x.$high, x.$low];
      case 'complex': return ['c', hexFromF64(x.$real), hexFromF64(x.$imag)];
      case 'string': return ['s', unitsFromStr(x)];
      case 'ptr': return x === T[ti].nil ? ['pn', refNumber(x)] : ['p', refNumber(x)];
      case 'chan': return x === G('$chanNil') ? ['cn', refNumber(x)] : ['p', refNumber(x)];
      case 'iface': {
        if (x === G('$ifaceNil')) return ['i'];
        const dt = x.constructor, di = revType.get(dt);
        return ['i', di, describe(di, x.$val)];
      }
      case 'array': return ['a', Array.from(x, e => describe(u.elem, e))];
      case 'struct': return ['t', u.fields.map((f, i) => { const fv = x[f.name === '_' ? '_$' + i : f.name]; return (f.name === '_' && fv === undefined) ? null : describe(f.t, fv); })];  // $structType's constructor drops blank fields
      default: return ['u'];
    }
  }
  function describeKey(k) {
    if (typeof k === 'number') return ['n', Object.is(k, -0) ? 0 : k];
    if (typeof k === 'boolean') return ['b', k];
    if (typeof k === 'string') return ['s', unitsFromStr(k)];
    return ['?', String(k)];
  }
  function refsOf(ti, v, out) {   // object numbers of every identity object inside a built value (for the model's VRef)
    return out;
  }

  const KT = T[c.key];
  let m = c.nilmap ? false : OPS.make();
  const res = { ctr0: G('$idCounter'), tstr: T.map(t => t.string), tid: T.map(t => t.id), nts: {}, steps: [] };
  (c.floats || []).forEach(h => { res.nts[h] = unitsFromStr(String(f64FromHex(h))); });
  for (const op of c.ops) {
    const step = { r: null, err: null };
    try {
      switch (op[0]) {
        case 'set': OPS.set(m, KT, build(c.key, op[1]), op[2]); break;
        case 'get': step.r = OPS.get(m, KT, build(c.key, op[1])); break;
        case 'get2': step.r = OPS.get2(m, KT, build(c.key, op[1])); break;
        case 'del': OPS.del(m, KT, build(c.key, op[1])); break;
        case 'len': step.r = OPS.len(m); break;
        case 'lit': m = OPS.lit(KT, op[1].map(kv => ({ k: build(c.key, kv[0]), v: kv[1] }))); break;
        case 'nil': m = false; break;
        default: throw new Error('op ' + op[0]);
      }
    } catch (e) {
      step.err = P.classify(e);
    }
    step.snap = m ? Array.from(m.entries(), ([key, en]) => [describeKey(key), describe(c.key, en.k), en.v]) : [];
    step.ctr = G('$idCounter');
    res.steps.push(step);
  }
  return res;
}

const out = input.cases.map(c => {
  try { return runCase(c); } catch (e) { return { fatal: String(e && e.stack || e) }; }
});
process.stdout.write(JSON.stringify(out));
