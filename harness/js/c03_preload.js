// C03: `node -r c03_preload.js out.js` makes the nondeterminism of a COMPILED program replay the model's
// oracles: Math.random follows C03_PICKS (comma separated naturals, value (n mod 60 + 0.5)/60, then 0),
// and the 4 ms time-slice test of $runScheduled follows C03_BREAKS (comma separated 0/1, then 0).
// $runScheduled calls setTimeout($runScheduled) (one argument) right before it reads its start time, and
// Date.now() once after every goroutine it ran: the first read after such a setTimeout is the start time.
'use strict';
(function () {
  const picks = (process.env.C03_PICKS || '').split(',').filter(s => s.length).map(Number);
  const breaks = (process.env.C03_BREAKS || '').split(',').filter(s => s.length).map(Number);
  let pi = 0, bi = 0, clock = 1000, passStart = false;
  Math.random = () => { const n = pi < picks.length ? picks[pi] % 60 : 0; pi++; return (n + 0.5) / 60; };
  const realSetTimeout = globalThis.setTimeout;
  globalThis.setTimeout = function (f, t) {
    if (arguments.length === 1) { passStart = true; }
    return realSetTimeout.apply(this, arguments);
  };
  Date.now = () => {
    if (passStart) { passStart = false; return clock; }
    const b = bi < breaks.length ? breaks[bi] : 0; bi++;
    if (b) clock += 5;
    return clock;
  };
})();
