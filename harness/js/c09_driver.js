// C09 driver: builds type families with the REAL run-time constructors of <repo>/compiler/prelude
// ($newType + init + .methods for declared types; $arrayType/$chanType/$funcType/$interfaceType/$mapType/
// $ptrType/$sliceType/$structType for composite types), then replays a probe script against the REAL
// $assertType / $methodSet / $interfaceIsEqual.  One fresh prelude per family (fresh caches, fresh
// $methodSynthesizers).   usage: node c09_driver.js <repoDir> < families.json > answers.json
'use strict';
const path = require('path');
const loader = require(path.join(__dirname, 'prelude_loader.js'));
const repo = process.argv[2];
globalThis.require = require;

const BASIC = ['$Bool', '$Int', '$Int8', '$Int16', '$Int32', '$Int64', '$Uint', '$Uint8', '$Uint16', '$Uint32', '$Uint64',
  '$Uintptr', '$Float32', '$Float64', '$Complex64', '$Complex128', '$String', '$UnsafePointer'];
const KIND = {array: '$kindArray', chan: '$kindChan', func: '$kindFunc', iface: '$kindInterface', map: '$kindMap', ptr: '$kindPtr',
  slice: '$kindSlice', struct: '$kindStruct'};

function runFamily(fam) {
  const P = loader.load(repo);
  const G = n => P.get(n);
  P.eval(`$packages["runtime"] = { TypeAssertionError: { ptr: function(a, b, c, m) { this.missingMethod = m; globalThis.__c09_missing = m; } },
            _type: { ptr: function(s) { this.str = s; } } }; $packages["runtime"]._type.ptr.nil = {};`);
  const named = [];
  const basics = BASIC.map(G);

  function build(t) {
    switch (t.k) {
      case 'basic': return basics[t.i];
      case 'named': return named[t.d];
      case 'ptr': return G('$ptrType')(build(t.e));
      case 'slice': return G('$sliceType')(build(t.e));
      case 'array': return G('$arrayType')(build(t.e), t.n);
      case 'map': { const k = build(t.key); const e = build(t.e); return G('$mapType')(k, e); }
      case 'chan': return G('$chanType')(build(t.e), t.send, t.recv);
      case 'func': { const a = funcArgs(t); return G('$funcType')(a[0], a[1], a[2]); }
      case 'struct': { const a = structArgs(t); return G('$structType')(a[0], a[1]); }
      case 'iface': return G('$interfaceType')(ifaceArgs(t, -1));
    }
    throw new Error('bad type ' + JSON.stringify(t));
  }
  function funcArgs(t) { const ps = t.ps.map(build); const rs = t.rs.map(build); return [ps, rs, t.v]; }
  function structArgs(t) {
    return [t.pkg, t.fs.map((f, i) => ({prop: (f.name === '_' ? '_$' + i : f.name), name: f.name, embedded: f.emb, exported: f.exp, typ: build(f.t), tag: f.tag}))];
  }
  function ifaceArgs(t, owner) {
    return t.ms.map(m => ({prop: m.name, name: m.name, pkg: m.pkg, typ: build(m.sig), $owner: owner}));
  }

  // $newType for every declaration first (as the compiler's output does)
  fam.decls.forEach((d, di) => {
    const u = d.under;
    let kind, ctor = null, size = 4;
    if (u.k === 'basic') { kind = basics[u.i].kind; } else { kind = G(KIND[u.k]); }
    if (u.k === 'struct') {
      const names = u.fs.map((f, i) => (f.name === '_' ? '_$' + i : f.name));   // fieldName() in compiler/utils.go
      ctor = function(...args) {
        this.$val = this;
        for (let i = 0; i < names.length; i++) {
          this[names[i]] = (args.length === 0) ? named[di].fields[i].typ.zero() : args[i];
        }
      };
      size = 0;
    }
    if (u.k === 'ptr' && u.e.k === 'array') { ctor = G('$arrayPtrCtor')(); }
    named.push(G('$newType')(size, kind, d.str, true, d.pkg, d.exported, ctor));
  });
  // per declaration: component types, method signatures, .methods lists, .init
  fam.decls.forEach((d, di) => {
    const u = d.under, T = named[di];
    let initArgs = null;
    switch (u.k) {
      case 'basic': break;
      case 'ptr': case 'slice': initArgs = [build(u.e)]; break;
      case 'array': initArgs = [build(u.e), u.n]; break;
      case 'map': { const k = build(u.key); initArgs = [k, build(u.e)]; break; }
      case 'chan': initArgs = [build(u.e), u.send, u.recv]; break;
      case 'func': initArgs = funcArgs(u); break;
      case 'struct': initArgs = structArgs(u); break;
      case 'iface': initArgs = [ifaceArgs(u, di)]; break;
    }
    const ms = d.meths.map(m => { const a = funcArgs(m.sig); return {prop: m.name, name: m.name, pkg: m.pkg, typ: G('$funcType')(a[0], a[1], a[2]), $owner: di, $ptr: m.ptr}; });
    const vms = ms.filter(m => !m.$ptr), pms = ms.filter(m => m.$ptr);
    if (vms.length > 0) { T.methods = vms; }
    if (pms.length > 0) { G('$ptrType')(T).methods = pms; }
    if (initArgs !== null) { T.init.apply(null, initArgs); }
  });
  const U = fam.univ.map(build);
  G('$synthesizeMethods')();

  const atoms = new Map();
  function atom(t, a) {
    const key = t.id + '/' + a;
    if (!atoms.has(key)) {
      let o;
      if (t.kind === G('$kindPtr')) { o = (a === 0) ? t.nil : (t.elem.kind === G('$kindStruct') ? new t() : new t(() => 0, () => {})); }
      else { o = (a === 0 && t.zero) ? t.zero() : {atom: a}; }
      atoms.set(key, o);
    }
    return atoms.get(key);
  }
  function mk(v, t) {
    const K = t.kind;
    if (K === G('$kindInterface')) {
      if (v === null) { return G('$ifaceNil'); }
      const ct = U[v.i];
      const inner = mk(v.v, ct);
      return ct.wrapped ? new ct(inner) : inner;
    }
    if (K === G('$kindStruct')) { return new t.ptr(...t.fields.map((f, k) => (v.t && v.t[k] !== undefined) ? mk(v.t[k], f.typ) : f.typ.zero())); }   // shapes differ only when two Go types were merged
    if (K === G('$kindArray')) { return (v.t || []).map(x => mk(x, t.elem)); }
    if (v === null || v === undefined || v.a === undefined) { return t.zero(); }
    if (K === G('$kindString')) { return 's' + v.a; }
    if (K === G('$kindBool')) { return v.a % 2 === 1; }
    if (K <= G('$kindFloat64') && K !== G('$kindInt64') && K !== G('$kindUint64')) { return v.a; }
    return atom(t, v.a);
  }

  const out = [];
  for (const p of fam.probes) {
    try {
      if (p[0] === 'ident') {
        out.push(['ident', U[p[1]] === U[p[2]]]);
      } else if (p[0] === 'assert') {
        const value = {constructor: U[p[1]], $val: 0};
        globalThis.__c09_missing = '';
        let ok = true;
        try { G('$assertType')(value, U[p[2]], false); } catch (e) { ok = false; }
        out.push(['assert', ok, ok ? '' : String(globalThis.__c09_missing)]);
      } else if (p[0] === 'mset') {
        out.push(['mset', G('$methodSet')(U[p[1]]).map(m => [m.name, m.pkg, m.$owner === undefined ? -1 : m.$owner])]);
      } else if (p[0] === 'eq') {
        const E = G('$emptyInterface');
        const a = mk(p[1], E), b = mk(p[2], E);
        let r;
        try { r = G('$interfaceIsEqual')(a, b); } catch (e) {
          if (e && e.$runtimeError !== undefined && /comparing uncomparable/.test(e.$runtimeError)) { r = 'panic'; } else { throw e; }
        }
        out.push(['eq', r]);
      } else if (p[0] === 'id') {           // helper used by the witness builder: the run-time id of a universe type
        out.push(['id', U[p[1]].id]);
      }
    } catch (e) {
      out.push(['error', String(e && e.stack ? e.stack : e).slice(0, 300)]);
    }
  }
  return out;
}

let input = '';
process.stdin.on('data', d => { input += d; });
process.stdin.on('end', () => {
  const fams = JSON.parse(input);
  const res = fams.map(f => { try { return runFamily(f); } catch (e) { return [['fatal', String(e && e.stack ? e.stack : e).slice(0, 400)]]; } });
  process.stdout.write(JSON.stringify(res));
});
