(* C19 — evaluation entry points for the correspondence check (no proofs).
   harness/py/props/c19.py writes a cases file that imports this module. *)
From Coq Require Import List NArith Bool.
From Verif Require Import Model.C19_Filter Model.C19_Vlq.
From Coq Require Import ZArith.
Import ListNotations.

Fixpoint list_eqb {A} (eqb : A -> A -> bool) (a b : list A) : bool :=
  match a, b with
  | [], [] => true
  | x :: a', y :: b' => eqb x y && list_eqb eqb a' b'
  | _, _ => false
  end.

Definition bytes_eqb := list_eqb N.eqb.

Definition map_eqb (a b : N * N * list byte) : bool :=
  let '(l1, c1, p1) := a in let '(l2, c2, p2) := b in
  N.eqb l1 l2 && N.eqb c1 c2 && bytes_eqb p1 p2.

(* a case: the chunks handed to Write, whether mappings were observed, the observation *)
Record case := { c_chunks : list (list byte); c_maps_observed : bool; c_expect : obs }.

Definition case_ok (c : case) : bool :=
  match run_chunks (c_chunks c), c_expect c with
  | None, None => true
  | Some (o, m), Some (o', m') =>
      bytes_eqb o o' && (if c_maps_observed c then list_eqb map_eqb m m' else true)
  | _, _ => false
  end.

Fixpoint mismatches_from (i : N) (cs : list case) : list N :=
  match cs with
  | [] => []
  | c :: r => if case_ok c then mismatches_from (N.succ i) r else i :: mismatches_from (N.succ i) r
  end.

Definition mismatches (cs : list case) : list N := mismatches_from 0 cs.

(* ---- encoded maps: a case holds what the REAL code produced - the "mappings" string, Sources, Names -
   and the REAL DecodedMappings() of that map and, where the mappings were handed to the real encoder by the harness, the
   slice as the real sort left it (mc_input; otherwise mc_input = mc_decoded).  The model must (a) decode
   the real string to exactly the real decoder's list, (b) encode mc_input to exactly the real string and
   tables, and (c) agree that the round trip is [canon]. *)
Record mcase := { mc_str : str; mc_srcs : list str; mc_names : list str; mc_input : list mapping; mc_decoded : list mapping }.

Definition mapping_eqb (a b : mapping) : bool :=
  Z.eqb (m_gl a) (m_gl b) && Z.eqb (m_gc a) (m_gc b) && str_eqb (m_file a) (m_file b) &&
  Z.eqb (m_ol a) (m_ol b) && Z.eqb (m_oc a) (m_oc b) && str_eqb (m_name a) (m_name b).

Definition mcase_ok (c : mcase) : bool :=
  (match decode_mappings (mc_srcs c) (mc_names c) (mc_str c) with
   | Some l => list_eqb mapping_eqb l (mc_decoded c)
   | None => false
   end) &&
  (let '(s, a, b) := encode_mappings (mc_input c) in
   str_eqb s (mc_str c) && list_eqb str_eqb a (mc_srcs c) && list_eqb str_eqb b (mc_names c)) &&
  lines_sorted 1 (mc_input c) &&
  list_eqb mapping_eqb (if last_has_file (mc_input c) then map canon (mc_input c) else removelast (map canon (mc_input c))) (mc_decoded c).

Fixpoint mmismatches_from (i : N) (cs : list mcase) : list N :=
  match cs with
  | [] => []
  | c :: r => if mcase_ok c then mmismatches_from (N.succ i) r else i :: mmismatches_from (N.succ i) r
  end.
Definition mmismatches (cs : list mcase) : list N := mmismatches_from 0 cs.
