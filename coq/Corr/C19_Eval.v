(* C19 — evaluation entry points for the correspondence check (no proofs).
   harness/py/props/c19.py writes a cases file that imports this module. *)
From Coq Require Import List NArith Bool.
From Verif Require Import Model.C19_Filter.
Import ListNotations.

Fixpoint list_eqb {A} (eqb : A -> A -> bool) (a b : list A) : bool :=
  match a, b with
  | [], [] => true
  | x :: a', y :: b' => eqb x y && list_eqb eqb a' b'
  | _, _ => false
  end.

Definition bytes_eqb := list_eqb N.eqb.

Definition map_eqb (a b : N * N * list byte) : bool :=
  let '(l1, c1, p1) := a in let '(l2, c2, p2) := b in
  N.eqb l1 l2 && N.eqb c1 c2 && bytes_eqb p1 p2.

(* a case: the chunks handed to Write, whether mappings were observed, the observation *)
Record case := { c_chunks : list (list byte); c_maps_observed : bool; c_expect : obs }.

Definition case_ok (c : case) : bool :=
  match run_chunks (c_chunks c), c_expect c with
  | None, None => true
  | Some (o, m), Some (o', m') =>
      bytes_eqb o o' && (if c_maps_observed c then list_eqb map_eqb m m' else true)
  | _, _ => false
  end.

Fixpoint mismatches_from (i : N) (cs : list case) : list N :=
  match cs with
  | [] => []
  | c :: r => if case_ok c then mismatches_from (N.succ i) r else i :: mismatches_from (N.succ i) r
  end.

Definition mismatches (cs : list case) : list N := mismatches_from 0 cs.
