(* C13 — evaluation entry point for the correspondence check (no proofs).
   harness/py/props/c13.py writes case files that import this module: every case carries the inputs
   and what the REAL code (GopherJS-compiled program under node) produced. *)
From Coq Require Import ZArith List Bool.
From Verif Require Import Model.C13_Bits Model.C13_Unicode Model.C13_Nosync Model.C13_Float Model.C13_Atomic.
From Verif Require Import Gen.C13_CaseRanges Gen.C13_Variants.
Import ListNotations.
Local Open Scope Z_scope.

Inductive case :=
| CMul32 (x y hi lo : Z)
| CAdd32 (x y c sum cout : Z)
| CDiv32 (hi lo y status q r : Z)          (* status 0 = returned, 1 = divide error, 2 = overflow error *)
| CRem32 (hi lo y status r : Z)
| CTo (c r mapped : Z)
| CTrunc (b out : Z)
| CModf (b o1 o2 : Z)
| CSignbit (b o : Z)
| CCopysign (a b o : Z)
| CIsNaN (b o : Z)
| CIsInf (b sign o : Z)
| CInf (sign o : Z)
| CAtomic (ty a b c w0 w1 w2 w3 : Z)       (* ty: 0 int32, 1 uint32, 2 int64, 3 uint64 *)
| CNosync (kind : Z) (h : list op) (outs : list nout).

Definition b2z (b : bool) : Z := if b then 1 else 0.

Definition panic_code (p : bits_panic) : Z := match p with DivideError => 1 | OverflowError => 2 end.

Definition nout_eqb (a b : nout) : bool :=
  match a, b with
  | NOk x, NOk y => x =? y
  | NPanic x, NPanic y => x =? y
  | _, _ => false
  end.

Fixpoint list_eqb {A} (eqb : A -> A -> bool) (a b : list A) : bool :=
  match a, b with
  | [], [] => true
  | x :: a', y :: b' => eqb x y && list_eqb eqb a' b'
  | _, _ => false
  end.

Definition ity_of (ty : Z) : ity := if ty =? 0 then Int32 else if ty =? 1 then Uint32 else if ty =? 2 then Int64 else Uint64.
Definition upat (t : ity) (x : Z) : Z := x mod 2 ^ width t.

Definition atomic_words (ty a b c : Z) : list Z :=
  let t := ity_of ty in
  match script t a b c with
  | [r_add; after_add; r_swap; r_load; c1; c2; v] =>
      if width t =? 32
      then [upat t r_add * 4294967296 + upat t after_add; upat t r_swap * 4294967296 + upat t r_load; c1 * 2 + c2; upat t v]
      else [Z.lxor (upat t r_add) ((upat t after_add * 2) mod 2 ^ 64); Z.lxor (upat t r_swap) ((upat t r_load * 2) mod 2 ^ 64); c1 * 2 + c2; upat t v]
  | _ => []
  end.

Definition case_ok (c : case) : bool :=
  match c with
  | CMul32 x y hi lo => let '(h, l) := mul32 x y in (h =? hi) && (l =? lo)
  | CAdd32 x y c s co => let '(s', co') := add32 x y c in (s' =? s) && (co' =? co)
  | CDiv32 hi lo y st q r =>
      match div32 hi lo y with
      | inl (q', r') => (st =? 0) && (q' =? q) && (r' =? r)
      | inr p => st =? panic_code p
      end
  | CRem32 hi lo y st r =>
      match rem32 hi lo y with
      | inl r' => (st =? 0) && (r' =? r)
      | inr p => st =? panic_code p
      end
  | CTo c r mapped => fst (to_js CaseRanges c r) =? mapped
  | CTrunc b out => obs (js_trunc trunc_impl (decode b)) =? out
  | CModf b o1 o2 => let '(i, f) := js_modf_impl modf_impl trunc_impl (decode b) in (obs i =? o1) && (obs f =? o2)
  | CSignbit b o => b2z (js_signbit (decode b)) =? o
  | CCopysign a b o => obs (js_copysign (decode a) (decode b)) =? o
  | CIsNaN b o => b2z (js_isnan (decode b)) =? o
  | CIsInf b s o => b2z (js_isinf (decode b) s) =? o
  | CInf s o => obs (js_inf s) =? o
  | CAtomic ty a b c w0 w1 w2 w3 => list_eqb Z.eqb (atomic_words ty a b c) [w0; w1; w2; w3]
  | CNosync k h outs => list_eqb nout_eqb (nrun (ninit k) h) outs
  end.

Fixpoint mismatches_from (i : Z) (cs : list case) : list Z :=
  match cs with
  | [] => []
  | c :: r => if case_ok c then mismatches_from (i + 1) r else i :: mismatches_from (i + 1) r
  end.

Definition mismatches (cs : list case) : list Z := mismatches_from 0 cs.
