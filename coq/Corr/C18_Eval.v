(* C18 — evaluation entry points for the correspondence check (no proofs).
   harness/py/props/c18.py writes cases files that import this module. *)
From Coq Require Import List String Bool.
From Verif Require Import Gen.C18_BuildEnv Model.C18_Build.
Import ListNotations.
Local Open Scope string_scope.

Fixpoint strs_eqb (a b : list string) : bool :=
  match a, b with
  | [], [] => true
  | x :: a', y :: b' => (x =? y) && strs_eqb a' b'
  | _, _ => false
  end.

Definition result_eqb (a b : result) : bool :=
  match a, b with
  | RPanic, RPanic | RBad, RBad | RNoGo, RNoGo => true
  | ROk g t x i j, ROk g' t' x' i' j' =>
      strs_eqb g g' && strs_eqb t t' && strs_eqb x x' && strs_eqb i i' && strs_eqb j j'
  | _, _ => false
  end.

(* a package-directory case: configuration, how it is imported, the entries
   sorted by name, and what the real XContext.Import returned *)
Record case := {
  k_cfg : config;
  k_import_path : string;
  k_in_goroot : bool;
  k_files : list file;
  k_expect : result
}.

Definition case_ok (k : case) : bool :=
  result_eqb (import_pkg (k_cfg k) (k_import_path k) (k_in_goroot k) (k_files k)) (k_expect k).

Fixpoint mismatches_from (i : nat) (cs : list case) : list nat :=
  match cs with
  | [] => []
  | c :: r => if case_ok c then mismatches_from (S i) r else i :: mismatches_from (S i) r
  end.

Definition mismatches (cs : list case) : list nat := mismatches_from 0 cs.

(* the context itself: what NewBuildContext put into go/build.Context (observed
   through the harness) against go_ctx / preload *)
Record ctxcase := {
  x_cfg : config;
  x_std : bool;
  x_expect : env
}.

Definition env_eqb (a b : env) : bool :=
  (e_goos a =? e_goos b) && (e_goarch a =? e_goarch b) && (e_compiler a =? e_compiler b) &&
  Bool.eqb (e_cgo a) (e_cgo b) && strs_eqb (e_build_tags a) (e_build_tags b) &&
  strs_eqb (e_tool_tags a) (e_tool_tags b) && strs_eqb (e_release_tags a) (e_release_tags b).

Definition ctxcase_ok (x : ctxcase) : bool :=
  match go_ctx (x_cfg x) with
  | Some e => env_eqb (preload e (x_std x)) (x_expect x)
  | None => false
  end.

Fixpoint ctx_mismatches_from (i : nat) (cs : list ctxcase) : list nat :=
  match cs with
  | [] => []
  | c :: r => if ctxcase_ok c then ctx_mismatches_from (S i) r else i :: ctx_mismatches_from (S i) r
  end.

Definition ctx_mismatches (cs : list ctxcase) : list nat := ctx_mismatches_from 0 cs.

(* coverage: which classification each entry of a case received *)
Definition classes (k : case) : list cls :=
  match go_ctx (k_cfg k) with
  | Some e => map (classify (preload e (is_std (k_import_path k) (k_in_goroot k)))) (k_files k)
  | None => []
  end.
