(* C04 — evaluation entry points for the correspondence check (no proofs).
   harness/py/props/c04.py writes a cases file that imports this module: every case is a model
   program, the package order used for the rounds of the real Collector.propagate, and the
   per-package discovery lists the real code produced (as model instances). *)
From Coq Require Import List NArith Bool Arith.
From Verif Require Import Model.C04_Inst.
Import ListNotations.

Fixpoint insts_eqb (a b : list inst) : bool :=
  match a, b with
  | [], [] => true
  | x :: a', y :: b' => inst_eqb x y && insts_eqb a' b'
  | _, _ => false
  end.

Fixpoint lists_eqb (a b : list (list inst)) : bool :=
  match a, b with
  | [], [] => true
  | x :: a', y :: b' => insts_eqb x y && lists_eqb a' b'
  | _, _ => false
  end.

Record case := { c_prog : prog; c_order : list nat; c_rounds : nat; c_expect : list (list inst) }.

Definition fuel : nat := N.to_nat 6000.

Definition run_case (c : case) : state := collect (c_prog c) fuel (rounds (c_order c) (c_rounds c)).

(* ids: InstanceSet.ID(values[k]) = k, i.e. inst_id returns the position *)
Fixpoint ids_ok_from (p : prog) (st : state) (k : nat) (l : list inst) : bool :=
  match l with
  | [] => true
  | i :: r => (match inst_id p st i with Some n => Nat.eqb n k | None => false end) && ids_ok_from p st (S k) r
  end.

Definition case_ok (c : case) : bool :=
  let st := run_case c in
  all_exhausted st && lists_eqb (map s_vals st) (c_expect c)
  && forallb (fun s => ids_ok_from (c_prog c) st 0 (s_vals s)) st.

Fixpoint mismatches_from (i : N) (cs : list case) : list N :=
  match cs with
  | [] => []
  | c :: r => if case_ok c then mismatches_from (N.succ i) r else i :: mismatches_from (N.succ i) r
  end.

Definition mismatches (cs : list case) : list N := mismatches_from 0 cs.
