(* C10 — evaluation entry points for the correspondence check (no proofs).
   harness/py/props/c10.py writes cases files that import this module. *)
From Coq Require Import List NArith Arith Bool String Ascii.
From Verif Require Import Model.C10_Order Model.C10_Linkname.
Import ListNotations.

(* readable byte strings in the cases files *)
Definition b (s : string) : str := map N_of_ascii (list_ascii_of_string s).

Fixpoint list_eqb {A} (eqb : A -> A -> bool) (x y : list A) : bool :=
  match x, y with
  | [], [] => true
  | a :: x', c :: y' => eqb a c && list_eqb eqb x' y'
  | _, _ => false
  end.

Definition opt_eqb {A} (eqb : A -> A -> bool) (x y : option A) : bool :=
  match x, y with
  | None, None => true
  | Some a, Some c => eqb a c
  | _, _ => false
  end.

Definition link_eqb (x y : link) : bool := sym_eqb (l_ref x) (l_ref y) && sym_eqb (l_impl x) (l_impl y).

Definition parsed_eqb (x y : parsed) : bool :=
  match x, y with
  | PNone, PNone => true
  | PErr, PErr => true
  | PLink l, PLink m => link_eqb l m
  | _, _ => false
  end.

Definition lerror_eqb (x y : lerror) : bool :=
  match x, y with
  | EUsage, EUsage | ENoUnsafe, ENoUnsafe | ENotFound, ENotFound | ENotFunc, ENotFunc | EInsert, EInsert => true
  | _, _ => false
  end.

Definition item_eqb (x y : item) : bool :=
  match x, y with
  | IVar a, IVar c => str_eqb a c
  | IFn f k, IFn g j => str_eqb f g && Nat.eqb k j
  | _, _ => false
  end.

Definition event_eqb (x y : event) : bool :=
  match x, y with
  | EZero p a, EZero q c => str_eqb p q && str_eqb a c
  | EStart p i, EStart q j => str_eqb p q && item_eqb i j
  | EWake p i, EWake q j => str_eqb p q && item_eqb i j
  | EMain p, EMain q => str_eqb p q
  | _, _ => false
  end.

(* the sequence of Add calls with the flag each one returned *)
Fixpoint gls_adds (adds : list (list link)) (g : gls) : gls * list bool :=
  match adds with
  | [] => (g, [])
  | es :: r => let '(g1, c) := gls_add es g in
               let '(g2, cs) := gls_adds r g1 in (g2, c :: cs)
  end.

Definition pair_eqb (x y : str * str) : bool := str_eqb (fst x) (fst y) && str_eqb (snd x) (snd y).

Inductive case :=
| CDeps (g : graph) (root : str) (root_imports : list str) (expect : option (list str))
| CRead (pkg text : str) (expect : parsed)
| CFile (pkg : str) (imports_unsafe : bool) (decls : list (str * node)) (comments : list str)
        (exp_links : list link) (exp_errs : list lerror)
| CGls (adds : list (list link)) (queries : list sym) (exp_link_rejected : bool)
       (exp_err : list bool) (exp_isimpl : list bool) (exp_find : list (option sym)) (exp_meth : list (option (str * str)))
| CSort (names : list str) (expect : list str)
| CMitig (s : sym) (v i : bool)
| CProg (prog : program) (main : str) (expect : option (list event)).

Definition case_ok (c : case) : bool :=
  match c with
  | CDeps g root ri e => opt_eqb (list_eqb str_eqb) (import_deps g root ri) e
  | CRead pkg text e => parsed_eqb (read_linkname pkg text) e
  | CFile pkg u decls comments el ee =>
      let '(ls, es) := parse_file pkg u decls comments in
      list_eqb link_eqb ls el && list_eqb lerror_eqb es ee
  | CGls adds qs erej eerr eimpl efind emeth =>
      let '(g, errs) := gls_adds adds gls_empty in
      list_eqb Bool.eqb errs eerr &&
      list_eqb Bool.eqb (map (gls_is_impl g) qs) eimpl &&
      list_eqb (opt_eqb sym_eqb) (map (gls_find g) qs) efind &&
      list_eqb (opt_eqb pair_eqb) (map is_method qs) emeth &&
      (* the aggregation loop of WriteProgramCode: rejected exactly when the real one returns an error,
         otherwise it builds the same set *)
      match link_program adds with
      | None => erej
      | Some g' => negb erej && list_eqb (opt_eqb sym_eqb) (map (gls_find g') qs) efind
      end
  | CSort names e =>
      list_eqb str_eqb (map fst (sort_files (map (fun n => (n, tt)) names))) e
  | CMitig s v i => Bool.eqb (mitigated_var s) v && Bool.eqb (mitigated_insert s) i
  | CProg prog main e =>
      let r := run_program prog main in
      opt_eqb (list_eqb event_eqb) (option_map (filter observable) r) e &&
      (* the flattened resumable $init gives the same trace as the direct recursion *)
      opt_eqb (list_eqb event_eqb) (run_machine prog main) r
  end.

Fixpoint mismatches_from (i : N) (cs : list case) : list N :=
  match cs with
  | [] => []
  | c :: r => if case_ok c then mismatches_from (N.succ i) r else i :: mismatches_from (N.succ i) r
  end.

Definition mismatches (cs : list case) : list N := mismatches_from 0 cs.
