(* C01 — evaluation entry point for the correspondence check (no proofs).
   harness/py/props/c01.py writes case files that import this module. *)
From Coq Require Import ZArith List String Bool.
From Verif Require Import Model.C01_GoSem Model.C01_JsSem Model.C01_Compile Model.C01_Wf.
Import ListNotations.
Local Open Scope Z_scope.

Definition nm (b : string) (i : N) : name := (b, i).
Arguments nm _%string _%N.

Fixpoint list_eqb {A} (eqb : A -> A -> bool) (a b : list A) : bool :=
  match a, b with
  | [], [] => true
  | x :: a', y :: b' => eqb x y && list_eqb eqb a' b'
  | _, _ => false
  end.

Definition jbin_code (o : jbin) : N :=
  match o with
  | JAdd => 0 | JSub => 1 | JMul => 2 | JDiv => 3 | JMod => 4 | JShl => 5 | JShr => 6 | JUshr => 7
  | JBand => 8 | JBor => 9 | JBxor => 10 | JLt => 11 | JLe => 12 | JGt => 13 | JGe => 14
  | JSeq => 15 | JSne => 16
  end%N.
Definition jun_code (o : jun) : N := match o with JNeg => 0 | JBnot => 1 | JNot => 2 end%N.

Fixpoint jexpr_eqb (a b : jexpr) : bool :=
  match a, b with
  | JNum x, JNum y => x =? y
  | JBoolE x, JBoolE y => Bool.eqb x y
  | JVar x, JVar y => name_eqb x y
  | JBin o a1 a2, JBin p b1 b2 => N.eqb (jbin_code o) (jbin_code p) && jexpr_eqb a1 b1 && jexpr_eqb a2 b2
  | JUn o a1, JUn p b1 => N.eqb (jun_code o) (jun_code p) && jexpr_eqb a1 b1
  | JAsg n a1, JAsg m b1 => name_eqb n m && jexpr_eqb a1 b1
  | JComma a1 a2, JComma b1 b2 | JAnd a1 a2, JAnd b1 b2 | JOr a1 a2, JOr b1 b2
  | JImul a1 a2, JImul b1 b2 | JMin a1 a2, JMin b1 b2 => jexpr_eqb a1 b1 && jexpr_eqb a2 b2
  | JCond a1 a2 a3, JCond b1 b2 b3 => jexpr_eqb a1 b1 && jexpr_eqb a2 b2 && jexpr_eqb a3 b3
  | JThrowE x, JThrowE y => String.eqb x y
  | _, _ => false
  end.

Fixpoint jstmt_eqb (a b : jstmt) {struct a} : bool :=
  let l := fix l (x y : list jstmt) {struct x} : bool :=
    match x, y with
    | [], [] => true
    | p :: x', q :: y' => jstmt_eqb p q && l x' y'
    | _, _ => false
    end in
  match a, b with
  | JSExpr x, JSExpr y => jexpr_eqb x y
  | JSLog x, JSLog y => list_eqb jexpr_eqb x y
  | JSIf c t e, JSIf c' t' e' =>
      jexpr_eqb c c' && l t t' &&
      match e, e' with
      | JNoElse, JNoElse => true
      | JElse x, JElse y => l x y
      | JElif x, JElif y => jstmt_eqb x y
      | _, _ => false
      end
  | JSWhile n x, JSWhile m y => opt_label_eqb n m && l x y
  | JSBreak n, JSBreak m | JSContinue n, JSContinue m => opt_label_eqb n m
  | _, _ => false
  end.

Definition jprog_body_eqb (a b : jprog) : bool := list_eqb jstmt_eqb (jp_body a) (jp_body b).
Definition jprog_vars_eqb (a b : jprog) : bool := list_eqb name_eqb (jp_vars a) (jp_vars b).
Definition jsast_eqb (a b : jprog) : bool := jprog_vars_eqb a b && jprog_body_eqb a b.

Definition val_eqb (a b : val) : bool :=
  match a, b with VI x, VI y => x =? y | VB x, VB y => Bool.eqb x y | _, _ => false end.
Definition outcome_eqb (a b : outcome) : bool :=
  match a, b with
  | Done o e, Done o' e' =>
      list_eqb (list_eqb val_eqb) o o' &&
      match e, e' with Exit, Exit | PanicExit, PanicExit => true | _, _ => false end
  | OutOfFuel, OutOfFuel | Stuck, Stuck => true
  | _, _ => false
  end.

(* one generated program: its MiniGo term, the MiniJS term parsed from the REAL out.js, and the
   outcomes observed by running node on out.js and the natively built binary *)
Record case := {
  c_prog : stmt;
  c_parsed : jprog;
  c_node : outcome;
  c_native : outcome;
  c_fuel : nat
}.

Definition b2n (b : bool) : N := if b then 1%N else 0%N.

(* [wf; structural vars; structural body; closed; run_js parsed = run_go; run_js (compile p) = run_go;
    node = run_go; native = run_go; class of run_go]   class: 0 Done, 1 OutOfFuel, 2 Stuck *)
Definition verdict (c : case) : list N :=
  let p := c_prog c in
  let cp := compile p in
  let g := run_go (c_fuel c) p in
  [ b2n (wf_prog p);
    b2n (jprog_vars_eqb (c_parsed c) cp);
    b2n (jprog_body_eqb (c_parsed c) cp);
    b2n (closedb (c_parsed c));
    b2n (outcome_eqb (run_js (c_fuel c) (c_parsed c)) g);
    b2n (outcome_eqb (run_js (c_fuel c) cp) g);
    b2n (outcome_eqb (c_node c) g);
    b2n (outcome_eqb (c_native c) g);
    match g with Done _ _ => 0 | OutOfFuel => 1 | Stuck => 2 end%N ].

Definition verdicts (cs : list case) : list (list N) := map verdict cs.
