(* C02 phase 4 — evaluation entry points for the extended fragments (no proofs).
   harness/py/props/c02.py writes cases files that import this module. *)
From Coq Require Import List ZArith Bool Arith.
From Verif Require Import Model.C02_Blocking Model.C02_Flat Model.C02_Wf Model.C02_P4_Range Corr.C02_Eval.
Import ListNotations.

(* ---- programs with `for k = range s` (Model/C02_P4_Range.v) ---- *)
Record rcase := {
  rc_prog : rprog;
  rc_nglob : nat;
  rc_main : fname;
  rc_args : list Z;
  rc_out : list Z;
  rc_ret : Z;
  rc_blocking : list bool;
  rc_skel : list (option (list tok));
  rc_live : list bool;
  rc_scheds : list (option (list bool))
}.

(* bits 1..64 as in Corr/C02_Eval.pcase_code, evaluated on the translator's reduction [rdesugar] (so: [flatten] of the
   reduced loop against the emitted skeleton, [run_flat (rcompile p)] under the schedules, Decl.Blocking, wf, src_ok);
   bit 128: the direct semantics of the extended language [run_rdirect] differs from the observation;
   bit 256: [run_flat (rcompile p)] under some schedule differs from [run_rdirect p] (the theorem's two sides) *)
Definition rcase_code (c : rcase) : nat :=
  let base := pcase_code {| pc_prog := rdesugar (rc_prog c); pc_nglob := rc_nglob c; pc_main := rc_main c; pc_args := rc_args c;
                            pc_out := rc_out c; pc_ret := rc_ret c; pc_blocking := rc_blocking c; pc_skel := rc_skel c;
                            pc_live := rc_live c; pc_scheds := rc_scheds c |} in
  let d := run_rdirect (rc_prog c) (rc_nglob c) FUEL (rc_main c) (rc_args c) in
  let b128 := if obs_eqb d (rc_out c) (rc_ret c) then 0 else 128 in
  let b256 := if forallb (fun s => obs_same (run_flat (rcompile (rc_prog c)) (sched_of s) (rc_nglob c) FUEL (rc_main c) (rc_args c)) d)
                         (rc_scheds c) then 0 else 256 in
  base + b128 + b256.

Fixpoint rmismatches_from (i : nat) (cs : list rcase) : list (nat * nat) :=
  match cs with
  | [] => []
  | c :: r => let k := rcase_code c in
              if Nat.eqb k 0 then rmismatches_from (S i) r else (i, k) :: rmismatches_from (S i) r
  end.

Definition rmismatches (cs : list rcase) : list (nat * nat) := rmismatches_from 0 cs.
