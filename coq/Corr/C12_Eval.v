(* C12 — evaluation entry points for the correspondence check (no theorems).
   harness/py/props/c12.py writes case files that import this module: every case carries the
   abstract input files AND the projection of what the real functions produced. *)
From Coq Require Import List String Ascii Bool NArith ZArith.
From Verif Require Import Gen.C12_Tables Model.C12_Merge.
Import ListNotations.
Local Open Scope string_scope.

Definition lstr_dec : forall a b : list string, {a = b} + {a <> b} := list_eq_dec string_dec.
Definition recv_dec : forall a b : recv, {a = b} + {a <> b}.
Proof. decide equality; auto using string_dec, N.eq_dec, bool_dec. Defined.
Definition part_dec : forall a b : part, {a = b} + {a <> b}.
Proof. decide equality; auto using string_dec, lstr_dec. Defined.
Definition opart_dec : forall a b : option part, {a = b} + {a <> b}.
Proof. decide equality; auto using part_dec. Defined.
Definition fdecl_dec : forall a b : fdecl, {a = b} + {a <> b}.
Proof. decide equality; auto using string_dec, lstr_dec, part_dec, opart_dec.
  decide equality; auto using recv_dec. Defined.
Definition vexpr_dec : forall a b : vexpr, {a = b} + {a <> b}.
Proof. decide equality; auto using string_dec, Z.eq_dec. Defined.
Definition spec_dec : forall a b : spec, {a = b} + {a <> b}.
Proof.
  decide equality.
  - decide equality; auto using string_dec, lstr_dec. decide equality; auto using string_dec.
  - decide equality; auto using string_dec, lstr_dec, part_dec, N.eq_dec.
  - decide equality; auto using string_dec, lstr_dec, bool_dec. apply (list_eq_dec vexpr_dec).
Defined.
Definition tok_dec : forall a b : tok, {a = b} + {a <> b}.
Proof. decide equality. Defined.
Definition decl_dec : forall a b : decl, {a = b} + {a <> b}.
Proof.
  decide equality; auto using fdecl_dec.
  decide equality; auto using lstr_dec, bool_dec, tok_dec. apply (list_eq_dec spec_dec).
Defined.
Definition file_eqb (a b : file) : bool := if list_eq_dec decl_dec a b then true else false.
Definition files_eqb (a b : list file) : bool := if list_eq_dec (list_eq_dec decl_dec) a b then true else false.

(* observed overrides entry: key, keepOriginal, purgeMethods, overrideSignature != nil *)
Definition oentry := (string * (bool * bool * bool))%type.
Definition overrides_ok (ov : overrides) (obs : list oentry) : bool :=
  Nat.eqb (List.length ov) (List.length obs) &&
  forallb (fun '(k, (kp, pg, sg)) =>
             match lookup k ov with
             | Some i => Bool.eqb (o_keep i) kp && Bool.eqb (o_purge i) pg &&
                         Bool.eqb (match o_sig i with Some _ => true | None => false end) sg
             | None => false
             end) obs.

(* constants as go/types evaluated them on the merged package (None: it did not type-check) *)
Definition consts_ok (fs : list file) (obs : option (list (string * Z))) : bool :=
  match obs with
  | None => true
  | Some l =>
      let m := flat_map file_consts fs in
      Nat.eqb (List.length m) (List.length l) &&
      forallb (fun '(n, z) => match lookup n m with Some (Some z') => Z.eqb z z' | _ => false end) l
  end.

Inductive case :=
| CMerge (path : string) (ovs origs : list file)
         (obs_overrides : list oentry) (obs_ovs obs_origs : list file) (obs_consts : option (list (string * Z)))
| CPrune (f obs : file).

Definition case_ok (c : case) : bool :=
  match c with
  | CMerge p ovs origs oo o1 o2 oc =>
      let '(ov, ovs', origs') := merge const_group_blanking p ovs origs in
      overrides_ok ov oo && files_eqb ovs' o1 && files_eqb origs' o2 && consts_ok (ovs' ++ origs') oc
  | CPrune f o => file_eqb (prune_imports f) o
  end.

Fixpoint mismatches_from (i : N) (cs : list case) : list N :=
  match cs with
  | [] => []
  | c :: r => if case_ok c then mismatches_from (N.succ i) r else i :: mismatches_from (N.succ i) r
  end.
Definition mismatches (cs : list case) : list N := mismatches_from 0 cs.

(* short constructor names for the generated case files *)
Definition R := mkrecv. Definition P := mkpart. Definition F := mkf.
Definition I := mki. Definition T := mkt. Definition V := mkv. Definition G := mkg.
