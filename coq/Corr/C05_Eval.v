(* C05 — evaluation entry points for the correspondence check (no proofs).
   harness/py/props/c05.py writes case files that import this module. *)
From Coq Require Import List String Bool NArith.
From Verif Require Import Model.C05_Select.
Import ListNotations.

(* a case: the declarations in Include order, and the identities the REAL dce.Selector returned
   (None = the real code panicked) *)
Record case := { c_decls : list decl; c_expect : option (list N) }.

Definition mem (x : N) (l : list N) : bool := existsb (N.eqb x) l.
Definition set_eqb (a b : list N) : bool := forallb (fun x => mem x b) a && forallb (fun x => mem x a) b.

Definition case_ok (c : case) : bool :=
  match select (c_decls c), c_expect c with
  | Some got, Some want => set_eqb got want
  | _, _ => false          (* the model never runs out of fuel (theorem) and never panics *)
  end.

Fixpoint mismatches_from (i : N) (cs : list case) : list N :=
  match cs with
  | [] => []
  | c :: r => if case_ok c then mismatches_from (N.succ i) r else i :: mismatches_from (N.succ i) r
  end.

Definition mismatches (cs : list case) : list N := mismatches_from 0 cs.

(* shorthand used by the generated case files *)
Definition D (id : N) (alive : bool) (obj meth : string) (deps : list string) (link : bool) : decl :=
  {| d_id := id; d_alive := alive; d_obj := obj; d_meth := meth; d_deps := deps; d_link := link |}.

(* ---- side-effect analysis: (expression, what the REAL analysis.HasSideEffect returned) *)
From Verif Require Import Model.C05_SideEffect.

Fixpoint hse_mismatches_from (i : N) (cs : list (expr * bool)) : list N :=
  match cs with
  | [] => []
  | (e, b) :: r => if Bool.eqb (has_side_effect e) b then hse_mismatches_from (N.succ i) r
                   else i :: hse_mismatches_from (N.succ i) r
  end.
Definition hse_mismatches (cs : list (expr * bool)) : list N := hse_mismatches_from 0 cs.
